import JL.Props.C02
import JL.Lemmas.C03
/-!
# C03 — every operator enforces its arity; `{op: x}` means exactly `{op: [x]}`
-/
namespace JL.Props.C03
open JL Json JL.Props.C02

/-- a set of operand counts `{n | lo ≤ n < hi}`, `hi = none` meaning unbounded -/
abbrev Range := Nat × Option Nat

def inRange : Range → Nat → Bool
  | (lo, none), n => decide (lo ≤ n)
  | (lo, some hi), n => decide (lo ≤ n) && decide (n < hi)

/-- the documented operand counts of the property, written from its text -/
def documented (k : Str) : Option Range :=
  if k ∈ ["==", "!=", "===", "!==", "/", "%", "in", "map", "filter", "all", "some", "none", "missing_some"].map String.toList then some (2, some 3)
  else if k ∈ ["<", "<=", ">", ">=", "substr"].map String.toList then some (2, some 4)
  else if k = "reduce".toList then some (3, some 4)
  else if k ∈ ["!", "!!", "log"].map String.toList then some (1, some 2)
  else if k = "-".toList then some (1, some 3)
  else if k = "var".toList then some (0, some 3)
  else if k ∈ ["*", "max", "min", "and", "or"].map String.toList then some (1, none)
  else if k ∈ ["+", "cat", "merge", "missing", "if", "?:"].map String.toList then some (0, none)
  else none

/-- the counts a descriptor accepts, as a range (an empty `variadic` is normalised) -/
def rangeOf : Arity → Range
  | .none => (0, some 1)
  | .any => (0, none)
  | .unary => (1, some 2)
  | .exactly n => (n, some (n + 1))
  | .atLeast n => (n, none)
  | .variadic lo hi => (lo, some hi)

theorem isValidLen_range (a : Arity) (n : Nat) : a.isValidLen n = inRange (rangeOf a) n := by
  cases a <;> simp only [Arity.isValidLen, rangeOf, inRange] <;> rw [Bool.eq_iff_iff] <;> simp [decide_eq_true_eq] <;> omega

/-- Over the tables regenerated from the source on this run: every entry's descriptor denotes exactly the
documented set of operand counts. -/
theorem tables_documented : allEntries.all (fun e => documented e.key == some (rangeOf e.arity)) = true := by
  decide

theorem findEntry_mem {k : Str} {es : List Entry} {e : Entry} (h : findEntry k es = some e) : e ∈ es ∧ e.key = k := by
  induction es with
  | nil => simp [findEntry] at h
  | cons x xs ih =>
    unfold findEntry at h
    split at h
    · cases h; exact ⟨List.mem_cons_self, by assumption⟩
    · have := ih h; exact ⟨List.mem_cons_of_mem _ this.1, this.2⟩

theorem lookupOp_entry {k : Str} {kind : Kind} {ar : Arity} (h : lookupOp k = some (kind, ar)) :
    ∃ e ∈ allEntries, e.key = k ∧ e.arity = ar := by
  unfold lookupOp at h
  split at h
  · rename_i e he; cases h
    exact ⟨e, by simp [allEntries, (findEntry_mem he).1], (findEntry_mem he).2, rfl⟩
  · split at h
    · rename_i e he; cases h
      exact ⟨e, by simp [allEntries, (findEntry_mem he).1], (findEntry_mem he).2, rfl⟩
    · split at h
      · rename_i e he; cases h
        exact ⟨e, by simp [allEntries, (findEntry_mem he).1], (findEntry_mem he).2, rfl⟩
      · cases h

/-- **Arity = documentation, for every operand count `n : ℕ`** (not only 0..6): the count is accepted by the
parse phase iff it is in the operator's documented set. -/
theorem arity_doc (k : Str) (kind : Kind) (ar : Arity) (h : lookupOp k = some (kind, ar)) (n : Nat) :
    ∃ r, documented k = some r ∧ ar.isValidLen n = inRange r n := by
  obtain ⟨e, hm, hk, ha⟩ := lookupOp_entry h
  have := List.all_eq_true.mp tables_documented e hm
  refine ⟨rangeOf ar, ?_, isValidLen_range ar n⟩
  rw [← hk, ← ha]
  simpa using this

/-- **Rejection.** A bracketed operand list whose length the descriptor does not accept is an error — not a
panic, no operand evaluated (no log line). -/
theorem reject_count (k : Str) (kind : Kind) (ar : Arity) (xs : List Json) (d : Json)
    (h : lookupOp k = some (kind, ar)) (hn : ar.isValidLen xs.length = false) :
    apply (.obj [(k, .arr xs)]) d = ⟨[], .err⟩ := by
  unfold apply
  have : check (.obj [(k, .arr xs)]) = false := by
    unfold check; simp [h, hn]
  rw [this]; rfl

/-- **Rejection of an unbracketed operand** where a single operand is not a documented count. -/
theorem reject_bare (k : Str) (kind : Kind) (ar : Arity) (x d : Json) (hx : ∀ xs, x ≠ .arr xs)
    (h : lookupOp k = some (kind, ar)) (hn : ar.isValidLen 1 = false) :
    apply (.obj [(k, x)]) d = ⟨[], .err⟩ := by
  unfold apply
  have : check (.obj [(k, x)]) = false := by
    unfold check
    simp only [h]
    first
      | (split
         · rename_i ys; exact absurd rfl (hx ys)
         · simp [hn])
      | simp [hn]
  rw [this]; rfl

/-- over the regenerated tables, `can_accept_unary` agrees with "1 is a valid count" (the `AtLeast(n) => n >= 1`
oddity of the code is harmless for the descriptors actually in the tables) -/
theorem unary_consistent : allEntries.all (fun e => e.arity.canAcceptUnary == e.arity.isValidLen 1) = true := by
  decide

/-- parse phase: `{op: x}` is accepted iff `{op: [x]}` is, for non-array `x` -/
theorem check_sugar (k : Str) (x : Json) (hx : ∀ xs, x ≠ .arr xs) :
    check (.obj [(k, x)]) = check (.obj [(k, .arr [x])]) := by
  cases hl : lookupOp k with
  | none => unfold check; simp [hl]
  | some p =>
    obtain ⟨kind, ar⟩ := p
    obtain ⟨e, hm, _, ha⟩ := lookupOp_entry hl
    have hu := List.all_eq_true.mp unary_consistent e hm
    rw [ha] at hu
    have hu' : ar.canAcceptUnary = ar.isValidLen 1 := by simpa using hu
    conv => lhs; unfold check
    conv => rhs; unfold check
    simp only [hl]
    first
      | (split
         · rename_i ys; exact absurd rfl (hx ys)
         · simp [hu', checkList])
      | simp [hu', checkList]

/-- **Unary sugar, evaluation phase.** For every recognised key (whatever its table) and every non-array `x`, the
evaluation of `{k: x}` is that of `{k: [x]}`: same outcome, same log lines. -/
theorem run_sugar (k : Str) (x d : Json) (hx : ∀ xs, x ≠ .arr xs) (hk : (lookupOp k).isSome = true) :
    run (.obj [(k, x)]) d = run (.obj [(k, .arr [x])]) d :=
  JL.Lemmas.C03.run_sugar k x d hx hk

/-- **Unary sugar.** `{k: x}` means exactly `{k: [x]}`: for every recognised operator key `k`, every operand `x` that
is not an array and all data, the two spellings have the same outcome (value, or error when one operand is not a
documented count for `k` or the operand does not parse) and the same log lines.

(The key must be recognised: for an unrecognised key both spellings are *literals* and evaluate to themselves,
`unrecognised_sugar` — two different values.) -/
theorem unary_sugar (k : Str) (x d : Json) (hx : ∀ xs, x ≠ .arr xs) (hk : (lookupOp k).isSome = true) :
    apply (.obj [(k, x)]) d = apply (.obj [(k, .arr [x])]) d := by
  unfold apply
  rw [check_sugar k x hx, run_sugar k x d hx hk]

/-- the same, the key being given as one of the 35 documented names -/
theorem unary_sugar_documented (k : Str) (x d : Json) (hx : ∀ xs, x ≠ .arr xs) (hk : k ∈ documentedNames) :
    apply (.obj [(k, x)]) d = apply (.obj [(k, .arr [x])]) d :=
  unary_sugar k x d hx (by rw [lookup_iff]; simpa using hk)

/-- for an unrecognised key there is no sugar: both spellings are literals and come back as written -/
theorem unrecognised_sugar (k : Str) (x d : Json) (hk : lookupOp k = none) :
    apply (.obj [(k, x)]) d = ⟨[], .ok (.obj [(k, x)])⟩ ∧ apply (.obj [(k, .arr [x])]) d = ⟨[], .ok (.obj [(k, .arr [x])])⟩ := by
  have hc : documentedNames.contains k = false := by rw [← lookup_iff, hk]; rfl
  exact ⟨literal_id _ _ (by simpa [isOperation] using hc), literal_id _ _ (by simpa [isOperation] using hc)⟩

/-- **Acceptance.** The parse phase accepts a bracketed operand list exactly when its length is valid for the
descriptor and (eager and data operators) every operand parses; lazy operators keep their operands raw. -/
theorem accept_eq (k : Str) (kind : Kind) (ar : Arity) (xs : List Json) (h : lookupOp k = some (kind, ar)) :
    check (.obj [(k, .arr xs)]) = (ar.isValidLen xs.length && (kind == .lazy || checkList xs)) := by
  unfold check; simp [h]

/-- accepted ⇒ the operand count is valid for the descriptor -/
theorem accept_iff (k : Str) (kind : Kind) (ar : Arity) (xs : List Json) (h : lookupOp k = some (kind, ar))
    (hc : check (.obj [(k, .arr xs)]) = true) : ar.isValidLen xs.length = true := by
  rw [accept_eq k kind ar xs h] at hc
  simp only [Bool.and_eq_true] at hc
  exact hc.1

/-- accepted ⇒ the operand count is one of the documented counts of `k` (for every `n : ℕ`) -/
theorem accept_documented (k : Str) (kind : Kind) (ar : Arity) (xs : List Json) (h : lookupOp k = some (kind, ar))
    (hc : check (.obj [(k, .arr xs)]) = true) : ∃ r, documented k = some r ∧ inRange r xs.length = true := by
  obtain ⟨r, hr, he⟩ := arity_doc k kind ar h xs.length
  exact ⟨r, hr, by rw [← he]; exact accept_iff k kind ar xs h hc⟩

/-- conversely, when every operand parses (always the case for lazy operators, whose operands are kept raw, and for
literal operands), acceptance is *exactly* "the count is documented": surplus operands are never ignored, missing
ones never defaulted -/
theorem accept_iff_documented (k : Str) (kind : Kind) (ar : Arity) (xs : List Json) (h : lookupOp k = some (kind, ar))
    (hops : kind = .lazy ∨ checkList xs = true) :
    ∃ r, documented k = some r ∧ check (.obj [(k, .arr xs)]) = inRange r xs.length := by
  obtain ⟨r, hr, he⟩ := arity_doc k kind ar h xs.length
  refine ⟨r, hr, ?_⟩
  rw [accept_eq k kind ar xs h, he]
  rcases hops with h | h <;> simp [h]

/-- the bare spelling is accepted exactly when one operand is a documented count (and the operand parses) -/
theorem accept_bare_eq (k : Str) (kind : Kind) (ar : Arity) (x : Json) (hx : ∀ xs, x ≠ .arr xs)
    (h : lookupOp k = some (kind, ar)) :
    check (.obj [(k, x)]) = (ar.isValidLen 1 && (kind == .lazy || check x)) := by
  rw [check_sugar k x hx, accept_eq k kind ar [x] h]
  simp [checkList]

/-- **Rejection, in terms of the documentation**: an operand count outside the documented set of `k` is an error
(no panic, no log line, no operand evaluated; surplus operands are not ignored, missing ones not defaulted) — for
every count `n : ℕ`. -/
theorem reject_undocumented (k : Str) (kind : Kind) (ar : Arity) (xs : List Json) (d : Json)
    (h : lookupOp k = some (kind, ar)) (r : Range) (hr : documented k = some r) (hn : inRange r xs.length = false) :
    apply (.obj [(k, .arr xs)]) d = ⟨[], .err⟩ := by
  obtain ⟨r', hr', he⟩ := arity_doc k kind ar h xs.length
  rw [hr] at hr'; cases hr'
  exact reject_count k kind ar xs d h (by rw [he, hn])

/-! non-vacuity: the hypotheses are met by real entries -/
example : lookupOp "-".toList = some (.eager, .variadic 1 3) := by decide
example : (Arity.variadic 1 3).isValidLen 3 = false := by decide
example : documented "var".toList = some (0, some 3) := by decide

/-- `reject_count`, `accept_iff`: real operand lists on both sides of the limit -/
example : apply (.obj [("<".toList, .arr [.num (.pos 1), .num (.pos 2), .num (.pos 3), .num (.pos 4)])]) .null = ⟨[], .err⟩ := by decide +kernel
example : check (.obj [("<".toList, .arr [.num (.pos 1), .num (.pos 2), .num (.pos 3)])]) = true := by decide +kernel
/-- `unary_sugar`: hypotheses are met (`"a"` is not an array, `var`/`!`/`or`/`map` are recognised), both spellings agree -/
example : ∀ xs, Json.str "a".toList ≠ .arr xs := by intro xs h; cases h
example : (lookupOp "var".toList).isSome = true ∧ (lookupOp "or".toList).isSome = true ∧ (lookupOp "map".toList).isSome = true := by decide
example : apply (.obj [("var".toList, .str "a".toList)]) (.obj [("a".toList, .num (.pos 7))]) = ⟨[], .ok (.num (.pos 7))⟩
    ∧ apply (.obj [("var".toList, .arr [.str "a".toList])]) (.obj [("a".toList, .num (.pos 7))]) = ⟨[], .ok (.num (.pos 7))⟩ := by decide +kernel
example : apply (.obj [("log".toList, .str "a".toList)]) .null = ⟨[.str "a".toList], .ok (.str "a".toList)⟩
    ∧ apply (.obj [("log".toList, .arr [.str "a".toList])]) .null = ⟨[.str "a".toList], .ok (.str "a".toList)⟩ := by decide +kernel
example : apply (.obj [("map".toList, .str "a".toList)]) .null = ⟨[], .err⟩
    ∧ apply (.obj [("map".toList, .arr [.str "a".toList])]) .null = ⟨[], .err⟩ := by decide +kernel
/-- `unrecognised_sugar` is not vacuous and the two literals differ -/
example : lookupOp "Var".toList = none := by decide

example : documented "<".toList = some (2, some 4) ∧ inRange (2, some 4) 4 = false ∧ inRange (2, some 4) 64 = false := by decide
end JL.Props.C03
