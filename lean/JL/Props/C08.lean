import JL.Lemmas.Monad
/-!
# C08 — `===` / `!==` compare primitives by type and value; containers are never equal
-/
namespace JL.Props.C08
open JL Json JsOp

/-- characterisation: strictly equal iff same primitive type and same value (numbers by their double) -/
theorem strict_eq_char (a b : Json) :
    strictEq a b = true ↔
      (a = .null ∧ b = .null) ∨ (∃ x, a = .bool x ∧ b = .bool x) ∨
      (∃ x y, a = .num x ∧ b = .num y ∧ F64.eq x.toF64 y.toF64 = true) ∨ (∃ s, a = .str s ∧ b = .str s) := by
  cases a <;> cases b <;> simp [strictEq] <;> exact eq_comm

/-- arrays and objects are never strictly equal to anything, not even to a structurally identical value -/
theorem arr_never (xs : List Json) (b : Json) : strictEq (.arr xs) b = false ∧ strictEq b (.arr xs) = false := by
  cases b <;> simp [strictEq]
theorem obj_never (kvs : List (Str × Json)) (b : Json) : strictEq (.obj kvs) b = false ∧ strictEq b (.obj kvs) = false := by
  cases b <;> simp [strictEq]

theorem strict_ne_not (a b : Json) : strictNe a b = !strictEq a b := rfl

theorem f64_eq_symm (x y : F64) : F64.eq x y = F64.eq y x := by
  cases x <;> cases y <;> simp [F64.eq] <;> grind

theorem strict_symm (a b : Json) : strictEq a b = strictEq b a := by
  cases a <;> cases b <;> simp [strictEq, f64_eq_symm] <;> grind

/-- whenever `===` holds, `==` holds too -/
theorem strict_imp_abstract (a b : Json) (h : strictEq a b = true) : abstractEq a b = true := by
  cases a <;> cases b <;> simp_all [strictEq, abstractEq, eqNoBool, eqPrim]

/-- operator level -/
theorem op_strict_eq (a b : Json) : execEager "===".toList [a, b] = ⟨[], .ok (.bool (strictEq a b))⟩ := by simp [execEager]
theorem op_strict_ne (a b : Json) : execEager "!==".toList [a, b] = ⟨[], .ok (.bool (!strictEq a b))⟩ := by simp [execEager, strictNe]

example : strictEq (.num (.pos 1)) (.num (.flt F64.one)) = true := by decide +kernel
example : strictEq (.num (.pos 0)) (.num (.flt (F64.fin true 0))) = true := by decide +kernel
example : strictEq (.arr []) (.arr []) = false := by decide

end JL.Props.C08
