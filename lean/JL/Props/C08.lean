import JL.Lemmas.Monad
/-!
# C08 — `===` / `!==` compare primitives by type and value; containers are never equal
-/
namespace JL.Props.C08
open JL Json JsOp

/-- characterisation: strictly equal iff same primitive type and same value (numbers by their double) -/
theorem strict_eq_char (a b : Json) :
    strictEq a b = true ↔
      (a = .null ∧ b = .null) ∨ (∃ x, a = .bool x ∧ b = .bool x) ∨
      (∃ x y, a = .num x ∧ b = .num y ∧ F64.eq x.toF64 y.toF64 = true) ∨ (∃ s, a = .str s ∧ b = .str s) := by
  cases a <;> cases b <;> simp [strictEq] <;> exact eq_comm

/-- arrays and objects are never strictly equal to anything, not even to a structurally identical value -/
theorem arr_never (xs : List Json) (b : Json) : strictEq (.arr xs) b = false ∧ strictEq b (.arr xs) = false := by
  cases b <;> simp [strictEq]
theorem obj_never (kvs : List (Str × Json)) (b : Json) : strictEq (.obj kvs) b = false ∧ strictEq b (.obj kvs) = false := by
  cases b <;> simp [strictEq]

theorem strict_ne_not (a b : Json) : strictNe a b = !strictEq a b := rfl

theorem f64_eq_symm (x y : F64) : F64.eq x y = F64.eq y x := by
  cases x <;> cases y <;> simp [F64.eq] <;> grind

theorem strict_symm (a b : Json) : strictEq a b = strictEq b a := by
  cases a <;> cases b <;> simp [strictEq, f64_eq_symm] <;> grind

/-- whenever `===` holds, `==` holds too -/
theorem strict_imp_abstract (a b : Json) (h : strictEq a b = true) : abstractEq a b = true := by
  cases a <;> cases b <;> simp_all [strictEq, abstractEq, eqNoBool, eqPrim]

/-- operator level -/
theorem op_strict_eq (a b : Json) : execEager "===".toList [a, b] = ⟨[], .ok (.bool (strictEq a b))⟩ := by simp [execEager]
theorem op_strict_ne (a b : Json) : execEager "!==".toList [a, b] = ⟨[], .ok (.bool (!strictEq a b))⟩ := by simp [execEager, strictNe]

example : strictEq (.num (.pos 1)) (.num (.flt F64.one)) = true := by decide +kernel
example : strictEq (.num (.pos 0)) (.num (.flt (F64.fin true 0))) = true := by decide +kernel
example : strictEq (.arr []) (.arr []) = false := by decide

/-! ## additions: operator-level symmetry; numbers compare as doubles -/

/-- operator level symmetry: `{"===": [a, b]}` and `{"===": [b, a]}` (operands already evaluated) give the same result -/
theorem op_strict_symm (a b : Json) : execEager "===".toList [a, b] = execEager "===".toList [b, a] := by
  rw [op_strict_eq, op_strict_eq, strict_symm]

theorem op_strict_ne_symm (a b : Json) : execEager "!==".toList [a, b] = execEager "!==".toList [b, a] := by
  rw [op_strict_ne, op_strict_ne, strict_symm]

/-- **On numbers `===` is equality of the doubles** (`f64 ==` of `as_f64()`): whichever of the three representations
(`PosInt`, `NegInt`, `Float`) the two numbers have -/
theorem strict_num_iff (x y : Num) : strictEq (.num x) (.num y) = F64.eq x.toF64 y.toF64 := rfl

/-- a number is never strictly equal to a non-number -/
theorem strict_num_other (x : Num) (b : Json) (h : ∀ y, b ≠ .num y) : strictEq (.num x) b = false := by
  cases b <;> first | rfl | exact absurd rfl (h _)

/-- 1 vs 1.0; 0 vs −0.0; 2^53 vs 2^53+1 (*equal* as doubles: both round to 9007199254740992.0), but 2^53 vs 2^53+2 differ;
u64::MAX vs 2^64 as a float -/
example : strictEq (.num (.pos 1)) (.num (.flt F64.one)) = true := by decide +kernel
example : strictEq (.num (.pos 0)) (.num (.flt (F64.fin true 0))) = true := by decide +kernel
example : strictEq (.num (.flt (F64.fin false 0))) (.num (.flt (F64.fin true 0))) = true := by decide +kernel
example : strictEq (.num (.pos (2^53))) (.num (.pos (2^53 + 1))) = true := by decide +kernel
example : strictEq (.num (.pos (2^53))) (.num (.pos (2^53 + 2))) = false := by decide +kernel
example : strictEq (.num (.pos (2^64 - 1))) (.num (.flt (F64.ofNat (2^64)))) = true := by decide +kernel
example : strictEq (.num (.neg 1)) (.num (.flt (F64.negate F64.one))) = true := by decide +kernel
example : strictEq (.num (.pos 1)) (.str "1".toList) = false ∧ strictEq (.num (.pos 1)) (.bool true) = false := by decide +kernel
example : execEager "===".toList [.num (.pos 1), .num (.flt F64.one)] = ⟨[], .ok (.bool true)⟩ := by decide +kernel

end JL.Props.C08
