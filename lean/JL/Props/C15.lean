import JL.Lemmas.Monad
import JL.Lemmas.C15
/-!
# C15 — `merge` flattens exactly one level; `in` is substring / deep-membership test
-/
namespace JL.Props.C15
open JL Json ArrOp JL.Spec

/-- what one operand contributes to a merge -/
def pieces : Json → List Json
  | .arr xs => xs
  | v => [v]

/-- `merge` splices array operands one level deep and keeps every other value as a single element, in order -/
theorem merge_spec (items : List Json) : merge items = (items.map pieces).flatten := by
  unfold merge
  induction items with
  | nil => rfl
  | cons x xs ih =>
    simp only [List.flatMap_cons, List.map_cons, List.flatten_cons]
    rw [show (List.flatMap _ xs) = (xs.map pieces).flatten from ih]
    cases x <;> rfl

/-- result length = sum of the array lengths + number of non-array operands -/
theorem merge_length (items : List Json) : (merge items).length = (items.map (fun i => (pieces i).length)).sum := by
  rw [merge_spec]
  induction items with
  | nil => rfl
  | cons x xs ih => simp [ih]

/-- exactly one level: the elements of an array operand are kept as they are, even when they are arrays -/
theorem merge_one_level (xs : List Json) : merge [.arr xs] = xs := by simp [merge]
theorem merge_append (as bs : List Json) : merge (as ++ bs) = merge as ++ merge bs := by simp [merge]

theorem op_merge (items : List Json) : execEager "merge".toList items = ⟨[], .ok (.arr (merge items))⟩ := by simp [execEager]

/-- `in` with a null haystack is false; with a string haystack both must be strings; otherwise an error -/
theorem in_null (n : Json) : in_ n .null = some false := rfl
theorem in_str (n h : Str) : in_ (.str n) (.str h) = some (isInfix n h) := rfl
theorem in_str_nonstr (n : Json) (h : Str) (hn : ∀ s, n ≠ .str s) : in_ n (.str h) = none := by
  cases n <;> simp_all [in_]
theorem in_arr (n : Json) (hay : List Json) : in_ n (.arr hay) = some (hay.any (fun p => deepEq p n)) := rfl
theorem in_other (n h : Json) (h1 : h ≠ .null) (h2 : ∀ xs, h ≠ .arr xs) (h3 : ∀ s, h ≠ .str s) : in_ n h = none := by
  cases h <;> simp_all [in_]

example : merge [.arr [.arr [.arr [.null]]]] = [.arr [.arr [.null]]] := by rfl

/-- order is preserved: the `i`-th operand's pieces come before the `j`-th operand's for `i < j` (concatenation in order) -/
theorem merge_cons (x : Json) (rest : List Json) : merge (x :: rest) = pieces x ++ merge rest := by
  rw [merge_spec, merge_spec]; rfl

theorem op_in (a b : Json) (rest : List Json) :
    execEager "in".toList (a :: b :: rest) = (match in_ a b with | some r => pure (.bool r) | none => M.err) := by
  simp [execEager]
  rfl

/-! ## `in` on strings: substring containment, in characters -/

/-- `isInfix` is containment as a contiguous run of characters -/
theorem isInfix_spec (n h : Str) : isInfix n h = true ↔ ∃ pre suf, h = pre ++ n ++ suf :=
  JL.Lemmas.C15.isInfix_iff n h

theorem in_str_spec (n h : Str) : in_ (.str n) (.str h) = some true ↔ ∃ pre suf, h = pre ++ n ++ suf := by
  rw [in_str, Option.some.injEq, isInfix_spec]

/-- the empty needle is in every string -/
theorem in_str_empty (h : Str) : in_ (.str []) (.str h) = some true :=
  (in_str_spec [] h).mpr ⟨[], h, rfl⟩

example : in_ (.str "é€".toList) (.str "aé€𝄞".toList) = some true := by decide +kernel
example : in_ (.str "€é".toList) (.str "aé€𝄞".toList) = some false := by decide +kernel

/-! ## `in` on arrays: membership up to `Spec.SpecEq` (deep equality, numbers by value, key order irrelevant) -/

/-- `number_eq` is equality of the denoted numbers, whatever the variant (`PosInt`, `NegInt`, `Float`) and spelling.
`Num.WF`: a `u64`, a negative `i64`, or a finite double — what `serde_json` can hold. -/
theorem number_eq_spec (a b : Num) (wa : a.WF) (wb : b.WF) : numberEq a b = true ↔ numValue a = numValue b :=
  JL.Lemmas.C15.number_eq_spec a b wa wb

/-- `deep_eq` decides the specification on well-formed values (`Json.wf`: numbers as above, object keys strictly sorted —
what a `BTreeMap` delivers) -/
theorem deep_eq_spec (a b : Json) (wa : a.wf = true) (wb : b.wf = true) : deepEq a b = true ↔ specEq a b :=
  JL.Lemmas.C15.deep_eq_spec a b wa wb

/-- the specification, case by case -/
theorem specEq_num (a b : Num) : specEq (.num a) (.num b) ↔ numValue a = numValue b := JL.Lemmas.C15.specEq_num_iff a b
theorem specEq_arr (xs ys : List Json) : specEq (.arr xs) (.arr ys) ↔
    xs.length = ys.length ∧ ∀ (i : Nat) (h₁ : i < xs.length) (h₂ : i < ys.length), specEq xs[i] ys[i] :=
  JL.Lemmas.C15.specEq_arr_iff xs ys
theorem specEq_obj (x y : List (Str × Json)) : specEq (.obj x) (.obj y) ↔
    (∀ k, (∃ a, (k, a) ∈ x) ↔ (∃ b, (k, b) ∈ y)) ∧ (∀ k a b, (k, a) ∈ x → (k, b) ∈ y → specEq a b) :=
  JL.Lemmas.C15.specEq_obj_iff x y
/-- on well-formed objects: position by position on the sorted association lists -/
theorem specEq_obj_sorted (x y : List (Str × Json)) (wx : (Json.obj x).wf = true) (wy : (Json.obj y).wf = true) :
    specEq (.obj x) (.obj y) ↔ JL.Lemmas.C15.Pointwise SpecEq x y := JL.Lemmas.C15.specEq_obj_sorted x y wx wy
theorem specEq_str (s t : Str) : specEq (.str s) (.str t) ↔ s = t := JL.Lemmas.C15.specEq_str_iff s t
theorem specEq_bool (s t : Bool) : specEq (.bool s) (.bool t) ↔ s = t := JL.Lemmas.C15.specEq_bool_iff s t
/-- values of different JSON types are never equal (`1` is not `"1"`, `0` is not `false`, `[]` is not `""`) -/
theorem specEq_same_type {a b : Json} (h : specEq a b) : JL.Lemmas.C15.kind a = JL.Lemmas.C15.kind b :=
  JL.Lemmas.C15.specEq_kind h

/-- the specification is an equivalence relation on well-formed values -/
theorem specEq_refl (a : Json) (wa : a.wf = true) : specEq a a := JL.Lemmas.C15.specEq_refl a wa
theorem specEq_symm {a b : Json} (h : specEq a b) : specEq b a := JL.Lemmas.C15.specEq_symm h
theorem specEq_trans {a b c : Json} (h1 : specEq a b) (h2 : specEq b c) : specEq a c := JL.Lemmas.C15.specEq_trans h1 h2

/-- `deep_eq` is reflexive on well-formed values … -/
theorem deepEq_refl (a : Json) (wa : a.wf = true) : deepEq a a = true :=
  (deep_eq_spec a a wa wa).mpr (specEq_refl a wa)

/-- … symmetric … -/
theorem deepEq_symm (a b : Json) (wa : a.wf = true) (wb : b.wf = true) : deepEq a b = deepEq b a := by
  have h : deepEq a b = true ↔ deepEq b a = true := by
    rw [deep_eq_spec a b wa wb, deep_eq_spec b a wb wa]
    exact ⟨specEq_symm, specEq_symm⟩
  cases h1 : deepEq a b <;> cases h2 : deepEq b a <;> simp_all

/-- … and transitive -/
theorem deepEq_trans (a b c : Json) (wa : a.wf = true) (wb : b.wf = true) (wc : c.wf = true)
    (h1 : deepEq a b = true) (h2 : deepEq b c = true) : deepEq a c = true :=
  (deep_eq_spec a c wa wc).mpr (specEq_trans ((deep_eq_spec a b wa wb).mp h1) ((deep_eq_spec b c wb wc).mp h2))

/-- deep membership: the needle is in the array iff some element equals it in the sense of the specification -/
theorem in_arr_spec (n : Json) (hay : List Json) (wn : n.wf = true) (wh : (Json.arr hay).wf = true) :
    in_ n (.arr hay) = some true ↔ ∃ p ∈ hay, specEq p n := by
  have wl : wfList hay = true := wh
  rw [in_arr, Option.some.injEq, List.any_eq_true]
  constructor
  · rintro ⟨p, hp, h⟩
    exact ⟨p, hp, (deep_eq_spec p n (JL.Lemmas.C15.wf_of_mem hay wl p hp) wn).mp h⟩
  · rintro ⟨p, hp, h⟩
    exact ⟨p, hp, (deep_eq_spec p n (JL.Lemmas.C15.wf_of_mem hay wl p hp) wn).mpr h⟩

theorem in_arr_spec_false (n : Json) (hay : List Json) (wn : n.wf = true) (wh : (Json.arr hay).wf = true) :
    in_ n (.arr hay) = some false ↔ ¬ ∃ p ∈ hay, specEq p n := by
  rw [← in_arr_spec n hay wn wh, in_arr]
  cases hay.any (fun p => deepEq p n) <;> simp

/-- a well-formed element is found in its own array -/
theorem in_arr_self (n : Json) (hay : List Json) (wh : (Json.arr hay).wf = true) (hn : n ∈ hay) :
    in_ n (.arr hay) = some true := by
  have wn := JL.Lemmas.C15.wf_of_mem hay wh n hn
  exact (in_arr_spec n hay wn wh).mpr ⟨n, hn, specEq_refl n wn⟩

/-! ## non-vacuity: number spellings, key order, nesting -/

/-- `1` (PosInt) and `1.0` (Float) -/
example : numberEq (.pos 1) (.flt (.fin false F64.S)) = true := by decide +kernel
example : numValue (.pos 1) = numValue (.flt (.fin false F64.S)) := by decide +kernel
example : (Num.pos 1).WF ∧ (Num.flt (.fin false F64.S)).WF := by decide +kernel
/-- `0` and `-0.0` -/
example : numberEq (.pos 0) (.flt (.fin true 0)) = true := by decide +kernel
example : (Num.flt (.fin true 0)).WF := by decide +kernel
/-- `2^53` and `2^53 + 1` are distinct numbers although they are the same double -/
example : numberEq (.pos (2^53)) (.pos (2^53 + 1)) = false := by decide +kernel
example : F64.eq (Num.pos (2^53)).toF64 (Num.pos (2^53 + 1)).toF64 = true := by decide +kernel
/-- `-9223372036854775808` (NegInt) and `-9223372036854775808.0` -/
example : numberEq (.neg (2^63)) (.flt (.fin true (2^63 * F64.S))) = true := by decide +kernel
/-- `1.5` is no integer; `1e30` (float) equals itself and nothing a `u64` can hold -/
example : numberEq (.flt (.fin false (F64.S + F64.S / 2))) (.pos 1) = false := by decide +kernel
example : numberEq (.flt ArrOp.F1e30) (.flt ArrOp.F1e30) = true := by decide +kernel
example : numberEq (.flt ArrOp.F1e30) (.pos (2^64 - 1)) = false := by decide +kernel
example : (Num.flt ArrOp.F1e30).WF := by decide +kernel
/-- `2.0 in [1,2,3]`, `{"a":[1.0]} in [{"a":[1]}]`, `"1" in [1]` is false -/
example : in_ (.num (.flt (.fin false (2 * F64.S)))) (.arr [.num (.pos 1), .num (.pos 2), .num (.pos 3)]) = some true := by
  simp only [in_, List.any, deepEq]
  decide +kernel
example : in_ (.obj [("a".toList, .arr [.num (.flt (.fin false F64.S))])]) (.arr [.obj [("a".toList, .arr [.num (.pos 1)])]])
    = some true := by
  simp only [in_, List.any, deepEq, deepEqKvs, lookupEq, deepEqList, if_true]
  decide +kernel
/-- key order: `{"b":1,"a":2}` and `{"a":2,"b":1}` are the same `BTreeMap`, hence the same model value; the specification
itself does not look at the order (an unsorted association list is `specEq` to its sorted form) -/
example : specEq (.obj [("b".toList, .num (.pos 1)), ("a".toList, .num (.flt (.fin false (2 * F64.S))))])
    (.obj [("a".toList, .num (.pos 2)), ("b".toList, .num (.flt (.fin false F64.S)))]) := by
  refine .obj (fun k => ?_) (fun k a b ha hb => ?_)
  · simp only [List.mem_cons, Prod.mk.injEq, List.not_mem_nil, or_false]
    constructor
    · rintro ⟨a, ⟨rfl, rfl⟩ | ⟨rfl, rfl⟩⟩
      · exact ⟨_, Or.inr ⟨rfl, rfl⟩⟩
      · exact ⟨_, Or.inl ⟨rfl, rfl⟩⟩
    · rintro ⟨a, ⟨rfl, rfl⟩ | ⟨rfl, rfl⟩⟩
      · exact ⟨_, Or.inr ⟨rfl, rfl⟩⟩
      · exact ⟨_, Or.inl ⟨rfl, rfl⟩⟩
  · simp only [List.mem_cons, Prod.mk.injEq, List.not_mem_nil, or_false] at ha hb
    rcases ha with ⟨rfl, rfl⟩ | ⟨rfl, rfl⟩ <;> rcases hb with ⟨h, rfl⟩ | ⟨h, rfl⟩
    · exact absurd h (by decide)
    · exact .num (by decide +kernel)
    · exact .num (by decide +kernel)
    · exact absurd h (by decide)
example : in_ (.str "1".toList) (.arr [.num (.pos 1)]) = some false := by
  simp only [in_, List.any, deepEq, Bool.or_false]
example : (Json.arr [.obj [("a".toList, .arr [.num (.flt (.fin false F64.S))]), ("b".toList, .null)]]).wf = true := by
  decide +kernel
example : in_ (.num (.pos 1)) (.obj []) = none := by decide +kernel

end JL.Props.C15
