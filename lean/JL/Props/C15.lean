import JL.Lemmas.Monad
/-!
# C15 — `merge` flattens exactly one level; `in` is substring / deep-membership test
-/
namespace JL.Props.C15
open JL Json ArrOp

/-- what one operand contributes to a merge -/
def pieces : Json → List Json
  | .arr xs => xs
  | v => [v]

/-- `merge` splices array operands one level deep and keeps every other value as a single element, in order -/
theorem merge_spec (items : List Json) : merge items = (items.map pieces).flatten := by
  unfold merge
  induction items with
  | nil => rfl
  | cons x xs ih =>
    simp only [List.flatMap_cons, List.map_cons, List.flatten_cons]
    rw [show (List.flatMap _ xs) = (xs.map pieces).flatten from ih]
    cases x <;> rfl

/-- result length = sum of the array lengths + number of non-array operands -/
theorem merge_length (items : List Json) : (merge items).length = (items.map (fun i => (pieces i).length)).sum := by
  rw [merge_spec]
  induction items with
  | nil => rfl
  | cons x xs ih => simp [ih]

/-- exactly one level: the elements of an array operand are kept as they are, even when they are arrays -/
theorem merge_one_level (xs : List Json) : merge [.arr xs] = xs := by simp [merge]
theorem merge_append (as bs : List Json) : merge (as ++ bs) = merge as ++ merge bs := by simp [merge]

theorem op_merge (items : List Json) : execEager "merge".toList items = ⟨[], .ok (.arr (merge items))⟩ := by simp [execEager]

/-- `in` with a null haystack is false; with a string haystack both must be strings; otherwise an error -/
theorem in_null (n : Json) : in_ n .null = some false := rfl
theorem in_str (n h : Str) : in_ (.str n) (.str h) = some (isInfix n h) := rfl
theorem in_str_nonstr (n : Json) (h : Str) (hn : ∀ s, n ≠ .str s) : in_ n (.str h) = none := by
  cases n <;> simp_all [in_]
theorem in_arr (n : Json) (hay : List Json) : in_ n (.arr hay) = some (hay.any (fun p => deepEq p n)) := rfl
theorem in_other (n h : Json) (h1 : h ≠ .null) (h2 : ∀ xs, h ≠ .arr xs) (h3 : ∀ s, h ≠ .str s) : in_ n h = none := by
  cases h <;> simp_all [in_]

example : merge [.arr [.arr [.arr [.null]]]] = [.arr [.arr [.null]]] := by rfl

end JL.Props.C15
