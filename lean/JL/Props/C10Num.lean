import JL.Lemmas.StrNum
/-!
# C10 — the parseFloat-style conversion used by `+` and `*` is ECMA-262 `parseFloat`

`JL.Spec.ES.parseFloat` (JL/Spec/ESNum.lean) is written from ECMA-262 19.2.4 and the StrDecimalLiteral
grammar; `JsOp.parseFloatString` / `JsOp.parseFloat` model `js_op::parse_float_string` / `parse_float`.
-/
namespace JL.Props.C10
open JL Json JL.Spec

/-- `parse_float_string` is `parseFloat` of ECMA-262 on every string: leading StrWhiteSpace skipped,
optional sign, `Infinity` prefix or the longest StrDecimalLiteral prefix, correctly rounded; NaN (`none`)
when there is no such prefix. No bound on the length of the string. -/
theorem parse_float_string_es (s : Str) : JsOp.parseFloatString s = ES.parseFloat s :=
  JL.Lemmas.StrNum.parseFloatString_eq s

/-- `parse_float` on JSON values: a number is its own double, a string goes through `parseFloat`,
every other value through `parseFloat` of its string form (`js_op::to_string`). -/
theorem parse_float_es (v : Json) :
    JsOp.parseFloat v =
      match v with
      | .num n => some n.toF64
      | .str s => ES.parseFloat s
      | v => ES.parseFloat (JsOp.toString v) := by
  cases v <;> simp only [JsOp.parseFloat, parse_float_string_es]

/-- numeric prefixes: "12px" is 12, "1-2" is 1, "1e" is 1, ".5" is 0.5, "5." is 5; "." and "px" are not numeric -/
example : JsOp.parseFloatString "12px".toList = some (F64.ofNat 12) := by decide +kernel
example : ES.parseFloat "12px".toList = some (F64.ofNat 12) := by decide +kernel
example : ES.parseFloat "1-2".toList = some (F64.ofNat 1) := by decide +kernel
example : JsOp.parseFloatString "1-2".toList = some (F64.ofNat 1) := by decide +kernel
example : ES.parseFloat "1e".toList = some (F64.ofNat 1) := by decide +kernel
example : ES.parseFloat "5e-".toList = some (F64.ofNat 5) := by decide +kernel
example : ES.parseFloat ".5".toList = some (F64.ofDecimal false 5 (-1)) := by decide +kernel
example : ES.parseFloat "5.".toList = some (F64.ofNat 5) := by decide +kernel
example : ES.parseFloat ".".toList = none := by decide +kernel
example : ES.parseFloat "px".toList = none := by decide +kernel
example : ES.parseFloat "  -Infinityx".toList = some (F64.inf true) := by decide +kernel
example : ES.parseFloat "inf".toList = none := by decide +kernel
/-- `[3]` is 3 (through its string form "3"), `null` / `true` / `{}` are not numeric for `+` and `*` -/
example : JsOp.parseFloat (.arr [.num (.pos 3)]) = some (F64.ofNat 3) := by decide +kernel
example : JsOp.parseFloat .null = none := by decide +kernel
example : JsOp.parseFloat (.bool true) = none := by decide +kernel

end JL.Props.C10
