import JL.Props.C08
/-!
# C07 — `==` / `!=` implement ECMAScript abstract equality on JSON values
-/
namespace JL.Props.C07
open JL Json JsOp JL.Props.C08

theorem eqPrim_symm (a b : Json) : eqPrim a b = eqPrim b a := by
  cases a <;> cases b <;> simp [eqPrim, f64_eq_symm] <;> (try (split <;> simp_all [f64_eq_symm])) <;> grind

theorem eqNoBool_symm (a b : Json) : eqNoBool a b = eqNoBool b a := by
  cases a <;> cases b <;> simp [eqNoBool, eqPrim_symm]

/-- the relation is symmetric, for all 36 type pairs -/
theorem eq_symm (a b : Json) : abstractEq a b = abstractEq b a := by
  cases a <;> cases b <;> simp [abstractEq, eqNoBool_symm] <;> grind

/-- `!=` is its exact negation -/
theorem ne_not_eq (a b : Json) : abstractNe a b = !abstractEq a b := rfl

/-- null equals only null -/
theorem null_eq (b : Json) : abstractEq .null b = true ↔ b = .null := by
  cases b <;> simp [abstractEq, eqNoBool, eqPrim, boolNum]

/-- arrays and objects never equal one another -/
theorem containers_never (a b : Json) (ha : (∃ xs, a = .arr xs) ∨ (∃ kvs, a = .obj kvs)) (hb : (∃ xs, b = .arr xs) ∨ (∃ kvs, b = .obj kvs)) :
    abstractEq a b = false := by
  rcases ha with ⟨xs, rfl⟩ | ⟨kvs, rfl⟩ <;> rcases hb with ⟨ys, rfl⟩ | ⟨kvs', rfl⟩ <;> simp [abstractEq, eqNoBool, eqPrim]

/-- booleans are compared with everything else as the numbers 1 and 0 -/
theorem bool_as_number (x : Bool) (b : Json) (hb : ∀ y, b ≠ .bool y) : abstractEq (.bool x) b = abstractEq (boolNum x) b := by
  cases b <;> simp_all [abstractEq, boolNum]

/-- containers meet primitives through their string form -/
theorem arr_vs_prim (xs : List Json) (b : Json) (hb : (∃ s, b = .str s) ∨ (∃ n, b = .num n)) :
    abstractEq (.arr xs) b = abstractEq (.str (JsOp.toString (.arr xs))) b := by
  rcases hb with ⟨s, rfl⟩ | ⟨n, rfl⟩ <;> simp [abstractEq, eqNoBool]

theorem op_eq (a b : Json) : execEager "==".toList [a, b] = ⟨[], .ok (.bool (abstractEq a b))⟩ := by simp [execEager]
theorem op_ne (a b : Json) : execEager "!=".toList [a, b] = ⟨[], .ok (.bool (!abstractEq a b))⟩ := by simp [execEager, abstractNe]

end JL.Props.C07
