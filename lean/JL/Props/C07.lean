import JL.Props.C08
import JL.Lemmas.C07
/-!
# C07 — `==` / `!=` implement ECMAScript abstract equality on JSON values

`abstract_eq_es` is the main statement: the model of `js_op::abstract_eq` equals IsLooselyEqual
(ECMA-262 7.2.14) as formalised in `JL/Spec/ES.lean`, for all 36 pairs of JSON constructors, with
`JsOp.strToNumber` as StringToNumber (its agreement with the StringNumericLiteral grammar is a
separate theorem). No well-formedness hypothesis is needed.
-/
namespace JL.Props.C07
open JL Json JsOp JL.Props.C08 JL.Lemmas.C07
open JL.Spec (ES.looselyEqual ES.ofJson ES.strictlyEqual ES.toNumber ES.toStr)
open JL.Spec.ES (looseFuel Val strictlyEqual ofJson optNumber)

/-! ## model = ECMA-262 -/

/-- `==` returns what ECMAScript IsLooselyEqual returns, for all pairs of JSON values -/
theorem abstract_eq_es (a b : Json) : abstractEq a b = ES.looselyEqual strToNumber a b := by
  cases a <;> cases b <;>
    simp [abstractEq, eqNoBool, eqPrim, ES.looselyEqual, Val.looselyEqual, looseFuel, ofJson, Val.type,
      Val.toPrimitive, strictlyEqual, numberEqual_eq, boolNum, toNumber_boolean, toNumber_string,
      Num.toF64, eq_optNumber_left, eq_optNumber_right] <;>
    first | rfl | (split <;> simp_all) | grind

/-- `!=` returns the negation of IsLooselyEqual (13.11.1: `r` is IsLooselyEqual; "if r is true, return false") -/
theorem abstract_ne_es (a b : Json) : abstractNe a b = !ES.looselyEqual strToNumber a b := by
  rw [← abstract_eq_es]; rfl

/-- the same with any function proved equal to `strToNumber` (the grammar-level StringToNumber) plugged in -/
theorem abstract_eq_es_of (s2n : Str → Option F64) (h : ∀ s, strToNumber s = s2n s) (a b : Json) :
    abstractEq a b = ES.looselyEqual s2n a b := by
  have e : strToNumber = s2n := funext h
  subst e; exact abstract_eq_es a b

/-- the depth budget in the spec's recursion does not cut anything off -/
theorem es_budget_irrelevant (s2n) (n : Nat) (h : 4 ≤ n) (a b : Json) :
    looseFuel s2n n (ofJson a) (ofJson b) = ES.looselyEqual s2n a b := looseFuel_mono s2n n h _ _

/-- the spec relation itself is symmetric (for any StringToNumber) -/
theorem es_eq_symm (s2n) (a b : Json) : ES.looselyEqual s2n a b = ES.looselyEqual s2n b a :=
  looselyEqual_symm s2n a b

/-- the string form used for arrays and objects is ECMAScript ToString (Array.prototype.join with
`null` ↦ `""`, `[object Object]`), numbers printed as their JSON text -/
theorem toString_es (v : Json) : JsOp.toString v = ES.toStr v := JL.Lemmas.C07.toString_es v

/-- `js_op::to_number` is ECMAScript ToNumber (`none` = NaN) -/
theorem to_number_es (v : Json) : JsOp.toNumber v = ES.toNumber strToNumber v := by
  cases v with
  | bool b => cases b <;> rfl
  | _ => rfl

/-- `===` on two distinct instances is IsStrictlyEqual (7.2.15) -/
theorem strict_eq_es (a b : Json) : strictEq a b = strictlyEqual (ofJson a) (ofJson b) := by
  cases a <;> cases b <;> simp [strictEq, strictlyEqual, ofJson, Val.type, numberEqual_eq] <;> grind

/-! ## the sentences of the property, one by one -/

theorem eqPrim_symm (a b : Json) : eqPrim a b = eqPrim b a := by
  cases a <;> cases b <;> simp [eqPrim, f64_eq_symm] <;> (try (split <;> simp_all [f64_eq_symm])) <;> grind

theorem eqNoBool_symm (a b : Json) : eqNoBool a b = eqNoBool b a := by
  cases a <;> cases b <;> simp [eqNoBool, eqPrim_symm]

/-- the relation is symmetric, for all 36 type pairs -/
theorem eq_symm (a b : Json) : abstractEq a b = abstractEq b a := by
  cases a <;> cases b <;> simp [abstractEq, eqNoBool_symm] <;> grind

/-- `!=` is its exact negation -/
theorem ne_not_eq (a b : Json) : abstractNe a b = !abstractEq a b := rfl

/-- null equals only null -/
theorem null_eq (b : Json) : abstractEq .null b = true ↔ b = .null := by
  cases b <;> simp [abstractEq, eqNoBool, eqPrim, boolNum]

/-- arrays and objects never equal one another -/
theorem containers_never (a b : Json) (ha : (∃ xs, a = .arr xs) ∨ (∃ kvs, a = .obj kvs)) (hb : (∃ xs, b = .arr xs) ∨ (∃ kvs, b = .obj kvs)) :
    abstractEq a b = false := by
  rcases ha with ⟨xs, rfl⟩ | ⟨kvs, rfl⟩ <;> rcases hb with ⟨ys, rfl⟩ | ⟨kvs', rfl⟩ <;> simp [abstractEq, eqNoBool, eqPrim]

/-- booleans are compared with everything else as the numbers 1 and 0 -/
theorem bool_as_number (x : Bool) (b : Json) (hb : ∀ y, b ≠ .bool y) : abstractEq (.bool x) b = abstractEq (boolNum x) b := by
  cases b <;> simp_all [abstractEq, boolNum]

/-- containers meet primitives through their string form -/
theorem arr_vs_prim (xs : List Json) (b : Json) (hb : (∃ s, b = .str s) ∨ (∃ n, b = .num n)) :
    abstractEq (.arr xs) b = abstractEq (.str (JsOp.toString (.arr xs))) b := by
  rcases hb with ⟨s, rfl⟩ | ⟨n, rfl⟩ <;> simp [abstractEq, eqNoBool]

/-- objects too -/
theorem obj_vs_prim (kvs : List (Str × Json)) (b : Json) (hb : (∃ s, b = .str s) ∨ (∃ n, b = .num n)) :
    abstractEq (.obj kvs) b = abstractEq (.str "[object Object]".toList) b := by
  rcases hb with ⟨s, rfl⟩ | ⟨n, rfl⟩ <;> simp [abstractEq, eqNoBool] <;> rfl

/-- numbers are compared as IEEE doubles (so `1 == 1.0`, `0 == -0`) -/
theorem num_vs_num (m n : Num) : abstractEq (.num m) (.num n) = F64.eq m.toF64 n.toF64 := rfl

/-- strings are compared with numbers numerically using StringToNumber; a non-numeric string is NaN, equal to nothing -/
theorem num_vs_str (n : Num) (s : Str) :
    abstractEq (.num n) (.str s) = (match strToNumber s with | some y => F64.eq n.toF64 y | none => false) := rfl

/-- booleans are compared with numbers numerically -/
theorem bool_vs_num (x : Bool) (n : Num) :
    abstractEq (.bool x) (.num n) = F64.eq (if x then F64.one else F64.zero) n.toF64 := rfl

/-- strings are compared with strings by content -/
theorem str_vs_str (s t : Str) : abstractEq (.str s) (.str t) = true ↔ s = t := by
  simp [abstractEq, eqNoBool, eqPrim]

/-- `==` is weaker than `===` and differs from it only on pairs of different type -/
theorem eq_same_type (a b : Json) (h : (ofJson a).type = (ofJson b).type) : abstractEq a b = strictEq a b := by
  cases a <;> cases b <;> simp_all [ofJson, Val.type, abstractEq, eqNoBool, eqPrim, strictEq]

/-! ## operator level -/

theorem op_eq (a b : Json) : execEager "==".toList [a, b] = ⟨[], .ok (.bool (abstractEq a b))⟩ := by simp [execEager]
theorem op_ne (a b : Json) : execEager "!=".toList [a, b] = ⟨[], .ok (.bool (!abstractEq a b))⟩ := by simp [execEager, abstractNe]

/-- extra operands are ignored (the operator table allows exactly two, C02) -/
theorem op_eq_more (a b : Json) (rest : List Json) :
    execEager "==".toList (a :: b :: rest) = ⟨[], .ok (.bool (abstractEq a b))⟩ := by simp [execEager]
theorem op_ne_more (a b : Json) (rest : List Json) :
    execEager "!=".toList (a :: b :: rest) = ⟨[], .ok (.bool (!abstractEq a b))⟩ := by simp [execEager, abstractNe]

/-- `{"==":[a,b]}` on evaluated operands is ECMAScript `a == b` -/
theorem op_eq_es (a b : Json) :
    execEager "==".toList [a, b] = ⟨[], .ok (.bool (ES.looselyEqual strToNumber a b))⟩ := by
  rw [op_eq, abstract_eq_es]
/-- `{"!=":[a,b]}` on evaluated operands is ECMAScript `a != b` -/
theorem op_ne_es (a b : Json) :
    execEager "!=".toList [a, b] = ⟨[], .ok (.bool (!ES.looselyEqual strToNumber a b))⟩ := by
  rw [op_ne, abstract_eq_es]
/-- the operator is symmetric -/
theorem op_eq_symm (a b : Json) : execEager "==".toList [a, b] = execEager "==".toList [b, a] := by
  rw [op_eq, op_eq, eq_symm]
/-- `!=` is the negation of `==` at operator level -/
theorem op_ne_not_eq (a b : Json) (r : Bool) (h : execEager "==".toList [a, b] = ⟨[], .ok (.bool r)⟩) :
    execEager "!=".toList [a, b] = ⟨[], .ok (.bool (!r))⟩ := by
  rw [op_eq] at h
  have : abstractEq a b = r := by simpa using h
  rw [op_ne, this]

/-! ## corner cases (both the model and the spec, evaluated in the kernel) -/
section examples
private def s (x : String) : Json := .str x.toList
private def n (k : Nat) : Json := .num (.pos k)

-- surrounding whitespace ignored
example : abstractEq (s " 1 ") (n 1) = true := by decide +kernel
example : ES.looselyEqual strToNumber (s " 1 ") (n 1) = true := by decide +kernel
example : abstractEq (s "\t\n1\u00a0\ufeff") (n 1) = true := by decide +kernel
-- hex / octal / binary prefixes honoured
example : abstractEq (s "0x10") (n 16) = true := by decide +kernel
example : ES.looselyEqual strToNumber (s "0x10") (n 16) = true := by decide +kernel
example : abstractEq (s "0o17") (n 15) = true ∧ abstractEq (s "0b101") (n 5) = true := by decide +kernel
-- "" is 0, and so are [] and null-only arrays through their string form; null is not
example : abstractEq (s "") (n 0) = true := by decide +kernel
example : abstractEq (.arr []) (n 0) = true ∧ abstractEq (.arr [.null]) (n 0) = true := by decide +kernel
example : abstractEq .null (n 0) = false ∧ abstractEq .null (.bool false) = false ∧ abstractEq .null (s "") = false := by decide +kernel
-- only `Infinity` spelled that way; anything else non-numeric
example : abstractEq (s "inf") (s "inf") = true := by decide +kernel
example : strToNumber "inf".toList = none ∧ strToNumber "infinity".toList = none ∧ strToNumber "nan".toList = none ∧
    strToNumber "Infinity".toList = some (.inf false) ∧ strToNumber "-Infinity".toList = some (.inf true) := by decide +kernel
example : abstractEq (s "1_0") (n 10) = false ∧ abstractEq (s "1e") (n 1) = false ∧ abstractEq (s "0x") (n 0) = false := by decide +kernel
-- booleans numerically; 1 == 1.0; 0 == -0
example : abstractEq (.bool true) (n 1) = true ∧ abstractEq (.bool true) (s "1") = true ∧ abstractEq (.bool false) (s "") = true ∧
    abstractEq (.bool true) (s "true") = false := by decide +kernel
example : abstractEq (n 1) (.num (.flt F64.one)) = true ∧ abstractEq (n 0) (.num (.flt (.fin true 0))) = true := by decide +kernel
-- arrays / objects through their string form; never equal one another
example : abstractEq (.arr [n 1]) (n 1) = true ∧ abstractEq (.arr [n 1, n 2]) (s "1,2") = true ∧
    abstractEq (.obj []) (s "[object Object]") = true ∧ abstractEq (.arr [.arr [n 7]]) (.bool false) = false := by decide +kernel
example : abstractEq (.arr []) (.arr []) = false ∧ abstractEq (.obj []) (.obj []) = false ∧ abstractEq (.arr [n 1]) (.arr [n 1]) = false := by decide +kernel
example : ES.looselyEqual strToNumber (.arr [n 1]) (.arr [n 1]) = false ∧ ES.looselyEqual strToNumber (.arr [.null]) (.bool false) = true := by decide +kernel
-- the longest chain of the standard (Boolean vs Object) needs exactly the budget 4
example : looseFuel strToNumber 4 (ofJson (.bool true)) (ofJson (.arr [n 1])) = true ∧
    looseFuel strToNumber 3 (ofJson (.bool true)) (ofJson (.arr [n 1])) = false := by decide +kernel
-- ToString of a nested array
example : ES.toStr (.arr [n 1, .null, .arr [n 2, .arr []], s "x", .obj []]) = "1,,2,,x,[object Object]".toList := by decide +kernel
end examples

end JL.Props.C07
