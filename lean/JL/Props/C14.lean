import JL.Lemmas.Monad
/-!
# C14 — `all` / `some` / `none` are bounded quantifiers with short-circuit; `none` = not `some`
-/
namespace JL.Props.C14
open JL Json

/-- empty and null collections make `all` and `some` false, before the predicate is even parsed -/
theorem empty_false (isAll predOk : Bool) (p : Json → M Json) :
    quantValue isAll (.arr []) predOk p = ⟨[], .ok (.bool false)⟩ ∧ quantValue isAll .null predOk p = ⟨[], .ok (.bool false)⟩ ∧
    quantValue isAll (.str []) predOk p = ⟨[], .ok (.bool false)⟩ := by
  simp [quantValue, quantItems]

/-- anything that is not an array, a string or null is an error -/
theorem other_error (isAll predOk : Bool) (p : Json → M Json) (c : Json)
    (h1 : ∀ xs, c ≠ .arr xs) (h2 : ∀ s, c ≠ .str s) (h3 : c ≠ .null) : quantValue isAll c predOk p = ⟨[], .err⟩ := by
  cases c <;> simp_all [quantValue, quantItems]

/-- short-circuit: once the state is decided (differs from the initial one) no further element is evaluated -/
theorem short_circuit (isAll : Bool) (p : Json → M Json) (xs : List Json) :
    quantData isAll p xs (!isAll) = ⟨[], .ok (!isAll)⟩ := by
  induction xs with
  | nil => rfl
  | cons x xs ih => cases isAll <;> simp_all [quantData]

/-- a string is taken character by character -/
theorem string_chars (s : Str) : quantItems (.str s) = some (s.map (fun c => .str [c])) := rfl

example : apply (.obj [("all".toList, .arr [.obj [("var".toList, .str "l".toList)], .obj [("var".toList, .str "".toList)]])])
    (.obj [("l".toList, .arr [.obj [("var".toList, .str "x".toList)]]), ("x".toList, .num (.pos 0))]) = ⟨[], .ok (.bool true)⟩ := by decide +kernel

end JL.Props.C14
