import JL.Lemmas.Monad
import JL.Lemmas.C14
/-!
# C14 — `all` / `some` / `none` are bounded quantifiers with short-circuit; `none` = not `some`

The model writes `array::all` / `array::some` the way the code does: folds with an early-exit state
(`quantData` over data items, `runQuantLit` over the element expressions of a literal array). The theorems
say that these are the bounded quantifiers `allSpec` / `someSpec` of `JL/Spec/C14.lean` with first-decider
semantics, as equalities in the full monad `M` (boolean, error/panic outcome AND log lines), and that the
three operators are `quantSem` of the same file.
-/
namespace JL.Props.C14
open JL Json JL.Lemmas.C14

/-! ## the collection: normalisation, empty ⇒ false, anything else ⇒ error (kept from the first cut) -/

/-- empty and null collections make `all` and `some` false, before the predicate is even parsed -/
theorem empty_false (isAll predOk : Bool) (p : Json → M Json) :
    quantValue isAll (.arr []) predOk p = ⟨[], .ok (.bool false)⟩ ∧ quantValue isAll .null predOk p = ⟨[], .ok (.bool false)⟩ ∧
    quantValue isAll (.str []) predOk p = ⟨[], .ok (.bool false)⟩ := by
  simp [quantValue, quantItems]

/-- anything that is not an array, a string or null is an error -/
theorem other_error (isAll predOk : Bool) (p : Json → M Json) (c : Json)
    (h1 : ∀ xs, c ≠ .arr xs) (h2 : ∀ s, c ≠ .str s) (h3 : c ≠ .null) : quantValue isAll c predOk p = ⟨[], .err⟩ := by
  cases c <;> simp_all [quantValue, quantItems]

/-- short-circuit: once the state is decided (differs from the initial one) no further element is evaluated -/
theorem short_circuit (isAll : Bool) (p : Json → M Json) (xs : List Json) :
    quantData isAll p xs (!isAll) = ⟨[], .ok (!isAll)⟩ := quantData_decided isAll p xs

/-- a string is taken character by character -/
theorem string_chars (s : Str) : quantItems (.str s) = some (s.map (fun c => .str [c])) := rfl

/-- the code's normalisation of the collection is the specification's -/
theorem items_spec (c : Json) : quantItems c = items c := quantItems_eq_items c

/-! ## the folds are the bounded quantifiers -/

/-- `all` over data items: `∀` with first-falsy exit -/
theorem quantData_all_spec (p : Json → M Json) (xs : List Json) : quantData true p xs true = allSpec p xs :=
  quantData_all p xs

/-- `some` over data items: `∃` with first-truthy exit -/
theorem quantData_some_spec (p : Json → M Json) (xs : List Json) : quantData false p xs false = someSpec p xs :=
  quantData_some p xs

/-- `all` over the element expressions of a literal array: each element is parsed and evaluated against the
outer data only when reached, then handed to the predicate -/
theorem runQuantLit_all_spec (p : Json → M Json) (d : Json) (xs : List Json) :
    runQuantLit true xs p d true = allSpec (fun e => do let v ← evElem d e; p v) xs := runQuantLit_all p d xs

theorem runQuantLit_some_spec (p : Json → M Json) (d : Json) (xs : List Json) :
    runQuantLit false xs p d false = someSpec (fun e => do let v ← evElem d e; p v) xs := runQuantLit_some p d xs

/-- **literal_elems**: the unfolding of the fold over a literal array — the head element is parsed (`check`),
evaluated against the OUTER data `d`, its value handed to the predicate; the tail is touched only if the head
did not decide (`isAll = true`: `all`, `isAll = false`: `some`) -/
theorem literal_elems (isAll : Bool) (p : Json → M Json) (d x : Json) (xs : List Json) :
    runQuantLit isAll (x :: xs) p d isAll =
      (do let v ← evElem d x
          let r ← p v
          if truthy r = isAll then runQuantLit isAll xs p d isAll else pure (!isAll)) :=
  runQuantLit_step isAll p d x xs

/-- after the decider the literal fold neither parses nor evaluates anything -/
theorem literal_decided (isAll : Bool) (p : Json → M Json) (d : Json) (xs : List Json) :
    runQuantLit isAll xs p d (!isAll) = ⟨[], .ok (!isAll)⟩ := runQuantLit_decided isAll p d xs

/-- a collection that is a value (computed, or a non-array literal): its elements are DATA — they occur only as
arguments of the predicate closure, never as arguments of `check`/`run` in rule position (see `overValue`) -/
theorem quantValue_all_spec (coll p : Json) :
    quantValue true coll (check p) (fun x => run p x) = overValue allSpec coll p := quantValue_all coll p

theorem quantValue_some_spec (coll p : Json) :
    quantValue false coll (check p) (fun x => run p x) = overValue someSpec coll p := quantValue_some coll p

/-! ## the operators -/

/-- **all_spec** (evaluation phase) -/
theorem all_spec (c p d : Json) (rest : List Json) :
    run (.obj [("all".toList, .arr (c :: p :: rest))]) d = quantSem allSpec c p d := by
  rw [run_all, quantBody_all]

/-- **some_spec** (evaluation phase) -/
theorem some_spec (c p d : Json) (rest : List Json) :
    run (.obj [("some".toList, .arr (c :: p :: rest))]) d = quantSem someSpec c p d := by
  rw [run_some, quantBody_some]

/-- **none_not_some**, as the code has it: `none` runs `some` (same errors, same log lines) and negates -/
theorem none_not_some_raw (c p d : Json) (rest : List Json) :
    run (.obj [("none".toList, .arr (c :: p :: rest))]) d = run (.obj [("some".toList, .arr (c :: p :: rest))]) d >>= negate := by
  rw [run_none, run_some]

/-- whatever `some` (and `all`) produce is a boolean … -/
theorem some_is_bool (c p d : Json) (rest l : List Json) (v : Json)
    (h : run (.obj [("some".toList, .arr (c :: p :: rest))]) d = ⟨l, .ok v⟩) : ∃ b, v = .bool b := by
  rw [some_spec] at h; exact boolOut_quantSem someSpec c p d l v h

theorem all_is_bool (c p d : Json) (rest l : List Json) (v : Json)
    (h : run (.obj [("all".toList, .arr (c :: p :: rest))]) d = ⟨l, .ok v⟩) : ∃ b, v = .bool b := by
  rw [all_spec] at h; exact boolOut_quantSem allSpec c p d l v h

/-- … so **none_not_some**: `none` is `some` with the boolean negated, errors and log lines included -/
theorem none_not_some (c p d : Json) :
    run (.obj [("none".toList, .arr [c, p])]) d =
      run (.obj [("some".toList, .arr [c, p])]) d >>= fun v => pure (.bool (!truthy v)) := by
  rw [none_not_some_raw, some_spec]
  exact negate_of_boolOut _ (boolOut_quantSem someSpec c p d)

theorem none_spec (c p d : Json) (rest : List Json) :
    run (.obj [("none".toList, .arr (c :: p :: rest))]) d = quantSem someSpec c p d >>= fun v => pure (.bool (!truthy v)) := by
  rw [none_not_some_raw, some_spec]
  exact negate_of_boolOut _ (boolOut_quantSem someSpec c p d)

/-- at the public entry point: the parse demands exactly two operands and nothing else (the operands stay raw) -/
theorem all_apply (c p d : Json) : apply (.obj [("all".toList, .arr [c, p])]) d = quantSem allSpec c p d := by
  unfold apply; rw [check_quant _ (.inl rfl)]; exact all_spec c p d []

theorem some_apply (c p d : Json) : apply (.obj [("some".toList, .arr [c, p])]) d = quantSem someSpec c p d := by
  unfold apply; rw [check_quant _ (.inr (.inl rfl))]; exact some_spec c p d []

theorem none_apply (c p d : Json) :
    apply (.obj [("none".toList, .arr [c, p])]) d = apply (.obj [("some".toList, .arr [c, p])]) d >>= fun v => pure (.bool (!truthy v)) := by
  rw [some_apply]
  unfold apply; rw [check_quant _ (.inr (.inr rfl))]; exact none_spec c p d []

/-- any other operand count is a parse error (never a panic at the public entry point) -/
theorem quant_arity (k : Str) (hk : k = "all".toList ∨ k = "some".toList ∨ k = "none".toList) (xs : List Json) (d : Json)
    (hn : xs.length ≠ 2) : apply (.obj [(k, .arr xs)]) d = ⟨[], .err⟩ := by
  unfold apply; rw [check_quant k hk]; simp [hn]

/-! ### readable corollaries of `quantSem` -/

/-- an empty literal array ⇒ `false`, for ANY second operand (it is not even parsed) -/
theorem empty_literal_false (p d : Json) :
    apply (.obj [("all".toList, .arr [.arr [], p])]) d = ⟨[], .ok (.bool false)⟩ ∧
    apply (.obj [("some".toList, .arr [.arr [], p])]) d = ⟨[], .ok (.bool false)⟩ ∧
    apply (.obj [("none".toList, .arr [.arr [], p])]) d = ⟨[], .ok (.bool true)⟩ := by
  refine ⟨?_, ?_, ?_⟩
  · rw [all_apply]; rfl
  · rw [some_apply]; rfl
  · rw [none_apply, some_apply]; rfl

/-- literal `null` and literal `""` ⇒ `false`, for ANY second operand -/
theorem null_literal_false (p d : Json) :
    apply (.obj [("all".toList, .arr [.null, p])]) d = ⟨[], .ok (.bool false)⟩ ∧
    apply (.obj [("some".toList, .arr [.null, p])]) d = ⟨[], .ok (.bool false)⟩ ∧
    apply (.obj [("all".toList, .arr [.str [], p])]) d = ⟨[], .ok (.bool false)⟩ ∧
    apply (.obj [("some".toList, .arr [.str [], p])]) d = ⟨[], .ok (.bool false)⟩ := by
  refine ⟨?_, ?_, ?_, ?_⟩ <;> first | rw [all_apply] | rw [some_apply]
  all_goals rfl

/-- literal booleans and numbers are not collections: error, for ANY second operand -/
theorem other_literal_error (p d : Json) (c : Json) (hc : (∃ b, c = .bool b) ∨ (∃ n, c = .num n)) :
    apply (.obj [("all".toList, .arr [c, p])]) d = ⟨[], .err⟩ ∧ apply (.obj [("some".toList, .arr [c, p])]) d = ⟨[], .err⟩ ∧
    apply (.obj [("none".toList, .arr [c, p])]) d = ⟨[], .err⟩ := by
  rw [none_apply, all_apply, some_apply]
  rcases hc with ⟨b, rfl⟩ | ⟨n, rfl⟩ <;> exact ⟨rfl, rfl, rfl⟩

/-- a literal string: the predicate ranges over its characters as one-character strings -/
theorem string_literal (c : Char) (s : Str) (p d : Json) (hp : check p = true) :
    apply (.obj [("all".toList, .arr [.str (c :: s), p])]) d =
      (do let b ← allSpec (fun e => run p e) ((c :: s).map fun ch => .str [ch]); pure (.bool b)) := by
  rw [all_apply]; simp [quantSem, overValue, items, hp]

/-- a non-empty literal array: the quantifier ranges over the element EXPRESSIONS, each evaluated against the
outer data `d` when (and only when) reached -/
theorem literal_array (x : Json) (xs : List Json) (p d : Json) (hp : check p = true) :
    apply (.obj [("all".toList, .arr [.arr (x :: xs), p])]) d =
      (do let b ← allSpec (fun e => do let v ← evElem d e; run p v) (x :: xs); pure (.bool b)) ∧
    apply (.obj [("some".toList, .arr [.arr (x :: xs), p])]) d =
      (do let b ← someSpec (fun e => do let v ← evElem d e; run p v) (x :: xs); pure (.bool b)) := by
  rw [all_apply, some_apply]; simp [quantSem_arr_cons, hp]

/-- **computed collections are data**: an object first operand is a rule; what it yields is handed to `overValue`,
where the elements are only ever arguments of the predicate -/
theorem computed_is_data (kvs : List (Str × Json)) (p d : Json) :
    apply (.obj [("all".toList, .arr [.obj kvs, p])]) d = (do let cv ← evElem d (.obj kvs); overValue allSpec cv p) ∧
    apply (.obj [("some".toList, .arr [.obj kvs, p])]) d = (do let cv ← evElem d (.obj kvs); overValue someSpec cv p) := by
  rw [all_apply, some_apply]; exact ⟨rfl, rfl⟩

/-! ## duality -/

/-- **duality** of the quantifiers themselves (unconditional; errors and log lines included): `∀ p = ¬ ∃ ¬p` -/
theorem duality_spec (p : Json → M Json) (xs : List Json) :
    allSpec p xs = someSpec (notP p) xs >>= fun b => pure (!b) := allSpec_eq_not_some p xs

theorem duality_spec' (p : Json → M Json) (xs : List Json) :
    someSpec p xs = allSpec (notP p) xs >>= fun b => pure (!b) := someSpec_eq_not_all p xs

/-- the rule `{"!": [p]}` computes the negated predicate and parses iff `p` does -/
theorem notRule_spec (p x : Json) : run (notRule p) x = notP (fun e => run p e) x ∧ check (notRule p) = check p :=
  ⟨run_notRule p x, check_notRule p⟩

/-- **duality** of the operators: on a collection that does not turn out empty,
`{"all": [c, p]}` = `{"none": [c, {"!": [p]}]}` — values, errors, log lines -/
theorem duality (c p d : Json) (h : ¬ CollEmpty c d) :
    apply (.obj [("all".toList, .arr [c, p])]) d = apply (.obj [("none".toList, .arr [c, notRule p])]) d := by
  rw [none_apply, all_apply, some_apply, quantSem_duality c p d h]
  exact negate_of_boolOut _ (boolOut_quantSem someSpec c (notRule p) d)

/-- … and on a collection that turns out empty the convention `all = some = false` breaks it: `all` is `false`
where `none` of anything is `true` (same log lines) -/
theorem duality_empty (c p p' d : Json) (h : CollEmpty c d) :
    ∃ l, apply (.obj [("all".toList, .arr [c, p])]) d = ⟨l, .ok (.bool false)⟩ ∧
         apply (.obj [("some".toList, .arr [c, p'])]) d = ⟨l, .ok (.bool false)⟩ ∧
         apply (.obj [("none".toList, .arr [c, p'])]) d = ⟨l, .ok (.bool true)⟩ := by
  obtain ⟨l, hl⟩ := quantSem_empty c d h
  refine ⟨l, ?_, ?_, ?_⟩
  · rw [all_apply, hl]
  · rw [some_apply, hl]
  · rw [none_apply, some_apply, hl]; simp [truthy]

/-! ## short circuit: elements after the decider are neither checked nor evaluated -/

/-- `all`: whatever stands after the first element on which the predicate is falsy is irrelevant
(`xs` arbitrary: if an earlier element already decides or fails, the equality holds all the more) -/
theorem short_circuit_all (p : Json → M Json) (xs : List Json) (x : Json) (ys ys' l : List Json) (r : Json)
    (hx : p x = ⟨l, .ok r⟩) (hr : truthy r = false) :
    allSpec p (xs ++ x :: ys) = allSpec p (xs ++ x :: ys') := by
  apply allSpec_prefix
  rw [allSpec_decided p x ys l r hx hr, allSpec_decided p x ys' l r hx hr]

/-- `some`: whatever stands after the first element on which the predicate is truthy is irrelevant -/
theorem short_circuit_some (p : Json → M Json) (xs : List Json) (x : Json) (ys ys' l : List Json) (r : Json)
    (hx : p x = ⟨l, .ok r⟩) (hr : truthy r = true) :
    someSpec p (xs ++ x :: ys) = someSpec p (xs ++ x :: ys') := by
  apply someSpec_prefix
  rw [someSpec_decided p x ys l r hx hr, someSpec_decided p x ys' l r hx hr]

/-- whatever stands after an element on which the predicate fails is irrelevant -/
theorem short_circuit_failed (p : Json → M Json) (xs : List Json) (x : Json) (ys ys' : List Json)
    (hx : ∀ v, (p x).out ≠ .ok v) :
    allSpec p (xs ++ x :: ys) = allSpec p (xs ++ x :: ys') ∧ someSpec p (xs ++ x :: ys) = someSpec p (xs ++ x :: ys') :=
  ⟨allSpec_prefix _ _ _ (allSpec_failed p x ys ys' hx) xs, someSpec_prefix _ _ _ (someSpec_failed p x ys ys' hx) xs⟩

/-- closed form: every element in front answers truthy and `x` answers falsy ⇒ `all` is `false`, having run the
predicate exactly on the elements up to `x` -/
theorem all_first_falsy (p : Json → M Json) (xs : List Json) (x : Json) (ys l : List Json) (r : Json)
    (hxs : ∀ y ∈ xs, ∃ l v, p y = ⟨l, .ok v⟩ ∧ truthy v = true) (hx : p x = ⟨l, .ok r⟩) (hr : truthy r = false) :
    ∃ l', allSpec p (xs ++ x :: ys) = ⟨l' ++ l, .ok false⟩ := by
  obtain ⟨l', h⟩ := allSpec_append_truthy p (x :: ys) xs hxs
  exact ⟨l', by rw [h, allSpec_decided p x ys l r hx hr]⟩

/-- **short_circuit** for a literal array at the public entry point: the element expressions after the decider
can be replaced by ANY rules (unparsable, erroring, logging) -/
theorem short_circuit_literal_all (p d : Json) (xs : List Json) (x : Json) (ys ys' l : List Json) (r : Json)
    (hx : (do let v ← evElem d x; run p v) = ⟨l, .ok r⟩) (hr : truthy r = false) :
    apply (.obj [("all".toList, .arr [.arr (xs ++ x :: ys), p])]) d = apply (.obj [("all".toList, .arr [.arr (xs ++ x :: ys'), p])]) d := by
  rw [all_apply, all_apply, quantSem_arr_ne _ _ (by simp), quantSem_arr_ne _ _ (by simp)]
  rw [short_circuit_all (fun e => do let v ← evElem d e; run p v) xs x ys ys' l r hx hr]

theorem short_circuit_literal_some (p d : Json) (xs : List Json) (x : Json) (ys ys' l : List Json) (r : Json)
    (hx : (do let v ← evElem d x; run p v) = ⟨l, .ok r⟩) (hr : truthy r = true) :
    apply (.obj [("some".toList, .arr [.arr (xs ++ x :: ys), p])]) d = apply (.obj [("some".toList, .arr [.arr (xs ++ x :: ys'), p])]) d ∧
    apply (.obj [("none".toList, .arr [.arr (xs ++ x :: ys), p])]) d = apply (.obj [("none".toList, .arr [.arr (xs ++ x :: ys'), p])]) d := by
  have h : apply (.obj [("some".toList, .arr [.arr (xs ++ x :: ys), p])]) d = apply (.obj [("some".toList, .arr [.arr (xs ++ x :: ys'), p])]) d := by
    rw [some_apply, some_apply, quantSem_arr_ne _ _ (by simp), quantSem_arr_ne _ _ (by simp)]
    rw [short_circuit_some (fun e => do let v ← evElem d e; run p v) xs x ys ys' l r hx hr]
  exact ⟨h, by rw [none_apply, none_apply, h]⟩

/-! ## non-vacuity

`n k` is the number literal, `v s` the rule `{"var": s}`, `bad` the unparsable `{"==": []}`, `boom` the rule
`{"+": ["x"]}` that parses and fails, `logv` the predicate `{"log": [{"var": ""}]}` (truthy iff the element is, and
prints it). -/

private def n (k : Nat) : Json := .num (.pos k)
private def v (s : String) : Json := .obj [("var".toList, .str s.toList)]
private def bad : Json := .obj [("==".toList, .arr [])]
private def boom : Json := .obj [("+".toList, .arr [.str "x".toList])]
private def logv : Json := .obj [("log".toList, .arr [v ""])]
private def dA : Json := .obj [("a".toList, n 1), ("e".toList, .arr []), ("l".toList, .arr [.obj [("var".toList, .str "x".toList)]]), ("x".toList, n 0)]

-- computed collection: its operation-shaped element `{"var":"x"}` is DATA (truthy object), not re-interpreted (kept)
example : apply (.obj [("all".toList, .arr [.obj [("var".toList, .str "l".toList)], .obj [("var".toList, .str "".toList)]])])
    (.obj [("l".toList, .arr [.obj [("var".toList, .str "x".toList)]]), ("x".toList, .num (.pos 0))]) = ⟨[], .ok (.bool true)⟩ := by decide +kernel
-- … whereas the same element written inside a LITERAL array is an expression over the outer data (x = 0: falsy)
example : apply (.obj [("all".toList, .arr [.arr [v "x"], v ""])]) dA = ⟨[], .ok (.bool false)⟩ := by decide +kernel

-- the poisons are poisonous when reached
example : apply bad .null = ⟨[], .err⟩ ∧ apply boom .null = ⟨[], .err⟩ ∧ check bad = false ∧ check boom = true := by decide +kernel

-- `short_circuit_literal_all`: hypothesis (the element `0` is the decider) and an instance with both poisons behind it;
-- the first element is an expression over the outer data (`a` = 1), and the predicate's log lines stop at the decider
example : (do let x ← evElem dA (n 0); run logv x) = ⟨[n 0], .ok (n 0)⟩ ∧ truthy (n 0) = false := by decide +kernel
example : apply (.obj [("all".toList, .arr [.arr [v "a", n 0, bad, boom, n 5], logv])]) dA = ⟨[n 1, n 0], .ok (.bool false)⟩ := by
  decide +kernel
-- a poison in FRONT of the decider does fire
example : apply (.obj [("all".toList, .arr [.arr [v "a", bad, n 0], logv])]) dA = ⟨[n 1], .err⟩ := by decide +kernel
-- `short_circuit_literal_some` + `none_not_some`: same run, negated
example : (do let x ← evElem dA (v "a"); run logv x) = ⟨[n 1], .ok (n 1)⟩ ∧ truthy (n 1) = true := by decide +kernel
example : apply (.obj [("some".toList, .arr [.arr [n 0, v "a", bad, boom], logv])]) dA = ⟨[n 0, n 1], .ok (.bool true)⟩ ∧
          apply (.obj [("none".toList, .arr [.arr [n 0, v "a", bad, boom], logv])]) dA = ⟨[n 0, n 1], .ok (.bool false)⟩ := by
  decide +kernel
-- `none` of a failing `some` fails the same way, with the same lines
example : apply (.obj [("some".toList, .arr [.arr [n 0, boom, n 1], logv])]) dA = ⟨[n 0], .err⟩ ∧
          apply (.obj [("none".toList, .arr [.arr [n 0, boom, n 1], logv])]) dA = ⟨[n 0], .err⟩ := by decide +kernel
-- all elements pass
example : apply (.obj [("all".toList, .arr [.arr [n 1, n 2, n 3], logv])]) dA = ⟨[n 1, n 2, n 3], .ok (.bool true)⟩ := by decide +kernel

-- `short_circuit_all` / `short_circuit_some` / `all_first_falsy` on data: hypotheses met by a concrete closure
example : (fun e => run logv e) (n 0) = ⟨[n 0], .ok (n 0)⟩ ∧ truthy (n 0) = false ∧
    (∀ y ∈ [n 4, n 5], ∃ l r, (fun e => run logv e) y = ⟨l, .ok r⟩ ∧ truthy r = true) := by
  refine ⟨by decide +kernel, by decide +kernel, ?_⟩
  intro y hy
  simp only [List.mem_cons, List.not_mem_nil, or_false] at hy
  rcases hy with rfl | rfl
  · exact ⟨[n 4], n 4, by decide +kernel, by decide +kernel⟩
  · exact ⟨[n 5], n 5, by decide +kernel, by decide +kernel⟩
example : allSpec (fun e => run logv e) [n 4, n 5, n 0, bad, boom] = ⟨[n 4, n 5, n 0], .ok false⟩ := by decide +kernel
-- `short_circuit_failed`: hypothesis
example : ∀ w, ((fun e => run boom e) (n 1)).out ≠ .ok w := by
  have h : (run boom (n 1)).out = .err := by decide +kernel
  intro w; rw [h]; exact fun h => nomatch h

-- strings: characters as one-character strings (incl. a non-ASCII one); hypothesis of `string_literal`
example : check (.obj [("==".toList, .arr [v "", .str "é".toList])]) = true := by decide +kernel
example : apply (.obj [("some".toList, .arr [.str "aé".toList, .obj [("==".toList, .arr [v "", .str "é".toList])]])]) .null = ⟨[], .ok (.bool true)⟩ ∧
          apply (.obj [("all".toList, .arr [.str "aé".toList, .obj [("==".toList, .arr [v "", .str "é".toList])]])]) .null = ⟨[], .ok (.bool false)⟩ ∧
          apply (.obj [("all".toList, .arr [.str "aé".toList, logv])]) .null = ⟨[.str "a".toList, .str "é".toList], .ok (.bool true)⟩ := by
  decide +kernel
-- hypothesis of `literal_array`
example : check logv = true := by decide +kernel

-- empty / null before the predicate is parsed (unparsable predicate!), computed empty, non-collections
example : apply (.obj [("all".toList, .arr [.arr [], bad])]) dA = ⟨[], .ok (.bool false)⟩ ∧
          apply (.obj [("some".toList, .arr [v "e", bad])]) dA = ⟨[], .ok (.bool false)⟩ ∧
          apply (.obj [("none".toList, .arr [v "nope", bad])]) dA = ⟨[], .ok (.bool true)⟩ ∧
          apply (.obj [("all".toList, .arr [v "a", logv])]) dA = ⟨[], .err⟩ ∧
          apply (.obj [("all".toList, .arr [.bool true, logv])]) dA = ⟨[], .err⟩ ∧
          apply (.obj [("all".toList, .arr [.arr [n 1], bad])]) dA = ⟨[], .err⟩ := by decide +kernel
-- arity
example : apply (.obj [("all".toList, .arr [.arr [n 1]])]) dA = ⟨[], .err⟩ ∧ apply (.obj [("none".toList, .arr [.arr [n 1], logv, logv])]) dA = ⟨[], .err⟩ := by
  decide +kernel

-- `duality`: hypothesis on a literal and on a computed collection, and an instance with log lines
example : ¬ CollEmpty (.arr [n 1, n 0]) dA := by simp [CollEmpty]
example : ¬ CollEmpty (v "l") dA := by
  rintro ⟨l, cv, h, hi⟩
  have h' : evElem dA (v "l") = ⟨[], .ok (.arr [.obj [("var".toList, .str "x".toList)]])⟩ := by decide +kernel
  have h := h'.symm.trans h
  injection h with h1 h2; injection h2 with h3; subst h3
  simp [items] at hi
example : apply (.obj [("all".toList, .arr [.arr [n 1, n 0, bad], logv])]) dA = ⟨[n 1, n 0], .ok (.bool false)⟩ ∧
          apply (.obj [("none".toList, .arr [.arr [n 1, n 0, bad], notRule logv])]) dA = ⟨[n 1, n 0], .ok (.bool false)⟩ := by
  decide +kernel
-- `duality_empty`: hypothesis on a literal and on a computed collection, and the instance where duality breaks
example : CollEmpty (.arr []) dA := rfl
example : CollEmpty (v "e") dA := ⟨[], .arr [], by decide +kernel, rfl⟩
example : apply (.obj [("all".toList, .arr [v "e", logv])]) dA = ⟨[], .ok (.bool false)⟩ ∧
          apply (.obj [("none".toList, .arr [v "e", notRule logv])]) dA = ⟨[], .ok (.bool true)⟩ := by decide +kernel

end JL.Props.C14
