import JL.Props.C08
import JL.Props.C07
import JL.Lemmas.C09
/-!
# C09 — `<`, `<=`, `>`, `>=` follow ECMAScript relational comparison, incl. between

`lt_es / lte_es / gt_es / gte_es`: the four models of `js_op::abstract_lt/lte/gt/gte` equal the
evaluation of the ECMAScript operators (13.10.1, through IsLessThan 7.2.13 and Number::lessThan
6.1.6.1.12 as formalised in `JL/Spec/ES.lean`, strings ordered by code point as the property
stipulates), for all pairs of JSON values, with `JsOp.strToNumber` as StringToNumber.
`lte_iff`: `<=` holds exactly when the converted operands are ≤ (`ES.ConvLe`, a declarative relation).
-/
namespace JL.Props.C09
open JL Json JsOp JL.Lemmas.C07 JL.Lemmas.C09 JL.Lemmas.F64Order
open JL.Spec (ES.lessThan ES.lessEq ES.greaterThan ES.greaterEq ES.ConvLe ES.toNumber ES.toPrimitive ES.NumLe ES.StrLe)
open JL.Spec.ES (Val ofJson optNumber optRel)

/-! ## model = ECMA-262 -/

/-- `a < b` is the ECMAScript result: ToPrimitive (hint number) both; both strings ⇒ code-point
lexicographic; otherwise ToNumber both, NaN ⇒ false, else numeric `<` -/
theorem lt_es (a b : Json) : abstractLt a b = ES.lessThan strToNumber a b := by
  cases a <;> cases b <;>
    simp [abstractLt, JsOp.toPrimitive, toPrimitiveNumber, ES.lessThan, Spec.ES.isLessThan, Val.isLessThan, ofJson,
      Val.toPrimitive, toNumber_boolean, toNumber_string, toNumber_number, toNumber_null, undefinedIsFalse_lt,
      lt_optNumber_left, lt_optNumber_right, undefinedIsFalse_some] <;>
    first | rfl | (split <;> simp_all) | grind

/-- `a <= b` is the ECMAScript result (`not (b < a)`, false when that comparison is undefined) -/
theorem lte_es (a b : Json) : abstractLte a b = ES.lessEq strToNumber a b := by
  cases a <;> cases b <;>
    simp [abstractLte, JsOp.toPrimitive, toPrimitiveNumber, ES.lessEq, Spec.ES.isLessThan, Val.isLessThan, ofJson,
      Val.toPrimitive, toNumber_boolean, toNumber_string, toNumber_number, toNumber_null, falseIsTrue_lt,
      le_optNumber_left, le_optNumber_right, falseIsTrue_some, strLe] <;>
    first | rfl | (split <;> simp_all) | grind

/-- `a > b` equals `b < a`: the two separately written Rust bodies are mirror images -/
theorem gt_flip (a b : Json) : abstractGt a b = abstractLt b a := by
  unfold abstractGt abstractLt
  cases toPrimitive a <;> cases toPrimitive b <;> simp [F64.gt] <;> (split <;> rfl)

/-- `a >= b` equals `b <= a` -/
theorem gte_flip (a b : Json) : abstractGte a b = abstractLte b a := rfl

/-- `a > b` is the ECMAScript result, which is `b < a` -/
theorem gt_es (a b : Json) : abstractGt a b = ES.lessThan strToNumber b a := by rw [gt_flip, lt_es]
theorem gt_es' (a b : Json) : abstractGt a b = ES.greaterThan strToNumber a b := gt_es a b

/-- `a >= b` is the ECMAScript result, which is `b <= a` -/
theorem gte_es (a b : Json) : abstractGte a b = ES.lessEq strToNumber b a := by rw [gte_flip, lte_es]
theorem gte_es' (a b : Json) : abstractGte a b = ES.greaterEq strToNumber a b := gte_es a b

/-- the same with any function proved equal to `strToNumber` (the grammar-level StringToNumber) plugged in -/
theorem relational_es_of (s2n : Str → Option F64) (h : ∀ s, strToNumber s = s2n s) (a b : Json) :
    abstractLt a b = ES.lessThan s2n a b ∧ abstractLte a b = ES.lessEq s2n a b ∧
    abstractGt a b = ES.greaterThan s2n a b ∧ abstractGte a b = ES.greaterEq s2n a b := by
  have e : strToNumber = s2n := funext h
  subst e; exact ⟨lt_es a b, lte_es a b, gt_es' a b, gte_es' a b⟩

/-! ## the sentences of the property -/

/-- which operands are string-like: strings, and arrays and objects through their string form -/
theorem string_like (a : Json) :
    (∃ s, ES.toPrimitive a = .string s) ↔ ((∃ s, a = .str s) ∨ (∃ xs, a = .arr xs) ∨ (∃ kvs, a = .obj kvs)) := by
  cases a <;> simp [ES.toPrimitive, ofJson, Val.toPrimitive]

/-- both operands string-like ⇒ lexicographic comparison by code point of the string forms -/
theorem lt_strings (a b : Json) (s t : Str) (ha : ES.toPrimitive a = .string s) (hb : ES.toPrimitive b = .string t) :
    abstractLt a b = strLt s t ∧ abstractLte a b = strLe s t ∧ abstractGt a b = strLt t s ∧ abstractGte a b = strLe t s := by
  refine ⟨?_, ?_, ?_, ?_⟩
  · rw [lt_es, lessThan_strings _ ha hb]
  · rw [lte_es, lessEq_strings _ ha hb]
  · rw [gt_es, lessThan_strings _ hb ha]
  · rw [gte_es, lessEq_strings _ hb ha]

/-- otherwise both are converted to numbers (null and false 0, true 1, strings by StringToNumber) and
compared numerically, and a comparison with a non-numeric conversion is false -/
theorem lt_numbers (a b : Json) (h : ¬ BothStrings a b) :
    abstractLt a b = optRel F64.lt (ES.toNumber strToNumber a) (ES.toNumber strToNumber b) ∧
    abstractLte a b = optRel F64.le (ES.toNumber strToNumber a) (ES.toNumber strToNumber b) := by
  constructor
  · rw [lt_es, lessThan_numbers _ h]
  · rw [lte_es, lessEq_numbers _ h]

/-- a non-numeric conversion (NaN) on either side makes all four comparisons false -/
theorem nan_false (a b : Json) (h : ¬ BothStrings a b)
    (hn : ES.toNumber strToNumber a = none ∨ ES.toNumber strToNumber b = none) :
    abstractLt a b = false ∧ abstractLte a b = false ∧ abstractGt a b = false ∧ abstractGte a b = false := by
  have h' : ¬ BothStrings b a := mt bothStrings_comm.mp h
  rw [gt_flip, gte_flip, (lt_numbers a b h).1, (lt_numbers a b h).2, (lt_numbers b a h').1, (lt_numbers b a h').2]
  rcases hn with hn | hn <;> rw [hn] <;> cases ES.toNumber strToNumber _ <;> simp [optRel]

/-- `<=` holds exactly when the converted operands are less or equal -/
theorem lte_iff (a b : Json) : abstractLte a b = true ↔ ES.ConvLe strToNumber a b := by
  rw [lte_es]; exact lessEq_iff_convLe _ a b

theorem gte_iff (a b : Json) : abstractGte a b = true ↔ ES.ConvLe strToNumber b a := lte_iff b a

/-- the cases the property names: `null` against `0`, an array against an equal-looking array, `{}` against `{}` -/
example : abstractLte .null (.num (.pos 0)) = true ∧ abstractGte .null (.num (.pos 0)) = true := by decide +kernel
example : abstractLte (.arr [.num (.pos 1)]) (.arr [.num (.pos 1)]) = true := by decide +kernel
example : abstractLte (.obj []) (.obj []) = true ∧ abstractGte (.obj []) (.obj []) = true := by decide +kernel
/-- the right-hand side of `lte_iff` for those cases, built directly from the declarative relation -/
example : ES.ConvLe strToNumber .null (.num (.pos 0)) :=
  .numbers (x := .fin false 0) (y := .fin false 0) (fun ⟨_, _, h, _⟩ => by cases h) rfl (by decide +kernel)
    (.fin_fin _ _ _ _ (by decide))
example : ES.ConvLe strToNumber (.arr [.num (.pos 1)]) (.arr [.num (.pos 1)]) :=
  have h : JsOp.toString (.arr [.num (.pos 1)]) = ['1'] := by decide +kernel
  .strings (s := ['1']) (t := ['1']) (congrArg Val.string h) (congrArg Val.string h) (.inr rfl)
example : ES.ConvLe strToNumber (.obj []) (.obj []) := .strings rfl rfl (.inr rfl)
/-- and it fails where it should: `1 <= "inf"` (NaN), `2 <= 1` -/
example : ¬ ES.ConvLe strToNumber (.num (.pos 1)) (.str "inf".toList) := by
  rw [← lte_iff]; decide +kernel
example : ¬ ES.ConvLe strToNumber (.num (.pos 2)) (.num (.pos 1)) := by
  rw [← lte_iff]; decide +kernel

/-- … and in general: every string-like value (so every array and object) is `<=` and `>=` anything with the same string form -/
theorem lte_same_string (a b : Json) (s : Str) (ha : ES.toPrimitive a = .string s) (hb : ES.toPrimitive b = .string s) :
    abstractLte a b = true ∧ abstractGte a b = true := by
  rw [(lt_strings a b s s ha hb).2.1, (lt_strings a b s s ha hb).2.2.2]
  simp [strLe_refl]
theorem lte_refl_arr (xs : List Json) : abstractLte (.arr xs) (.arr xs) = true :=
  (lte_same_string _ _ _ rfl rfl).1
theorem lte_refl_obj (kvs kvs' : List (Str × Json)) : abstractLte (.obj kvs) (.obj kvs') = true :=
  (lte_same_string (.obj kvs) (.obj kvs') "[object Object]".toList rfl rfl).1
/-- null, false, `""`, `[]` against any spelling of zero -/
theorem lte_null_zero (b : Json) (sgn : Bool) (hb : ES.toNumber strToNumber b = some (.fin sgn 0)) (hs : ∀ s, ES.toPrimitive b ≠ .string s) :
    abstractLte .null b = true ∧ abstractGte .null b = true := by
  have h1 : ¬ BothStrings .null b := fun ⟨_, t, _, h⟩ => hs t h
  have h2 : ¬ BothStrings b .null := fun ⟨s, _, h, _⟩ => hs s h
  rw [gte_flip, (lt_numbers _ _ h1).2, (lt_numbers _ _ h2).2, hb]
  cases sgn <;> simp [ES.toNumber, F64.le, F64.zero, optRel]
example : ES.toNumber strToNumber (.num (.flt (.fin true 0))) = some (.fin true 0) ∧
    (∀ s, ES.toPrimitive (.num (.flt (.fin true 0))) ≠ .string s) := ⟨rfl, fun _ h => by cases h⟩

/-- `<=` is `<` or `==` of the converted operands: numbers -/
theorem lte_numbers_iff (a b : Json) (h : ¬ BothStrings a b) :
    abstractLte a b = true ↔ ∃ x y, ES.toNumber strToNumber a = some x ∧ ES.toNumber strToNumber b = some y ∧
      (F64.lt x y = true ∨ F64.eq x y = true) := by
  rw [(lt_numbers a b h).2]
  cases ES.toNumber strToNumber a <;> cases ES.toNumber strToNumber b <;> simp [le_eq_lt_or_eq, optRel]

/-- `<` implies `<=` -/
theorem lt_imp_lte (a b : Json) (h : abstractLt a b = true) : abstractLte a b = true := by
  by_cases hs : BothStrings a b
  · obtain ⟨s, t, ha, hb⟩ := hs
    rw [(lt_strings a b s t ha hb).1] at h
    rw [(lt_strings a b s t ha hb).2.1, strLe_iff]; exact .inl h
  · rw [(lt_numbers a b hs).1] at h
    rw [(lt_numbers a b hs).2]
    generalize ES.toNumber strToNumber a = oa at h ⊢
    generalize ES.toNumber strToNumber b = ob at h ⊢
    cases oa <;> cases ob <;> simp_all [le_of_lt, optRel]

/-- `==` implies `<=` (and, `==` being symmetric, `>=`) -/
theorem eq_imp_lte (a b : Json) (h : abstractEq a b = true) : abstractLte a b = true := by
  cases a <;> cases b <;>
    simp only [abstractEq, eqNoBool, eqPrim, boolNum] at h <;>
    simp only [abstractLte, JsOp.toPrimitive, toPrimitiveNumber, toString_str]
  all_goals try (simp only [Bool.false_eq_true] at h; done)
  all_goals try (exact le_of_eq _ _ h)
  all_goals try
    (split at h
     · exact le_of_eq _ _ h
     · simp only [Bool.false_eq_true] at h)
  all_goals try (rw [eq_of_beq h]; exact strLe_refl _)
  · simp [F64.le, F64.zero]
  · have e := eq_of_beq h
    subst e
    rename_i x
    cases x <;> simp [F64.le, F64.one, F64.zero]
theorem eq_imp_gte (a b : Json) (h : abstractEq a b = true) : abstractGte a b = true :=
  eq_imp_lte b a (by rw [JL.Props.C07.eq_symm]; exact h)

/-- the converse fails, which is what the unit tests (deriving `<=` expectations from `<` or `==`) miss -/
example : abstractLte .null (.num (.pos 0)) = true ∧ abstractLt .null (.num (.pos 0)) = false ∧
    abstractEq .null (.num (.pos 0)) = false := by decide +kernel

/-- when both conversions are comparable (both string-like, or both numeric and not NaN) exactly one of
`a <= b`, `a > b` holds -/
theorem lte_eq_not_gt (a b : Json)
    (h : BothStrings a b ∨ ∃ x y, ES.toNumber strToNumber a = some x ∧ ES.toNumber strToNumber b = some y ∧
      x.isNaN = false ∧ y.isNaN = false) :
    abstractLte a b = !abstractGt a b := by
  by_cases hs : BothStrings a b
  · obtain ⟨s, t, ha, hb⟩ := hs
    rw [(lt_strings a b s t ha hb).2.1, (lt_strings a b s t ha hb).2.2.1]; rfl
  · rcases h with h | ⟨x, y, hx, hy, nx, ny⟩
    · exact absurd h hs
    · have hs' : ¬ BothStrings b a := mt bothStrings_comm.mp hs
      rw [gt_flip, (lt_numbers a b hs).2, (lt_numbers b a hs').1, hx, hy]
      exact le_eq_not_lt x y nx ny
example : ∃ x y, ES.toNumber strToNumber (.str " 12 ".toList) = some x ∧ ES.toNumber strToNumber (.bool true) = some y ∧
    x.isNaN = false ∧ y.isNaN = false := ⟨.fin false (12 * F64.S), F64.one, by decide +kernel, rfl, rfl, rfl⟩

/-! ## operator level -/

/-- the three-operand form is the conjunction of the two adjacent comparisons (a between test) -/
theorem between (f : Json → Json → Bool) (a b c : Json) :
    compare f [a, b, c] = ⟨[], .ok (.bool (f a b && f b c))⟩ := rfl
theorem two_operands (f : Json → Json → Bool) (a b : Json) : compare f [a, b] = ⟨[], .ok (.bool (f a b))⟩ := rfl

theorem op_lt2 (a b : Json) : execEager "<".toList [a, b] = ⟨[], .ok (.bool (abstractLt a b))⟩ := by simp [execEager, compare]
theorem op_lte2 (a b : Json) : execEager "<=".toList [a, b] = ⟨[], .ok (.bool (abstractLte a b))⟩ := by simp [execEager, compare]
theorem op_gt2 (a b : Json) : execEager ">".toList [a, b] = ⟨[], .ok (.bool (abstractLt b a))⟩ := by simp [execEager, compare, gt_flip]
theorem op_gte2 (a b : Json) : execEager ">=".toList [a, b] = ⟨[], .ok (.bool (abstractLte b a))⟩ := by simp [execEager, compare, abstractGte]

theorem op_lt3 (a b c : Json) : execEager "<".toList [a, b, c] = ⟨[], .ok (.bool (abstractLt a b && abstractLt b c))⟩ := by simp [execEager, compare]
theorem op_lte3 (a b c : Json) : execEager "<=".toList [a, b, c] = ⟨[], .ok (.bool (abstractLte a b && abstractLte b c))⟩ := by simp [execEager, compare]
theorem op_gt3 (a b c : Json) : execEager ">".toList [a, b, c] = ⟨[], .ok (.bool (abstractLt b a && abstractLt c b))⟩ := by simp [execEager, compare, gt_flip]
theorem op_gte3 (a b c : Json) : execEager ">=".toList [a, b, c] = ⟨[], .ok (.bool (abstractLte b a && abstractLte c b))⟩ := by simp [execEager, compare, abstractGte]

/-- operands beyond the third are ignored (the operator table allows 2 or 3, C02) -/
theorem op_lt_more (a b c : Json) (rest : List Json) :
    execEager "<".toList (a :: b :: c :: rest) = execEager "<".toList [a, b, c] := by simp [execEager, compare]
theorem op_lte_more (a b c : Json) (rest : List Json) :
    execEager "<=".toList (a :: b :: c :: rest) = execEager "<=".toList [a, b, c] := by simp [execEager, compare]
theorem op_gt_more (a b c : Json) (rest : List Json) :
    execEager ">".toList (a :: b :: c :: rest) = execEager ">".toList [a, b, c] := by simp [execEager, compare]
theorem op_gte_more (a b c : Json) (rest : List Json) :
    execEager ">=".toList (a :: b :: c :: rest) = execEager ">=".toList [a, b, c] := by simp [execEager, compare]

/-- the operators on evaluated operands are the ECMAScript operators -/
theorem op_lt2_es (a b : Json) : execEager "<".toList [a, b] = ⟨[], .ok (.bool (ES.lessThan strToNumber a b))⟩ := by
  rw [op_lt2, lt_es]
theorem op_lte2_es (a b : Json) : execEager "<=".toList [a, b] = ⟨[], .ok (.bool (ES.lessEq strToNumber a b))⟩ := by
  rw [op_lte2, lte_es]
theorem op_gt2_es (a b : Json) : execEager ">".toList [a, b] = ⟨[], .ok (.bool (ES.greaterThan strToNumber a b))⟩ := by
  rw [op_gt2, lt_es]; rfl
theorem op_gte2_es (a b : Json) : execEager ">=".toList [a, b] = ⟨[], .ok (.bool (ES.greaterEq strToNumber a b))⟩ := by
  rw [op_gte2, lte_es]; rfl
/-- three operands: the conjunction of the two adjacent ECMAScript comparisons -/
theorem op_lt3_es (a b c : Json) : execEager "<".toList [a, b, c] =
    ⟨[], .ok (.bool (ES.lessThan strToNumber a b && ES.lessThan strToNumber b c))⟩ := by rw [op_lt3, lt_es, lt_es]
theorem op_lte3_es (a b c : Json) : execEager "<=".toList [a, b, c] =
    ⟨[], .ok (.bool (ES.lessEq strToNumber a b && ES.lessEq strToNumber b c))⟩ := by rw [op_lte3, lte_es, lte_es]
theorem op_gt3_es (a b c : Json) : execEager ">".toList [a, b, c] =
    ⟨[], .ok (.bool (ES.greaterThan strToNumber a b && ES.greaterThan strToNumber b c))⟩ := by rw [op_gt3, lt_es, lt_es]; rfl
theorem op_gte3_es (a b c : Json) : execEager ">=".toList [a, b, c] =
    ⟨[], .ok (.bool (ES.greaterEq strToNumber a b && ES.greaterEq strToNumber b c))⟩ := by rw [op_gte3, lte_es, lte_es]; rfl

/-- `a > b` equals `b < a`, `a >= b` equals `b <= a`, at operator level -/
theorem op_gt_flip (a b : Json) : execEager ">".toList [a, b] = execEager "<".toList [b, a] := by rw [op_gt2, op_lt2]
theorem op_gte_flip (a b : Json) : execEager ">=".toList [a, b] = execEager "<=".toList [b, a] := by rw [op_gte2, op_lte2]
/-- the between forms mirror too: `a > b > c` is `c < b < a` -/
theorem op_gt3_flip (a b c : Json) : execEager ">".toList [a, b, c] = execEager "<".toList [c, b, a] := by
  rw [op_gt3, op_lt3, Bool.and_comm]
theorem op_gte3_flip (a b c : Json) : execEager ">=".toList [a, b, c] = execEager "<=".toList [c, b, a] := by
  rw [op_gte3, op_lte3, Bool.and_comm]

/-! ## corner cases (model and spec, evaluated in the kernel) -/
section examples
private def s (x : String) : Json := .str x.toList
private def n (k : Nat) : Json := .num (.pos k)

example : abstractLt (s "a") (s "b") = true ∧ abstractLt (s "b") (s "a") = false ∧ abstractLte (s "a") (s "a") = true := by decide +kernel
example : ES.lessThan strToNumber (s "a") (s "b") = true := by decide +kernel
-- strings against strings are never converted: "10" < "9", but 10 < "9" is false
example : abstractLt (s "10") (s "9") = true ∧ abstractLt (n 10) (s "9") = false ∧ abstractLt (s "10") (n 9) = false := by decide +kernel
-- prefix order, code-point order beyond the BMP (UTF-16 order would differ: U+FFFF vs U+10000)
example : abstractLt (s "ab") (s "abc") = true ∧ abstractLt (.str [Char.ofNat 0xFFFF]) (.str [Char.ofNat 0x10000]) = true := by decide +kernel
-- non-numeric conversion: every comparison false
example : abstractLt (n 1) (s "inf") = false ∧ abstractLte (n 1) (s "inf") = false ∧ abstractGt (n 1) (s "inf") = false ∧
    abstractGte (n 1) (s "inf") = false := by decide +kernel
example : ES.lessThan strToNumber (n 1) (s "inf") = false ∧ ES.lessEq strToNumber (n 1) (s "inf") = false := by decide +kernel
example : abstractLt (n 1) (s "Infinity") = true ∧ abstractGt (n 1) (s "-Infinity") = true := by decide +kernel
-- null / booleans / "" / [] numerically
example : abstractLte .null (n 0) = true ∧ abstractLt .null (n 0) = false ∧ abstractLt .null (n 1) = true ∧
    abstractLt (.bool false) (.bool true) = true ∧ abstractLte (s "") .null = true ∧ abstractLt (.arr []) (n 1) = true := by decide +kernel
example : ES.lessEq strToNumber .null (n 0) = true := by decide +kernel
-- arrays and objects through their string form
example : abstractLte (.arr [n 1]) (.arr [n 1]) = true ∧ abstractGte (.arr [n 1]) (.arr [n 1]) = true ∧
    abstractLt (.arr [n 1]) (.arr [n 1]) = false := by decide +kernel
example : ES.lessEq strToNumber (.arr [n 1]) (.arr [n 1]) = true ∧ ES.lessEq strToNumber (.obj []) (.obj []) = true := by decide +kernel
example : abstractLt (.arr [n 1, n 2]) (.arr [n 1, n 3]) = true ∧ abstractLt (.arr [n 2]) (n 10) = true ∧
    abstractLt (.arr [n 2]) (s "10") = false ∧ abstractLte (.obj []) (n 1) = false ∧ abstractLt (s "[") (.obj []) = true := by decide +kernel
-- -0 and +0; 1 and 1.0
example : abstractLte (.num (.flt (.fin true 0))) (n 0) = true ∧ abstractLt (.num (.flt (.fin true 0))) (n 0) = false ∧
    abstractLte (n 1) (.num (.flt F64.one)) = true := by decide +kernel
-- between
example : execEager "<".toList [n 1, n 2, n 3] = ⟨[], .ok (.bool true)⟩ ∧ execEager "<".toList [n 1, n 3, n 2] = ⟨[], .ok (.bool false)⟩ ∧
    execEager "<=".toList [n 1, n 1, s "1"] = ⟨[], .ok (.bool true)⟩ ∧ execEager ">".toList [n 3, n 2, n 1] = ⟨[], .ok (.bool true)⟩ := by
  simp only [op_lt3, op_lte3, op_gt3]; decide +kernel
end examples

end JL.Props.C09
