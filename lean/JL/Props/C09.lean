import JL.Props.C08
/-!
# C09 — `<`, `<=`, `>`, `>=` follow ECMAScript relational comparison, incl. between
-/
namespace JL.Props.C09
open JL Json JsOp

/-- `a > b` equals `b < a`: the two separately written Rust bodies are mirror images -/
theorem gt_flip (a b : Json) : abstractGt a b = abstractLt b a := by
  unfold abstractGt abstractLt
  cases toPrimitive a <;> cases toPrimitive b <;> simp [F64.gt] <;> (split <;> rfl)

/-- `a >= b` equals `b <= a` -/
theorem gte_flip (a b : Json) : abstractGte a b = abstractLte b a := rfl

/-- the three-operand form is the conjunction of the two adjacent comparisons (a between test) -/
theorem between (f : Json → Json → Bool) (a b c : Json) :
    compare f [a, b, c] = ⟨[], .ok (.bool (f a b && f b c))⟩ := rfl
theorem two_operands (f : Json → Json → Bool) (a b : Json) : compare f [a, b] = ⟨[], .ok (.bool (f a b))⟩ := rfl

theorem op_lt3 (a b c : Json) : execEager "<".toList [a, b, c] = ⟨[], .ok (.bool (abstractLt a b && abstractLt b c))⟩ := by simp [execEager, compare]
theorem op_lte3 (a b c : Json) : execEager "<=".toList [a, b, c] = ⟨[], .ok (.bool (abstractLte a b && abstractLte b c))⟩ := by simp [execEager, compare]
theorem op_gt3 (a b c : Json) : execEager ">".toList [a, b, c] = ⟨[], .ok (.bool (abstractLt b a && abstractLt c b))⟩ := by simp [execEager, compare, gt_flip]
theorem op_gte3 (a b c : Json) : execEager ">=".toList [a, b, c] = ⟨[], .ok (.bool (abstractLte b a && abstractLte c b))⟩ := by simp [execEager, compare, abstractGte]

end JL.Props.C09
