import JL.Lemmas.Monad
import JL.Lemmas.C04
import JL.Props.C01
/-!
# C17 — `apply` is a pure, stateless, thread-safe function of (rule, data)

In the model `apply` is a function: there is no state to thread. What the theorems add is the statement for
*histories* (each call's result equals its result in isolation, whatever came before) and the exact effect of `log`.
-/
namespace JL.Props.C17
open JL Json

/-- a call of a history -/
structure Call where
  rule : Json
  data : Json

/-- running a history with the only state the implementation could legitimately have: none -/
def runHistory : Unit → List Call → List (M Json)
  | _, [] => []
  | s, c :: cs => apply c.rule c.data :: runHistory s cs

/-- every call of every finite history returns its isolated result -/
theorem hist_refines (calls : List Call) : runHistory () calls = calls.map (fun c => apply c.rule c.data) := by
  induction calls with
  | nil => rfl
  | cons c cs ih => simp [runHistory, ih]

/-- hence invariance under permutation, repetition and interleaving of calls -/
theorem hist_perm (cs₁ cs₂ : List Call) (h : cs₁.Perm cs₂) : (runHistory () cs₁).Perm (runHistory () cs₂) := by
  rw [hist_refines, hist_refines]; exact h.map _

/-- `log` writes exactly one line — its operand — and returns the operand unchanged -/
theorem log_effect (v : Json) : execEager "log".toList [v] = ⟨[v], .ok v⟩ := by
  simp [execEager]
  rfl

example : apply (.obj [("log".toList, .arr [.str "x".toList])]) .null = ⟨[.str "x".toList], .ok (.str "x".toList)⟩ := by decide +kernel

/-- **The only externally visible effect is `log`**: no other eager operator and no data operator writes a line, whatever its
operands; and `log` writes exactly one line holding its operand. (The lazy operators write nothing of their own either: their
traces are concatenations of their evaluated operands' traces — `JL.Props.C05`, `C13`, `C14` state each unfolding.) -/
theorem only_log_writes (k : Str) (vs : List Json) (h : k ≠ "log".toList) : (execEager k vs).logs = [] := by
  rw [JL.execEager_logs]; unfold JL.ownTrace; rw [if_neg h]

theorem data_ops_write_nothing (k : Str) (d : Json) (vs : List Json) : (execData k d vs).logs = [] :=
  JL.execData_logs k d vs

/-- a literal (any value that is not an operation) evaluates silently -/
theorem literal_silent (r d : Json) (hr : ∀ k v, r ≠ .obj [(k, v)]) : (apply r d).logs = [] := by
  unfold apply
  have hc : check r = true := by
    unfold check; split
    · rename_i k v; exact absurd rfl (hr k v)
    · rfl
  rw [hc]; simp only [if_true]
  unfold run; split
  · rename_i k v; exact absurd rfl (hr k v)
  · rfl

/-- every call has an outcome and that outcome is a function of (rule, data) alone: two calls with equal arguments agree -/
theorem deterministic (r₁ d₁ r₂ d₂ : Json) (hr : r₁ = r₂) (hd : d₁ = d₂) : apply r₁ d₁ = apply r₂ d₂ := by subst hr; subst hd; rfl

/-- and it is always a value or an error value (never a panic), so a history can always continue: `JL.Props.C01.apply_total` -/
theorem history_never_stops (calls : List Call) : ∀ m ∈ runHistory () calls, M.NoPanic m := by
  intro m hm
  rw [hist_refines] at hm
  obtain ⟨c, _, rfl⟩ := List.mem_map.mp hm
  exact JL.Props.C01.apply_total c.rule c.data

end JL.Props.C17
