import JL.Lemmas.Monad
/-!
# C17 — `apply` is a pure, stateless, thread-safe function of (rule, data)

In the model `apply` is a function: there is no state to thread. What the theorems add is the statement for
*histories* (each call's result equals its result in isolation, whatever came before) and the exact effect of `log`.
-/
namespace JL.Props.C17
open JL Json

/-- a call of a history -/
structure Call where
  rule : Json
  data : Json

/-- running a history with the only state the implementation could legitimately have: none -/
def runHistory : Unit → List Call → List (M Json)
  | _, [] => []
  | s, c :: cs => apply c.rule c.data :: runHistory s cs

/-- every call of every finite history returns its isolated result -/
theorem hist_refines (calls : List Call) : runHistory () calls = calls.map (fun c => apply c.rule c.data) := by
  induction calls with
  | nil => rfl
  | cons c cs ih => simp [runHistory, ih]

/-- hence invariance under permutation, repetition and interleaving of calls -/
theorem hist_perm (cs₁ cs₂ : List Call) (h : cs₁.Perm cs₂) : (runHistory () cs₁).Perm (runHistory () cs₂) := by
  rw [hist_refines, hist_refines]; exact h.map _

/-- `log` writes exactly one line — its operand — and returns the operand unchanged -/
theorem log_effect (v : Json) : execEager "log".toList [v] = ⟨[v], .ok v⟩ := by
  simp [execEager]
  rfl

example : apply (.obj [("log".toList, .arr [.str "x".toList])]) .null = ⟨[.str "x".toList], .ok (.str "x".toList)⟩ := by decide +kernel

end JL.Props.C17
