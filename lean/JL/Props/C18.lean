import JL.Wrap
import JL.Lemmas.Monad
/-!
# C18 — the `jsonlogic` command is a faithful, chainable wrapper of the library
-/
namespace JL.Props.C18
open JL Json Wrap

variable (parse : Str → Option Json) (ser : Json → Str)

/-- success: after the `log` lines, exactly one line holding the serialisation of the library's result; exit 0 -/
theorem cli_success (logic : Str) (arg : Option Str) (stdin : Str) (r d v : Json)
    (hr : parse logic = some r) (hd : parse (dataText arg stdin) = some d) (hv : (apply r d).out = .ok v) :
    cli parse ser logic arg stdin = ⟨(apply r d).logs.map ser ++ [ser v], true⟩ := by
  simp [cli, cliEval, hr, hd, hv]

/-- exit 0 iff both texts parse and evaluation yields a value; otherwise no result line is printed
(standard output holds at most the `log` lines written before the failure) -/
theorem cli_exit_iff (logic : Str) (arg : Option Str) (stdin : Str) :
    (cli parse ser logic arg stdin).exitZero = true ↔
      ∃ r d v, parse logic = some r ∧ parse (dataText arg stdin) = some d ∧ (apply r d).out = .ok v := by
  unfold cli
  cases hr : parse logic with
  | none => simp
  | some r =>
    cases hd : parse (dataText arg stdin) with
    | none => simp
    | some d =>
      cases hv : (apply r d).out <;> simp [cliEval, hv]

theorem cli_failure_no_result (logic : Str) (arg : Option Str) (stdin : Str)
    (h : (cli parse ser logic arg stdin).exitZero = false) :
    (cli parse ser logic arg stdin).stdout = [] ∨
      ∃ r d, parse logic = some r ∧ parse (dataText arg stdin) = some d ∧ (cli parse ser logic arg stdin).stdout = (apply r d).logs.map ser := by
  unfold cli at h ⊢
  cases hr : parse logic with
  | none => simp
  | some r =>
    cases hd : parse (dataText arg stdin) with
    | none => simp
    | some d =>
      right
      refine ⟨r, d, rfl, rfl, ?_⟩
      cases hv : (apply r d).out <;> simp_all [cliEval]

/-- the three ways of supplying the data give the same outcome for the same text -/
theorem data_modes (logic t : Str) (ht : t ≠ "-".toList) (other : Str) :
    cli parse ser logic (some t) other = cli parse ser logic none t ∧
    cli parse ser logic none t = cli parse ser logic (some "-".toList) t := by
  refine ⟨?_, ?_⟩ <;> simp only [cli, dataText, if_neg ht, ↓reduceIte]

/-- chaining: piping invocation 1 into invocation 2 computes `apply r₂` on **the parsed output of the first** —
whatever value `w` the parser makes of the printed line (the codec need not round-trip: serde_json without `float_roundtrip`
does not re-read every float it prints) -/
theorem chain (l₁ l₂ : Str) (arg : Option Str) (stdin : Str) (r₁ d₁ v₁ r₂ w : Json)
    (h1 : parse l₁ = some r₁) (hd : parse (dataText arg stdin) = some d₁) (hv : (apply r₁ d₁).out = .ok v₁)
    (hlogs : (apply r₁ d₁).logs = []) (hrt : parse (ser v₁) = some w) (h2 : parse l₂ = some r₂) :
    ∃ line, (cli parse ser l₁ arg stdin).stdout = [line] ∧
      cli parse ser l₂ none line = cliEval ser r₂ w := by
  refine ⟨ser v₁, ?_, ?_⟩
  · simp [cli, cliEval, h1, hd, hv, hlogs]
  · simp [cli, dataText, h2, hrt]

/-- with a codec that does round-trip the first result, the chain computes `apply r₂ (result₁)` itself -/
theorem chain_roundtrip (l₁ l₂ : Str) (arg : Option Str) (stdin : Str) (r₁ d₁ v₁ r₂ : Json)
    (h1 : parse l₁ = some r₁) (hd : parse (dataText arg stdin) = some d₁) (hv : (apply r₁ d₁).out = .ok v₁)
    (hlogs : (apply r₁ d₁).logs = []) (hrt : parse (ser v₁) = some v₁) (h2 : parse l₂ = some r₂) :
    ∃ line, (cli parse ser l₁ arg stdin).stdout = [line] ∧ cli parse ser l₂ none line = cliEval ser r₂ v₁ :=
  chain parse ser l₁ l₂ arg stdin r₁ d₁ v₁ r₂ v₁ h1 hd hv hlogs hrt h2

/-- if the printed line does not parse at all, the second invocation fails without a result line -/
theorem chain_unparsable (l₂ line : Str) (h : parse line = none) : cli parse ser l₂ none line = ⟨[], false⟩ := by
  unfold cli
  cases parse l₂ <;> simp [dataText, h]

end JL.Props.C18
