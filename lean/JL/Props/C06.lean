import JL.Lemmas.C06
/-!
# C06 — one JsonLogic truthiness table governs every boolean decision
-/
namespace JL.Props.C06
open JL Json JL.Lemmas.C06

/-- the JsonLogic truthiness table, written from the property: false, null, zero (any spelling, incl. -0),
the empty string and the empty array are falsy; everything else is truthy -/
def jlFalsy : Json → Prop
  | .bool b => b = false
  | .null => True
  | .num n => F64.eq n.toF64 F64.zero = true
  | .str s => s = []
  | .arr xs => xs = []
  | .obj _ => False

/-- the code's `truthy` is the table -/
theorem truthy_table (v : Json) : truthy v = false ↔ jlFalsy v := by
  cases v <;> simp [truthy, jlFalsy]

/-- every object, even `{}`, is truthy; so are non-empty strings and arrays whatever they contain -/
theorem obj_truthy (kvs : List (Str × Json)) : truthy (.obj kvs) = true := rfl
theorem nonempty_str_truthy (c : Char) (s : Str) : truthy (.str (c :: s)) = true := rfl
theorem nonempty_arr_truthy (x : Json) (xs : List Json) : truthy (.arr (x :: xs)) = true := rfl

/-- `!!` returns the boolean of the table and `!` its exact negation (operator level, evaluated operand) -/
theorem bangbang (v : Json) : execEager "!!".toList [v] = ⟨[], .ok (.bool (truthy v))⟩ := by
  simp [execEager]
theorem bang (v : Json) : execEager "!".toList [v] = ⟨[], .ok (.bool (!truthy v))⟩ := by
  simp [execEager]

/-- zero in every spelling is falsy -/
example : truthy (.num (.pos 0)) = false ∧ truthy (.num (.flt (F64.fin true 0))) = false ∧ truthy (.num (.flt (F64.fin false 0))) = false := by decide +kernel
example : truthy (.str "0".toList) = true ∧ truthy (.arr [.num (.pos 0)]) = true ∧ truthy (.arr [.arr []]) = true ∧ truthy (.obj []) = true := by decide


/-! ## numbers: falsy exactly when the double is ±0 -/

/-- **Falsy numbers.** A (well-formed) number is falsy iff it is `0` (`PosInt(0)`), `0.0` or `-0.0` — for every
`u64`, every negative `i64` and every finite double, no size bound: converting a non-zero integer to a double never
gives zero, however large it is. -/
theorem truthy_num (n : Num) (h : Num.WF n) :
    truthy (.num n) = false ↔ n = .pos 0 ∨ ∃ b, n = .flt (F64.fin b 0) := by
  simp only [truthy, Bool.not_eq_false', toF64_eq_zero]
  constructor
  · rintro (h1 | h1 | h1)
    · exact Or.inl h1
    · subst h1; simp [Num.WF] at h
    · exact Or.inr h1
  · rintro (h1 | h1)
    · exact Or.inl h1
    · exact Or.inr (Or.inr h1)

/-- in terms of the double: falsy iff `as_f64() == 0.0` (true of `+0.0` and `-0.0` only) -/
theorem truthy_num_f64 (n : Num) : truthy (.num n) = !(F64.eq n.toF64 F64.zero) := rfl
theorem f64_eq_zero_iff (x : F64) : F64.eq x F64.zero = true ↔ ∃ b, x = F64.fin b 0 := by
  cases x with
  | nan => simp [F64.eq]
  | inf b => simp [F64.eq, F64.zero]
  | fin b k => simp [eq_zero_fin]

example : Num.WF (.pos (2^64 - 1)) ∧ Num.WF (.neg (2^63)) ∧ Num.WF (.flt (F64.fin true 1)) := by decide +kernel
example : truthy (.num (.pos (2^64 - 1))) = true ∧ truthy (.num (.neg 1)) = true ∧ truthy (.num (.flt (F64.fin true 1))) = true := by
  decide +kernel

/-! ## `if` / `?:` conditions -/

/-- the even-index (condition) step of the fold of `logic::if_`: the branch is chosen by `truthy` of the condition's value -/
theorem if_cond_step (c : Json) (rest : List Json) (i : Nat) (last : Json) (w : Bool) (d : Json) (hi : i % 2 = 0) :
    runIf (c :: rest) i (last, w, false) d =
      if check c then (do let cv ← run c d; runIf rest (i + 1) (cv, truthy cv, false) d) else M.err := by
  simp [runIf, hi]

/-- the odd-index (consequent) step: taken iff the preceding condition's value was truthy, and then the fold returns -/
theorem if_branch_step (t : Json) (rest : List Json) (i : Nat) (last : Json) (w : Bool) (d : Json) (hi : i % 2 = 1) :
    runIf (t :: rest) i (last, w, false) d =
      if w then (if check t then (do let tv ← run t d; runIf rest (i + 1) (tv, true, true) d) else M.err)
      else runIf rest (i + 1) (.null, w, false) d := by
  simp [runIf, hi]

/-- `{"if": [c, t, e]}` is `t` if `truthy ⟦c⟧` else `e` — the unselected branch is neither parsed nor evaluated -/
theorem if_then_else (c t e d : Json) :
    run (.obj [("if".toList, .arr [c, t, e])]) d =
      if check c then
        (do let cv ← run c d
            if truthy cv then (if check t then run t d else M.err) else (if check e then run e d else M.err))
      else M.err := by
  have hl : lookupOp "if".toList = some (.lazy, .any) := by decide
  conv => lhs; unfold run
  simp only [hl]
  simp only [decide_true, Bool.true_or, if_true]
  simp only [if_cond_step, if_branch_step, runIf_returned]
  simp only [runIf, M.bind_pure]

/-- the same for the alias `?:` -/
theorem ternary_then_else (c t e d : Json) :
    run (.obj [("?:".toList, .arr [c, t, e])]) d =
      if check c then
        (do let cv ← run c d
            if truthy cv then (if check t then run t d else M.err) else (if check e then run e d else M.err))
      else M.err := by
  have hl : lookupOp "?:".toList = some (.lazy, .any) := by decide
  conv => lhs; unfold run
  simp only [hl]
  simp only [decide_true, Bool.or_true, if_true]
  simp only [if_cond_step, if_branch_step, runIf_returned]
  simp only [runIf, M.bind_pure]

/-! ## `and` / `or` -/

/-- one step of the fold of `or` (`isOr = true`) / `and` (`false`) while undecided: the operand's value `e` decides
iff `truthy e = isOr`, and then nothing more is evaluated -/
theorem orAnd_step (isOr : Bool) (x : Json) (xs : List Json) (d : Json) :
    runOrAnd isOr (x :: xs) .uninit d =
      if check x then
        (do let e ← run x d
            if truthy e == isOr then pure (.decided e) else runOrAnd isOr xs (.current e) d)
      else M.err := by
  simp only [runOrAnd]
  split
  · congr 1; funext e
    split <;> simp [runOrAnd_decided]
  · rfl

theorem orAnd_step_current (isOr : Bool) (x : Json) (xs : List Json) (r d : Json) :
    runOrAnd isOr (x :: xs) (.current r) d =
      if check x then
        (do let e ← run x d
            if truthy e == isOr then pure (.decided e) else runOrAnd isOr xs (.current e) d)
      else M.err := by
  simp only [runOrAnd]
  split
  · congr 1; funext e
    split <;> simp [runOrAnd_decided]
  · rfl

/-- `{"or": [a, b]}`: `a`'s value if it is truthy (and `b` is not even parsed), else `b`'s -/
theorem or_two (a b d : Json) :
    run (.obj [("or".toList, .arr [a, b])]) d =
      if check a then
        (do let av ← run a d
            if truthy av then pure av else (if check b then run b d else M.err))
      else M.err := by
  have hl : lookupOp "or".toList = some (.lazy, .atLeast 1) := by decide
  conv => lhs; unfold run
  simp only [hl]
  have h1 : ("or".toList = "if".toList) = False := by decide
  have h2 : ("or".toList = "?:".toList) = False := by decide
  simp only [h1, h2, decide_false, Bool.or_false, Bool.false_eq_true, if_false, if_true, orAnd_step, orAnd_step_current]
  split
  · rw [M.bind_assoc]; congr 1; funext e
    cases truthy e <;> simp [runOrAnd]
    split
    · rw [M.bind_assoc]
      conv => rhs; rw [← M.bind_pure (run b d)]
      congr 1; funext e'
      split <;> rfl
    · rfl
  · rfl


/-- `{"and": [a, b]}`: `a`'s value if it is falsy (and `b` is not even parsed), else `b`'s -/
theorem and_two (a b d : Json) :
    run (.obj [("and".toList, .arr [a, b])]) d =
      if check a then
        (do let av ← run a d
            if truthy av then (if check b then run b d else M.err) else pure av)
      else M.err := by
  have hl : lookupOp "and".toList = some (.lazy, .atLeast 1) := by decide
  conv => lhs; unfold run
  simp +decide only [hl, if_false, if_true, orAnd_step, orAnd_step_current]
  split
  · rw [M.bind_assoc]; congr 1; funext e
    cases truthy e <;> simp [runOrAnd]
    split
    · rw [M.bind_assoc]
      conv => rhs; rw [← M.bind_pure (run b d)]
      congr 1; funext e'
      split <;> rfl
    · rfl
  · rfl

/-! ## `filter` -/

/-- the fold of `filter`: an element is kept iff the predicate's value on it is truthy (same table) -/
theorem filter_keeps (f : Json → M Json) (g : Json → Json) (xs : List Json)
    (h : ∀ x ∈ xs, (f x).out = .ok (g x)) :
    (filterData f xs).out = .ok (xs.filter (fun x => truthy (g x))) := by
  induction xs with
  | nil => rfl
  | cons x xs ih =>
    have hx := h x List.mem_cons_self
    have ih' := ih (fun y hy => h y (List.mem_cons_of_mem _ hy))
    simp only [filterData]
    rw [out_bind_ok hx, out_bind_ok ih']
    simp only [M.pure_out, List.filter_cons]

/-- operator level: `{"filter": [c, e]}` with `c` evaluating to an array -/
theorem filter_op (c e d : Json) (l : List Json) (items : List Json) (g : Json → Json)
    (hc : check c = true) (hcv : run c d = ⟨l, .ok (.arr items)⟩) (he : check e = true)
    (h : ∀ x ∈ items, (run e x).out = .ok (g x)) :
    (run (.obj [("filter".toList, .arr [c, e])]) d).out = .ok (.arr (items.filter (fun x => truthy (g x)))) := by
  have hl : lookupOp "filter".toList = some (.lazy, .exactly 2) := by decide
  conv => lhs; unfold run
  simp only [hl]
  have h1 : ("filter".toList = "if".toList) = False := by decide
  have h2 : ("filter".toList = "?:".toList) = False := by decide
  have h3 : ("filter".toList = "or".toList) = False := by decide
  have h4 : ("filter".toList = "and".toList) = False := by decide
  have h5 : ("filter".toList = "map".toList) = False := by decide
  simp only [h1, h2, h3, h4, h5, decide_false, Bool.or_false, Bool.false_eq_true, if_false, if_true, hc, he, hcv,
    Bool.not_true, M.bind_ok]
  rw [out_bind_ok (filter_keeps _ g items h)]
  rfl

/-! ## `all` / `some` / `none` -/

/-- the fold of `all` over data items: true iff the predicate's value is truthy on every item -/
theorem all_data (p : Json → M Json) (g : Json → Json) (xs : List Json)
    (h : ∀ x ∈ xs, (p x).out = .ok (g x)) :
    (quantData true p xs true).out = .ok (xs.all (fun x => truthy (g x))) := by
  induction xs with
  | nil => rfl
  | cons x xs ih =>
    have hx := h x List.mem_cons_self
    have ih' := ih (fun y hy => h y (List.mem_cons_of_mem _ hy))
    simp only [quantData, bne_self_eq_false, Bool.false_eq_true, if_false, List.all_cons]
    rw [out_bind_ok hx]
    cases ht : truthy (g x)
    · exact congrArg M.out (quantData_decided true p xs)
    · simpa using ih'

/-- the fold of `some` over data items: true iff the predicate's value is truthy on at least one item -/
theorem some_data (p : Json → M Json) (g : Json → Json) (xs : List Json)
    (h : ∀ x ∈ xs, (p x).out = .ok (g x)) :
    (quantData false p xs false).out = .ok (xs.any (fun x => truthy (g x))) := by
  induction xs with
  | nil => rfl
  | cons x xs ih =>
    have hx := h x List.mem_cons_self
    have ih' := ih (fun y hy => h y (List.mem_cons_of_mem _ hy))
    simp only [quantData, bne_self_eq_false, Bool.false_eq_true, if_false, List.any_cons]
    rw [out_bind_ok hx]
    cases ht : truthy (g x)
    · simpa using ih'
    · exact congrArg M.out (quantData_decided false p xs)

/-- the fold of `all` over the element expressions of a literal array -/
theorem all_lit (p : Json → M Json) (v g : Json → Json) (is : List Json) (d : Json)
    (hv : ∀ i ∈ is, check i = true ∧ (run i d).out = .ok (v i))
    (hp : ∀ i ∈ is, (p (v i)).out = .ok (g i)) :
    (runQuantLit true is p d true).out = .ok (is.all (fun i => truthy (g i))) := by
  induction is with
  | nil => rfl
  | cons x xs ih =>
    have hx := hv x List.mem_cons_self
    have hpx := hp x List.mem_cons_self
    have ih' := ih (fun y hy => hv y (List.mem_cons_of_mem _ hy)) (fun y hy => hp y (List.mem_cons_of_mem _ hy))
    simp only [runQuantLit, bne_self_eq_false, Bool.false_eq_true, if_false, List.all_cons, hx.1, Bool.not_true]
    rw [out_bind_ok hx.2, out_bind_ok hpx]
    cases ht : truthy (g x)
    · exact congrArg M.out (runQuantLit_decided true p xs d)
    · simpa using ih'

theorem some_lit (p : Json → M Json) (v g : Json → Json) (is : List Json) (d : Json)
    (hv : ∀ i ∈ is, check i = true ∧ (run i d).out = .ok (v i))
    (hp : ∀ i ∈ is, (p (v i)).out = .ok (g i)) :
    (runQuantLit false is p d false).out = .ok (is.any (fun i => truthy (g i))) := by
  induction is with
  | nil => rfl
  | cons x xs ih =>
    have hx := hv x List.mem_cons_self
    have hpx := hp x List.mem_cons_self
    have ih' := ih (fun y hy => hv y (List.mem_cons_of_mem _ hy)) (fun y hy => hp y (List.mem_cons_of_mem _ hy))
    simp only [runQuantLit, bne_self_eq_false, Bool.false_eq_true, if_false, List.any_cons, hx.1, Bool.not_true]
    rw [out_bind_ok hx.2, out_bind_ok hpx]
    cases ht : truthy (g x)
    · simpa using ih'
    · exact congrArg M.out (runQuantLit_decided false p xs d)


theorem all_op_lit (xs : List Json) (p d : Json) :
    run (.obj [("all".toList, .arr [.arr xs, p])]) d =
      if xs.isEmpty then pure (.bool false)
      else if !check p then M.err
      else (do let b ← runQuantLit true xs (fun x => run p x) d true; pure (.bool b)) := by
  have hl : lookupOp "all".toList = some (.lazy, .exactly 2) := by decide
  conv => lhs; unfold run
  simp +decide only [hl, if_false, if_true, decide_true]

theorem some_op_lit (xs : List Json) (p d : Json) :
    run (.obj [("some".toList, .arr [.arr xs, p])]) d =
      if xs.isEmpty then pure (.bool false)
      else if !check p then M.err
      else (do let b ← runQuantLit false xs (fun x => run p x) d false; pure (.bool b)) := by
  have hl : lookupOp "some".toList = some (.lazy, .exactly 2) := by decide
  conv => lhs; unfold run
  simp +decide only [hl, if_false, if_true, decide_false]

theorem none_op_lit (xs : List Json) (p d : Json) :
    run (.obj [("none".toList, .arr [.arr xs, p])]) d =
      if xs.isEmpty then pure (.bool true)
      else if !check p then M.err
      else (do let b ← runQuantLit false xs (fun x => run p x) d false; pure (.bool (!b))) := by
  have hl : lookupOp "none".toList = some (.lazy, .exactly 2) := by decide
  conv => lhs; unfold run
  simp +decide only [hl, if_false, if_true, decide_false]
  split
  · rfl
  · split
    · rfl
    · rw [M.bind_assoc]; rfl


/-- a computed collection (an object = an operation or a literal object): it is evaluated, then `quantValue` -/
theorem all_op_obj (kvs : List (Str × Json)) (p d : Json) :
    run (.obj [("all".toList, .arr [.obj kvs, p])]) d =
      if !check (.obj kvs) then M.err
      else (do let cv ← run (.obj kvs) d; quantValue true cv (check p) (fun x => run p x)) := by
  have hl : lookupOp "all".toList = some (.lazy, .exactly 2) := by decide
  conv => lhs; unfold run
  simp +decide only [hl, if_false, if_true, decide_true, isObj]

theorem some_op_obj (kvs : List (Str × Json)) (p d : Json) :
    run (.obj [("some".toList, .arr [.obj kvs, p])]) d =
      if !check (.obj kvs) then M.err
      else (do let cv ← run (.obj kvs) d; quantValue false cv (check p) (fun x => run p x)) := by
  have hl : lookupOp "some".toList = some (.lazy, .exactly 2) := by decide
  conv => lhs; unfold run
  simp +decide only [hl, if_false, if_true, decide_false, isObj]

/-- `all`/`some` on a non-empty computed array: the data fold, i.e. `List.all`/`List.any` of `truthy ∘ predicate` -/
theorem quantValue_all (p : Json → M Json) (g : Json → Json) (x : Json) (xs : List Json)
    (h : ∀ y ∈ x :: xs, (p y).out = .ok (g y)) :
    (quantValue true (.arr (x :: xs)) true p).out = .ok (.bool ((x :: xs).all (fun y => truthy (g y)))) := by
  simp only [quantValue, quantItems, List.isEmpty_cons, Bool.false_eq_true, if_false, Bool.not_true]
  rw [out_bind_ok (all_data p g (x :: xs) h)]
  rfl

theorem quantValue_some (p : Json → M Json) (g : Json → Json) (x : Json) (xs : List Json)
    (h : ∀ y ∈ x :: xs, (p y).out = .ok (g y)) :
    (quantValue false (.arr (x :: xs)) true p).out = .ok (.bool ((x :: xs).any (fun y => truthy (g y)))) := by
  simp only [quantValue, quantItems, List.isEmpty_cons, Bool.false_eq_true, if_false, Bool.not_true]
  rw [out_bind_ok (some_data p g (x :: xs) h)]
  rfl

/-! ## the corner values at every deciding position (closed evaluations of the model: `[]`, `""`, `0`, `-0.0`, `null`
are falsy and `"0"`, `[0]`, `[[]]`, `{}` are truthy in *each* of them) -/
section corners
/-- `{"var": ""}`: the current data item -/
private def it : Json := .obj [("var".toList, .str [])]
private def s (x : String) : Json := .str x.toList
private def negZero : Json := .num (.flt (F64.fin true 0))
private def zero : Json := .num (.pos 0)
private def falsies : List Json := [.null, .bool false, zero, negZero, s "", .arr []]
private def truthies : List Json := [s "0", .arr [zero], .arr [.arr []], .obj [], .bool true, s " "]

example : falsies.all (fun v => truthy v == false) = true ∧ truthies.all truthy = true := by decide +kernel
/-- `if` / `?:` -/
example : (falsies.all fun v => apply (.obj [("if".toList, .arr [v, s "t", s "e"])]) .null == ⟨[], .ok (s "e")⟩) = true := by decide +kernel
example : (truthies.all fun v => apply (.obj [("if".toList, .arr [v, s "t", s "e"])]) .null == ⟨[], .ok (s "t")⟩) = true := by decide +kernel
example : (falsies.all fun v => apply (.obj [("?:".toList, .arr [v, s "t", s "e"])]) .null == ⟨[], .ok (s "e")⟩) = true := by decide +kernel
/-- `or` / `and` -/
example : (falsies.all fun v => apply (.obj [("or".toList, .arr [v, s "x"])]) .null == ⟨[], .ok (s "x")⟩) = true := by decide +kernel
example : (truthies.all fun v => apply (.obj [("or".toList, .arr [v, s "x"])]) .null == ⟨[], .ok v⟩) = true := by decide +kernel
example : (falsies.all fun v => apply (.obj [("and".toList, .arr [v, s "x"])]) .null == ⟨[], .ok v⟩) = true := by decide +kernel
example : (truthies.all fun v => apply (.obj [("and".toList, .arr [v, s "x"])]) .null == ⟨[], .ok (s "x")⟩) = true := by decide +kernel
/-- `filter` keeps exactly the truthy ones -/
example : apply (.obj [("filter".toList, .arr [.arr (falsies ++ truthies), it])]) .null = ⟨[], .ok (.arr truthies)⟩ := by decide +kernel
/-- `all` / `some` / `none` -/
example : apply (.obj [("all".toList, .arr [.arr truthies, it])]) .null = ⟨[], .ok (.bool true)⟩ := by decide +kernel
example : (falsies.all fun v => apply (.obj [("all".toList, .arr [.arr (v :: truthies), it])]) .null == ⟨[], .ok (.bool false)⟩) = true := by decide +kernel
example : apply (.obj [("some".toList, .arr [.arr falsies, it])]) .null = ⟨[], .ok (.bool false)⟩ := by decide +kernel
example : (truthies.all fun v => apply (.obj [("some".toList, .arr [.arr (falsies ++ [v]), it])]) .null == ⟨[], .ok (.bool true)⟩) = true := by decide +kernel
example : apply (.obj [("none".toList, .arr [.arr falsies, it])]) .null = ⟨[], .ok (.bool true)⟩ := by decide +kernel
/-- `!!` / `!` -/
example : (falsies.all fun v => apply (.obj [("!!".toList, .arr [v])]) .null == ⟨[], .ok (.bool false)⟩) = true := by decide +kernel
example : (truthies.all fun v => apply (.obj [("!".toList, .arr [v])]) .null == ⟨[], .ok (.bool false)⟩) = true := by decide +kernel
end corners

end JL.Props.C06
