import JL.Lemmas.Monad
/-!
# C06 — one JsonLogic truthiness table governs every boolean decision
-/
namespace JL.Props.C06
open JL Json

/-- the JsonLogic truthiness table, written from the property: false, null, zero (any spelling, incl. -0),
the empty string and the empty array are falsy; everything else is truthy -/
def jlFalsy : Json → Prop
  | .bool b => b = false
  | .null => True
  | .num n => F64.eq n.toF64 F64.zero = true
  | .str s => s = []
  | .arr xs => xs = []
  | .obj _ => False

/-- the code's `truthy` is the table -/
theorem truthy_table (v : Json) : truthy v = false ↔ jlFalsy v := by
  cases v <;> simp [truthy, jlFalsy]

/-- every object, even `{}`, is truthy; so are non-empty strings and arrays whatever they contain -/
theorem obj_truthy (kvs : List (Str × Json)) : truthy (.obj kvs) = true := rfl
theorem nonempty_str_truthy (c : Char) (s : Str) : truthy (.str (c :: s)) = true := rfl
theorem nonempty_arr_truthy (x : Json) (xs : List Json) : truthy (.arr (x :: xs)) = true := rfl

/-- `!!` returns the boolean of the table and `!` its exact negation (operator level, evaluated operand) -/
theorem bangbang (v : Json) : execEager "!!".toList [v] = ⟨[], .ok (.bool (truthy v))⟩ := by
  simp [execEager]
theorem bang (v : Json) : execEager "!".toList [v] = ⟨[], .ok (.bool (!truthy v))⟩ := by
  simp [execEager]

/-- zero in every spelling is falsy -/
example : truthy (.num (.pos 0)) = false ∧ truthy (.num (.flt (F64.fin true 0))) = false ∧ truthy (.num (.flt (F64.fin false 0))) = false := by decide +kernel
example : truthy (.str "0".toList) = true ∧ truthy (.arr [.num (.pos 0)]) = true ∧ truthy (.arr [.arr []]) = true ∧ truthy (.obj []) = true := by decide

end JL.Props.C06
