import JL.Lemmas.Monad
import JL.Lemmas.C13
import JL.Lemmas.C04
import JL.Lemmas.C04Ref
/-!
# C04 — only rule text is executed: data and computed values are never re-interpreted

By construction: `check`/`run` and every loop of the lazy operators are accepted by Lean as structurally
recursive **on the rule**; no interpretive call receives a value that originates in the data.

Why structural recursion on the rule is the "by construction" half of the property. In `JL/Eval.lean` the
interpreter is ONE mutual block `run / runList / runIf / runOrAnd / runQuantLit`, each with
`termination_by structural` on its *rule* argument (the data `d` is a parameter that is never recursed on).
Lean's structural-recursion checker accepts a recursive call only on a strict sub-term of that argument; hence in
every call `run r' x` reachable from `run r d` the first argument `r'` is a sub-term of the rule text `r`:
* values read from the data (`var`, `missing…`) are produced by `execData`, which is not in the mutual block and
  does not call it;
* values produced by operators (`execEager`) likewise;
* the elements handed to the closures of `map`/`filter`/`reduce`/computed `all`/`some` are passed as the SECOND
  (data) argument of `run e ·`, where `e` is a sub-term of the rule (`mapData`, `filterData`, `reduceData`,
  `quantData` are ordinary recursions over the item list, outside the block; they only call the closure).
So a second interpretation pass over a value cannot even be written in this model without the termination
checker rejecting the definition (that the model is what the crate does is the business of the differential
correspondence check, whose C04 stream seeds the data with operation-shaped marker values). What remains to be *stated* are the consequences below: operands are
evaluated once, in order, and only their values reach the operator (`eager_subst`, `trace_once`, `var_default…`).

`Spec.Ref.eval` (`JL/Spec/Ref.lean`) is the single-pass reference semantics; `ref_equiv` below states the agreement.
-/
namespace JL.Props.C04
open JL Json

/-- `var` returns what lookup finds, else the *already evaluated* default as it is (never interpreted again) -/
theorem var_default (data k dflt : Json) (key : Data.Key) (hk : Data.keyOf k = some key) :
    var data [k, dflt] = ⟨[], .ok ((Data.getKey data key).getD dflt)⟩ := by
  unfold var
  simp only [hk]
  cases h : Data.getKey data key <;> rfl

/-- the elements of a computed collection reach the predicate of `all`/`some`/`none` unchanged: the loop over
them (`quantData`) only ever calls the predicate closure, never the interpreter -/
theorem computed_collection_inert (isAll : Bool) (p : Json → M Json) (x : Json) (xs : List Json) :
    quantData isAll p (x :: xs) isAll = (p x >>= fun r => quantData isAll p xs (truthy r)) := by
  simp [quantData]

/-- likewise for `map`: each element is handed to the closure as it is -/
theorem map_elements_inert (f : Json → M Json) (x : Json) (xs : List Json) :
    mapData f (x :: xs) = (f x >>= fun y => mapData f xs >>= fun ys => pure (y :: ys)) := rfl

/-! ## eager and data operations: operands once, left to right, then a function of the *values* -/

/-- an eager operation is: evaluate the operand list (bracketed, or the one bare operand) left to right, then apply
the operator's function `execEager k` — a function of the evaluated values only -/
theorem eager_unfold (k : Str) (ar : Arity) (v d : Json) (hk : lookupOp k = some (.eager, ar)) :
    run (.obj [(k, v)]) d = (runList (operands v) d >>= execEager k) := run_eager k ar v d hk

/-- a data operation: the same with `execData k d` — a function of the data and of the evaluated values -/
theorem data_unfold (k : Str) (ar : Arity) (v d : Json) (hk : lookupOp k = some (.data, ar)) :
    run (.obj [(k, v)]) d = (runList (operands v) d >>= execData k d) := run_data k ar v d hk

/-- operand evaluation is left to right, each operand once: it is the in-order monadic map of "evaluate on `d`" -/
theorem operands_in_order (as : List Json) (d : Json) : runList as d = as.mapM (fun a => run a d) := by
  rw [runList_eq_mapData, mapData_eq_mapM]

/-- successful operand evaluation, completely: value `i` is the value of operand `i`; the trace is the
concatenation of the operands' traces in order -/
theorem operands_ok_iff (as : List Json) (d : Json) (l vs : List Json) :
    runList as d = ⟨l, .ok vs⟩ ↔
      as.map (fun a => (run a d).out) = vs.map Out.ok ∧ l = as.flatMap (fun a => (run a d).logs) := by
  rw [runList_eq_mapData]; exact mapData_ok_iff _ _ _ _

/-- the value of an eager operation is the operator's function on the operand values -/
theorem eager_value (k : Str) (ar : Arity) (as : List Json) (d : Json) (l vs : List Json)
    (hk : lookupOp k = some (.eager, ar)) (hr : runList as d = ⟨l, .ok vs⟩) :
    run (.obj [(k, .arr as)]) d = ⟨l ++ (execEager k vs).logs, (execEager k vs).out⟩ := by
  rw [run_eager k ar _ d hk]
  show (runList as d >>= execEager k) = _
  rw [hr]; rfl

/-- the operation on references `{"var":0} … {"var":n-1}` into the array of precomputed values is exactly the
operator's function on those values -/
theorem eager_on_values (k : Str) (ar : Arity) (vs : List Json)
    (hk : lookupOp k = some (.eager, ar)) (hn : vs.length ≤ 2^63) :
    run (.obj [(k, .arr (varRules vs.length))]) (.arr vs) = execEager k vs := by
  rw [run_eager k ar _ _ hk]
  show (runList (varRules vs.length) (.arr vs) >>= execEager k) = _
  rw [runList_varRules vs hn]
  simp [M.mk_eta]

/-- **Substitution (evaluation phase).** Replacing every operand of an eager operator by a reference to its
precomputed value does not change the result; the traces differ exactly by the operands' trace `l`
(the references have none). `vs.length ≤ 2^63`: positions are `i64` keys of `var`. -/
theorem eager_subst (k : Str) (ar : Arity) (as : List Json) (d : Json) (l vs : List Json)
    (hk : lookupOp k = some (.eager, ar)) (hr : runList as d = ⟨l, .ok vs⟩) (hn : vs.length ≤ 2^63) :
    (run (.obj [(k, .arr as)]) d).out = (run (.obj [(k, .arr (varRules vs.length))]) (.arr vs)).out ∧
    (run (.obj [(k, .arr as)]) d).logs = l ++ (run (.obj [(k, .arr (varRules vs.length))]) (.arr vs)).logs := by
  rw [eager_value k ar as d l vs hk hr, eager_on_values k ar vs hk hn]
  exact ⟨rfl, rfl⟩

/-- **Substitution at the public entry point, parse phase included**, with the operand list checked. -/
theorem eager_subst_apply (k : Str) (ar : Arity) (as : List Json) (d : Json) (l vs : List Json)
    (hk : lookupOp k = some (.eager, ar)) (hc : checkList as = true) (hr : runList as d = ⟨l, .ok vs⟩)
    (hn : vs.length ≤ 2^63) :
    (apply (.obj [(k, .arr as)]) d).out = (apply (.obj [(k, .arr (varRules vs.length))]) (.arr vs)).out := by
  have hlen : vs.length = as.length := runList_length as d l vs hr
  unfold apply
  rw [check_strict_arr k .eager ar as hk (by decide), check_strict_arr k .eager ar _ hk (by decide),
    hc, checkList_varRules, varRules_length, hlen]
  cases ar.isValidLen as.length with
  | false => rfl
  | true =>
    simp only [Bool.and_self, if_true]
    rw [← hlen]
    exact (eager_subst k ar as d l vs hk hr hn).1

/-- **The quantifier text of the property, verbatim**: for every eager operator `k`, operand expressions `a₁..aₙ`
and data `d`, if `apply(aᵢ, d) = vᵢ` then
`apply({k:[a₁..aₙ]}, d) = apply({k:[{"var":0}..{"var":n-1}]}, [v₁..vₙ])` (values; outcomes included). -/
theorem eager_subst_verbatim (k : Str) (ar : Arity) (as vs : List Json) (d : Json)
    (hk : lookupOp k = some (.eager, ar))
    (hvals : as.map (fun a => (apply a d).out) = vs.map Out.ok) (hn : vs.length ≤ 2^63) :
    (apply (.obj [(k, .arr as)]) d).out = (apply (.obj [(k, .arr (varRules vs.length))]) (.arr vs)).out := by
  obtain ⟨hc, hr⟩ := runList_of_apply_vals as vs d hvals
  exact eager_subst_apply k ar as d _ vs hk hc hr hn

/-- a failing operand decides: the operation's outcome is that error, the operator's function is not applied,
later operands are not evaluated (trace = operands up to and including the failing one) -/
theorem eager_first_error (k : Str) (ar : Arity) (pre post : List Json) (x d : Json)
    (hk : lookupOp k = some (.eager, ar))
    (hpre : ∀ p ∈ pre, ∃ y, (run p d).out = .ok y) (hx : (run x d).out = .err) :
    run (.obj [(k, .arr (pre ++ x :: post))]) d = ⟨(pre ++ [x]).flatMap (fun a => (run a d).logs), .err⟩ := by
  rw [run_eager k ar _ d hk]
  show (runList (pre ++ x :: post) d >>= execEager k) = _
  rw [runList_eq_mapData, mapData_first_err _ pre post x hpre hx]
  rfl

/-! ## trace: every operand exactly once, in order, then the operator's own line -/

/-- the trace of operand evaluation, step by step -/
theorem operands_trace_cons (x : Json) (xs : List Json) (d : Json) (l vs : List Json)
    (h : runList (x :: xs) d = ⟨l, .ok vs⟩) :
    l = (run x d).logs ++ (runList xs d).logs := by
  rw [runList_cons] at h
  obtain ⟨l₁, v, l₂, h1, h2, h3⟩ := M.bind_eq_ok.mp h
  obtain ⟨l₃, ws, l₄, h4, h5, h6⟩ := M.bind_eq_ok.mp h2
  obtain ⟨h7, _⟩ := M.pure_eq_ok.mp h5
  rw [h3, h6, h7, h1, h4]; simp

/-- **trace_once (eager).** The trace of a successful-operand eager operation is the concatenation, in order, of the
traces of its operands — each exactly once — followed by the operator's own trace, which is empty except for
`log` (one line: the operand's value). -/
theorem trace_once_eager (k : Str) (ar : Arity) (v d : Json) (l vs : List Json)
    (hk : lookupOp k = some (.eager, ar)) (hr : runList (operands v) d = ⟨l, .ok vs⟩) :
    (run (.obj [(k, v)]) d).logs = (operands v).flatMap (fun a => (run a d).logs) ++ ownTrace k vs := by
  rw [run_eager k ar v d hk, hr]
  show l ++ (execEager k vs).logs = _
  rw [execEager_logs, ((operands_ok_iff _ _ _ _).mp hr).2]

/-- **trace_once (data).** `var`, `missing`, `missing_some` add nothing of their own. -/
theorem trace_once_data (k : Str) (ar : Arity) (v d : Json) (l vs : List Json)
    (hk : lookupOp k = some (.data, ar)) (hr : runList (operands v) d = ⟨l, .ok vs⟩) :
    (run (.obj [(k, v)]) d).logs = (operands v).flatMap (fun a => (run a d).logs) := by
  rw [run_data k ar v d hk, hr]
  show l ++ (execData k d vs).logs = _
  rw [execData_logs, ((operands_ok_iff _ _ _ _).mp hr).2]; simp

/-- the own trace of `log` is its operand's value, once; every other eager operator has none -/
theorem own_trace_log (a : Json) (rest : List Json) : ownTrace "log".toList (a :: rest) = [a] := rfl
theorem own_trace_other (k : Str) (vs : List Json) (h : k ≠ "log".toList) : ownTrace k vs = [] := by
  unfold ownTrace; rw [if_neg h]

/-! ## the default of `var` -/

/-- the default is an operand of the data operator `var`: it is evaluated exactly once, as part of the operand
list (after the key, whether or not it will be needed), and `var` then only sees its value -/
theorem var_default_once (k dflt d : Json) :
    run (.obj [("var".toList, .arr [k, dflt])]) d = (do let vs ← runList [k, dflt] d; var d vs) := by
  rw [run_data "var".toList _ _ d lookup_var]
  rfl

theorem var_default_once' (k dflt d : Json) :
    run (.obj [("var".toList, .arr [k, dflt])]) d =
      (do let kv ← run k d; let dv ← run dflt d; var d [kv, dv]) := by
  rw [var_default_once, runList_cons, runList_cons, runList_nil]
  simp

/-- the value: what lookup finds, else the default's *value* as it is; trace = key's, then default's -/
theorem var_default_value (k dflt d : Json) (lk ld : List Json) (kv dv : Json) (key : Data.Key)
    (hkv : run k d = ⟨lk, .ok kv⟩) (hdv : run dflt d = ⟨ld, .ok dv⟩) (hkey : Data.keyOf kv = some key) :
    run (.obj [("var".toList, .arr [k, dflt])]) d = ⟨lk ++ ld, .ok ((Data.getKey d key).getD dv)⟩ := by
  rw [var_default_once', hkv, M.bind_ok, hdv]
  simp only [M.bind_ok]
  rw [var_default d kv dv key hkey]
  simp

/-! ## agreement with the single-pass reference semantics -/

/-- the reference semantics `Spec.Ref.eval` (one pass over the rule, no parse phase, textbook definitions of the lazy
operators, `JL/Spec/Ref.lean`) is exactly the successful part of the two-phase model, for every rule and data -/
theorem ref_agree (r d : Json) : Spec.Ref.eval r d = Spec.Ref.R.ofM (apply r d) :=
  JL.Lemmas.C04Ref.eval_eq_ofM_apply r d

/-- **ref_equiv.** `apply r d` succeeds with value `v` and trace `l` iff the single-pass reference semantics derives
`r ⇓ (v, l)` on `d` — for all rules and all data, whatever operation-shaped values the data contains. -/
theorem ref_equiv (r d : Json) (l : List Json) (v : Json) :
    apply r d = ⟨l, .ok v⟩ ↔ Spec.Ref.eval r d = Spec.Ref.R.val v l := by
  rw [ref_agree]; exact (JL.Lemmas.C04Ref.ofM_eq_val _ v l).symm

/-- and the reference semantics has no result exactly when the model ends in an error or a panic -/
theorem ref_fail_iff (r d : Json) :
    Spec.Ref.eval r d = Spec.Ref.R.fail ↔ ∀ v, (apply r d).out ≠ .ok v := by
  rw [ref_agree]
  cases h : apply r d with | mk l o =>
  cases o with
  | ok a =>
    constructor
    · intro h'; cases h'
    · intro h'; exact absurd rfl (h' a)
  | err =>
    constructor
    · intro _ v hv; cases hv
    · intro _; rfl
  | panic =>
    constructor
    · intro _ v hv; cases hv
    · intro _; rfl

/-! ## non-vacuity -/

-- the reference semantics on marker data: the operation-shaped value read by `var` is returned, not run
example : Spec.Ref.eval (.obj [("var".toList, .str "d".toList)])
    (.obj [("d".toList, .obj [("log".toList, .str "LEAK".toList)])]) =
    Spec.Ref.R.val (.obj [("log".toList, .str "LEAK".toList)]) [] := by decide +kernel

-- … and on a rule using lazy, eager and data operators with a trace
example : Spec.Ref.eval (.obj [("if".toList, .arr [.obj [("some".toList, .arr [.obj [("var".toList, .str "xs".toList)],
      .obj [("log".toList, .obj [("var".toList, .str [])])]])], .str "yes".toList, .str "no".toList])])
    (.obj [("xs".toList, .arr [.num (.pos 0), .num (.pos 7), .num (.pos 9)])]) =
    Spec.Ref.R.val (.str "yes".toList) [.num (.pos 0), .num (.pos 7)] := by decide +kernel

-- a default that looks like an operation, read from the data, is returned as it is
example : apply (.obj [("var".toList, .arr [.str "zz".toList, .obj [("var".toList, .str "d".toList)]])])
    (.obj [("d".toList, .obj [("var".toList, .str "secret".toList)]), ("secret".toList, .num (.pos 42))])
    = ⟨[], .ok (.obj [("var".toList, .str "secret".toList)])⟩ := by decide +kernel

-- hypotheses of `eager_subst`/`eager_subst_apply` on a concrete eager operation with logging operands
example : lookupOp "cat".toList = some (.eager, .any) ∧
    checkList [.obj [("log".toList, .str "a".toList)], .obj [("var".toList, .str "x".toList)]] = true ∧
    runList [.obj [("log".toList, .str "a".toList)], .obj [("var".toList, .str "x".toList)]]
      (.obj [("x".toList, .obj [("log".toList, .str "LEAK".toList)])]) =
      ⟨[.str "a".toList], .ok [.str "a".toList, .obj [("log".toList, .str "LEAK".toList)]]⟩ ∧
    ([.str "a".toList, .obj [("log".toList, .str "LEAK".toList)]] : List Json).length ≤ 2^63 := by decide +kernel

-- and both sides of the law on it (the operation-shaped operand value is not interpreted on either side)
example : (apply (.obj [("cat".toList, .arr [.obj [("log".toList, .str "a".toList)], .obj [("var".toList, .str "x".toList)]])])
      (.obj [("x".toList, .obj [("log".toList, .str "LEAK".toList)])])).out =
    (apply (.obj [("cat".toList, .arr (varRules 2))]) (.arr [.str "a".toList, .obj [("log".toList, .str "LEAK".toList)]])).out := by
  decide +kernel

example : varRules 2 = [.obj [("var".toList, .num (.pos 0))], .obj [("var".toList, .num (.pos 1))]] := by decide +kernel

-- hypothesis of `eager_subst_verbatim`
example : ([.obj [("+".toList, .arr [.num (.pos 1), .num (.pos 2)])], .str "x".toList] : List Json).map (fun a => (apply a .null).out) =
    ([.num (.pos 3), .str "x".toList] : List Json).map Out.ok := by decide +kernel

-- hypotheses of `eager_first_error`: a succeeding operand with a trace, then a failing one; the third is not evaluated
example : (∃ y, (run (.obj [("log".toList, .str "a".toList)]) .null).out = .ok y) ∧
    (run (.obj [("+".toList, .arr [.obj []])]) .null).out = .err ∧
    apply (.obj [("cat".toList, .arr [.obj [("log".toList, .str "a".toList)], .obj [("+".toList, .arr [.obj []])],
      .obj [("log".toList, .str "c".toList)]])]) .null = ⟨[.str "a".toList], .err⟩ :=
  ⟨⟨.str "a".toList, by decide +kernel⟩, by decide +kernel, by decide +kernel⟩

-- `trace_once`: two logging operands, then `log`'s own line
example : apply (.obj [("log".toList, .arr [.obj [("cat".toList, .arr [.obj [("log".toList, .str "a".toList)], .obj [("log".toList, .str "b".toList)]])]])]) .null
    = ⟨[.str "a".toList, .str "b".toList, .str "ab".toList], .ok (.str "ab".toList)⟩ := by decide +kernel

-- the default of `var` is evaluated (once) even when the key is present
example : apply (.obj [("var".toList, .arr [.str "k".toList, .obj [("log".toList, .str "dflt".toList)]])])
    (.obj [("k".toList, .num (.pos 1))]) = ⟨[.str "dflt".toList], .ok (.num (.pos 1))⟩ := by decide +kernel

end JL.Props.C04
