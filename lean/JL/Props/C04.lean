import JL.Lemmas.Monad
/-!
# C04 — only rule text is executed: data and computed values are never re-interpreted

By construction: `check`/`run` and every loop of the lazy operators are accepted by Lean as structurally
recursive **on the rule**; no interpretive call receives a value that originates in the data.
-/
namespace JL.Props.C04
open JL Json

/-- `var` returns what lookup finds, else the *already evaluated* default as it is (never interpreted again) -/
theorem var_default (data k dflt : Json) (key : Data.Key) (hk : Data.keyOf k = some key) :
    var data [k, dflt] = ⟨[], .ok ((Data.getKey data key).getD dflt)⟩ := by
  unfold var
  simp only [hk]
  cases h : Data.getKey data key <;> rfl

/-- the elements of a computed collection reach the predicate of `all`/`some`/`none` unchanged: the loop over
them (`quantData`) only ever calls the predicate closure, never the interpreter -/
theorem computed_collection_inert (isAll : Bool) (p : Json → M Json) (x : Json) (xs : List Json) :
    quantData isAll p (x :: xs) isAll = (p x >>= fun r => quantData isAll p xs (truthy r)) := by
  simp [quantData]

/-- likewise for `map`: each element is handed to the closure as it is -/
theorem map_elements_inert (f : Json → M Json) (x : Json) (xs : List Json) :
    mapData f (x :: xs) = (f x >>= fun y => mapData f xs >>= fun ys => pure (y :: ys)) := rfl

example : apply (.obj [("var".toList, .arr [.str "zz".toList, .obj [("var".toList, .str "d".toList)]])])
    (.obj [("d".toList, .obj [("var".toList, .str "secret".toList)]), ("secret".toList, .num (.pos 42))])
    = ⟨[], .ok (.obj [("var".toList, .str "secret".toList)])⟩ := by decide +kernel

end JL.Props.C04
