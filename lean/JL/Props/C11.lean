import JL.Lemmas.Monad
import JL.Lemmas.C11
/-!
# C11 — `var` resolves paths through objects, arrays and strings; absent means default

Specification-side definitions (`split`, `rawSegs`, `Plain`, `Indexable`, `agreeOnPath`, `keyPath`, `wholeData`)
are in `JL/Spec/Path.lean`; helper lemmas in `JL/Lemmas/C11.lean`.
-/
namespace JL.Props.C11
open JL Json Data JL.Spec.Path JL.Lemmas.C11

/-! ## path splitting -/

/-- **`split_spec`.** The accumulator loop `split_with_escape` equals the recursive splitter of the
specification (a backslash makes the next character literal, unescaped delimiters separate segments, a
trailing empty segment and a trailing lone backslash are dropped) — for every input and every delimiter. -/
theorem split_spec (input : Str) (delim : Char) : splitWithEscape input delim = split input delim :=
  splitWithEscape_eq_split input delim

example : splitWithEscape "a\\.b.c".toList '.' = ["a.b".toList, "c".toList] := by decide
example : split "a\\.b.c".toList '.' = ["a.b".toList, "c".toList] := by decide
example : split "a..b.".toList '.' = ["a".toList, [], "b".toList] := by decide
example : split "a.b\\".toList '.' = ["a".toList, "b".toList] := by decide
example : split "\\".toList '.' = [] := by decide

/-- a segment without `.` and `\` is its own split -/
theorem split_plain_segment (s : Str) (h : Plain s) (hne : s ≠ []) : splitWithEscape s '.' = [s] := by
  rw [split_spec, split_plain s h]; simp [hne]

/-- dotted paths of plain non-empty segments split into exactly those segments -/
theorem split_join (ps : List Str) (hne : ps ≠ []) (h : ∀ s ∈ ps, Plain s ∧ s ≠ []) :
    splitWithEscape (joinWith ['.'] ps) '.' = ps := by
  rw [split_spec, split_joinWith ps hne h]

example : (∀ s ∈ ["a".toList, "0".toList, "-1".toList], Plain s ∧ s ≠ []) := by decide

/-! ## indexing, negative indices from the end -/

/-- non-negative index -/
theorem get_nonneg {α : Type} (xs : List α) (i : Nat) : Data.get xs (i : Int) = xs[i]? := by
  simp [Data.get]

/-- negative indices count from the end, for **every** integer (no bound; also `i64::MIN`) -/
theorem get_neg {α : Type} (xs : List α) (i : Nat) (hi : 1 ≤ i) :
    Data.get xs (-(i : Int)) = if i ≤ xs.length then xs[xs.length - i]? else none := by
  unfold Data.get
  have h1 : ¬ (-(i : Int) ≥ 0) := by omega
  have h2 : (-(i : Int)).natAbs = i := by omega
  simp [h2]
  intro h0; omega

/-- **`get_spec`**: the full case analysis, for every integer -/
theorem get_spec {α : Type} (xs : List α) (i : Int) :
    Data.get xs i = (if 0 ≤ i then xs[i.toNat]?
                     else if i.natAbs ≤ xs.length then xs[xs.length - i.natAbs]? else none) := by
  simp [Data.get]

/-- for `-len ≤ i < 0` the result is the element `len + i`; nothing below `-len`; nothing at or above `len` -/
theorem get_from_end {α : Type} (xs : List α) (i : Int) (h1 : -(xs.length : Int) ≤ i) (h2 : i < 0) :
    Data.get xs i = xs[(xs.length + i).toNat]? := by
  rw [get_spec]
  have : ¬ (0 ≤ i) := by omega
  have h3 : i.natAbs ≤ xs.length := by omega
  have h4 : xs.length - i.natAbs = ((xs.length : Int) + i).toNat := by omega
  simp [this, h3, h4]

theorem get_from_end_some {α : Type} (xs : List α) (i : Int) (h1 : -(xs.length : Int) ≤ i) (h2 : i < 0) :
    ∃ x, Data.get xs i = some x ∧ xs[(xs.length + i).toNat]? = some x := by
  rw [get_from_end xs i h1 h2]
  have : ((xs.length : Int) + i).toNat < xs.length := by omega
  exact ⟨xs[((xs.length : Int) + i).toNat], by simp [this], by simp [this]⟩

theorem get_below {α : Type} (xs : List α) (i : Int) (h : i < -(xs.length : Int)) : Data.get xs i = none := by
  rw [get_spec]
  have : ¬ (0 ≤ i) := by omega
  have h3 : ¬ i.natAbs ≤ xs.length := by omega
  simp [this, h3]

theorem get_above {α : Type} (xs : List α) (i : Int) (h : (xs.length : Int) ≤ i) : Data.get xs i = none := by
  rw [get_spec]
  have : 0 ≤ i := by omega
  simp [this]
  exact h

/-- in particular at `i64::MIN` -/
example : Data.get [1, 2, 3] (-(2 ^ 63 : Int)) = none := by decide +kernel
example : Data.get [1, 2, 3] (-3) = some 1 ∧ Data.get [1, 2, 3] (-1) = some 3 ∧ Data.get [1, 2, 3] (-4) = none := by
  decide +kernel

/-! ## one step of the descent -/

/-- through an object: key lookup -/
theorem step_obj (kvs : List (Str × Json)) (seg : Str) : step (.obj kvs) seg = lookup seg kvs := rfl

/-- through an array: `parse::<i64>` of the segment, then `get` -/
theorem step_arr (xs : List Json) (seg : Str) : step (.arr xs) seg = (parseI64 seg).bind (Data.get xs) := by
  simp only [step]; cases parseI64 seg <;> rfl

/-- through a string: `parse::<i64>` of the segment, then `get` on the `Char`s; the result is a one-character string -/
theorem step_str (s : Str) (seg : Str) :
    step (.str s) seg = (parseI64 seg).bind (fun i => (Data.get s i).map (fun c => .str [c])) := by
  simp only [step]; cases parseI64 seg <;> rfl

/-- nothing can be reached through `null`, booleans and numbers -/
theorem step_scalar (d : Json) (seg : Str) (h : ¬ Indexable d) : step d seg = none :=
  step_not_indexable d seg h

/-- the segment text read as an index is exact: the decimal text of every `i64` is read back -/
theorem parse_index (i : Int) (hlo : -(2 ^ 63 : Int) ≤ i) (hhi : i < 2 ^ 63) : parseI64 (intToStr i) = some i :=
  parseI64_intToStr i hlo hhi

/-- multi-byte characters: indexing is by `Char`, not by byte -/
example : step (.str "aé€𝄞".toList) "-1".toList = some (.str "𝄞".toList) ∧
          step (.str "aé€𝄞".toList) "2".toList = some (.str "€".toList) := by decide +kernel

/-! ## composition of paths -/

/-- **`walk_append`.** Walking a concatenated segment list is walking the first, then the second. -/
theorem walk_append (p q : List Str) (d : Json) : walk (p ++ q) d = (walk p d).bind (walk q) :=
  JL.Lemmas.C11.walk_append p q d

/-- `get_str_key` in one formula: the whole data for the empty key, else `walk` along the split key, and
only objects, arrays and strings can be entered -/
theorem getStrKey_spec (d : Json) (k : Str) :
    getStrKey d k = if k = [] then some d else if Indexable d then walk (split k '.') d else none :=
  getStrKey_eq d k

/-- **`path_compose`, string level, general form.** If `p` does not end inside an escape and its last raw
segment is not empty, and `q` is not the lone backslash, then looking up `p.q` is looking up `p` and then `q`
in the result. No condition on `d` or on the intermediate value is needed. -/
theorem path_compose_general (d : Json) (p q : Str) (hp1 : endsEscaped p = false)
    (hp2 : (rawSegs '.' p).getLast? ≠ some []) (hq : q ≠ ['\\']) :
    getStrKey d (p ++ '.' :: q) = (getStrKey d p).bind (fun v => getStrKey v q) :=
  getStrKey_compose d p q hp1 hp2 hq

/-- **`path_compose`** for segments (or dotted paths) without escapes: the exact side condition is `p ≠ ""`.
`q` may be empty (`"a."` = `"a"`), `d` and the intermediate value may be scalars (both sides are then `none`).

Counterexamples to naive versions (all checked below):
* `p = ""`: `".a"` has segments `["", "a"]`, it looks up the key `""` first, whereas `getStrKey d ""` is `d`;
* `p = "a."` (ends in an unescaped dot): `"a..b"` has segments `["a", "", "b"]` but `"a."` alone drops the trailing empty segment;
* `p = "a\"` (ends inside an escape): the joining dot becomes a literal;
* `q = "\"`: `"a.\"` is the path `["a"]` and yields a scalar child, while the lone `\` on a scalar is a
  non-empty key on a non-container and yields nothing. -/
theorem path_compose (d : Json) (p q : Str) (hp : Plain p) (hne : p ≠ []) (hq : Plain q) :
    getStrKey d (p ++ '.' :: q) = (getStrKey d p).bind (fun v => getStrKey v q) := by
  apply path_compose_general d p q (endsEscaped_plain p hp)
  · rw [rawSegs_plain p hp]; simpa using hne
  · exact plain_ne_backslash q hq

example : Plain "ab".toList ∧ "ab".toList ≠ [] ∧ Plain "-1".toList := by decide
-- p = "" fails
example : let d := Json.obj [("a".toList, .num (.pos 1))]
    getStrKey d ("".toList ++ '.' :: "a".toList) = none ∧
    (getStrKey d "".toList).bind (fun v => getStrKey v "a".toList) = some (.num (.pos 1)) := by decide +kernel
-- p ending in an unescaped dot fails
example : let d := Json.obj [("a".toList, .obj [("b".toList, .num (.pos 1))])]
    getStrKey d ("a.".toList ++ '.' :: "b".toList) = none ∧
    (getStrKey d "a.".toList).bind (fun v => getStrKey v "b".toList) = some (.num (.pos 1)) := by decide +kernel
-- p ending inside an escape fails
example : let d := Json.obj [("a".toList, .obj [("b".toList, .num (.pos 1))])]
    getStrKey d ("a\\".toList ++ '.' :: "b".toList) = none ∧
    (getStrKey d "a\\".toList).bind (fun v => getStrKey v "b".toList) = some (.num (.pos 1)) := by decide +kernel
-- q = "\" fails
example : let d := Json.obj [("a".toList, .num (.pos 1))]
    getStrKey d ("a".toList ++ '.' :: "\\".toList) = some (.num (.pos 1)) ∧
    (getStrKey d "a".toList).bind (fun v => getStrKey v "\\".toList) = none := by decide +kernel

/-- a dotted path of plain non-empty segments walks exactly those segments -/
theorem dotted_path (d : Json) (ps : List Str) (hne : ps ≠ []) (h : ∀ s ∈ ps, Plain s ∧ s ≠ []) :
    getStrKey d (joinWith ['.'] ps) = if Indexable d then walk ps d else none := by
  rw [getStrKey_spec, split_joinWith ps hne h]
  simp [joinWith_ne_nil ps hne (fun s hs => (h s hs).2)]

/-! ## integer keys -/

/-- **`int_key`** on an object: the key is the decimal text of the integer -/
theorem int_key_obj (kvs : List (Str × Json)) (i : Int) :
    getKey (.obj kvs) (.number i) = lookup (intToStr i) kvs := by
  simp [getKey, getStrKey, intToStr_ne_nil, split_intToStr, walk_single, step]

/-- the fact `int_key_obj` rests on: the decimal text contains no dot and no backslash -/
theorem int_text_single_segment (i : Int) : splitWithEscape (intToStr i) '.' = [intToStr i] := split_intToStr i

/-- on an array: the index -/
theorem int_key_arr (xs : List Json) (i : Int) : getKey (.arr xs) (.number i) = Data.get xs i := rfl

/-- on a string: the index, by `Char` -/
theorem int_key_str (s : Str) (i : Int) :
    getKey (.str s) (.number i) = (Data.get s i).map (fun c => .str [c]) := rfl

theorem int_key_scalar (d : Json) (i : Int) (h : ¬ Indexable d) : getKey d (.number i) = none := by
  cases d <;> simp_all [getKey, Indexable]

/-- an `i64` key and the string key of its decimal text are the same key, on every data value -/
theorem int_key_is_text_key (d : Json) (i : Int) (hlo : -(2 ^ 63 : Int) ≤ i) (hhi : i < 2 ^ 63) :
    getKey d (.number i) = getKey d (.string (intToStr i)) :=
  getKey_number_eq d i hlo hhi

example : getKey (.obj [("-7".toList, .bool true)]) (.number (-7)) = some (.bool true) := by decide +kernel

/-! ## the whole data -/

/-- null, the empty string and the operand-less form return the entire data -/
theorem whole_data_null (d : Json) : getKey d .null = some d := rfl
theorem whole_data_empty (d : Json) : getKey d (.string []) = some d := rfl
theorem whole_data_noargs (d : Json) : var d [] = ⟨[], .ok d⟩ := rfl

theorem whole_data (d : Json) : var d [] = ⟨[], .ok d⟩ ∧ (∀ rest, var d (.null :: rest) = ⟨[], .ok d⟩) ∧
    (∀ rest, var d (.str [] :: rest) = ⟨[], .ok d⟩) := by
  refine ⟨rfl, fun _ => rfl, fun _ => rfl⟩

/-! ## defaults -/

/-- a value that is present — even null — is returned in preference to the default -/
theorem present_wins (d k dflt v : Json) (key : Key) (hk : keyOf k = some key) (hv : getKey d key = some v) :
    var d [k, dflt] = ⟨[], .ok v⟩ := by
  unfold var; simp [hk, hv]

theorem absent_default (d k dflt : Json) (key : Key) (hk : keyOf k = some key) (hv : getKey d key = none) :
    var d [k, dflt] = ⟨[], .ok dflt⟩ ∧ var d [k] = ⟨[], .ok .null⟩ := by
  unfold var; simp [hk, hv]

/-- **`default_law`** (any number of operands: the default is the second operand, else null; further operands are ignored) -/
theorem default_law_general (d k : Json) (rest : List Json) (key : Key) (hk : keyOf k = some key) :
    var d (k :: rest) = ⟨[], .ok ((getKey d key).getD (rest.head?.getD .null))⟩ := by
  unfold var; simp only [hk]
  cases getKey d key <;> cases rest <;> rfl

theorem default_law (d k dflt : Json) (key : Key) (hk : keyOf k = some key) :
    var d [k, dflt] = ⟨[], .ok ((getKey d key).getD dflt)⟩ :=
  default_law_general d k [dflt] key hk

theorem default_null (d k : Json) (key : Key) (hk : keyOf k = some key) :
    var d [k] = ⟨[], .ok ((getKey d key).getD .null)⟩ :=
  default_law_general d k [] key hk

/-- present null beats the default -/
example : var (.obj [("a".toList, .null)]) [.str "a".toList, .num (.pos 5)] = ⟨[], .ok .null⟩ := by decide +kernel
example : var (.obj [("a".toList, .null)]) [.str "b".toList, .num (.pos 5)] = ⟨[], .ok (.num (.pos 5))⟩ := by decide +kernel

/-! ## bad keys -/

/-- **`var_bad_key`**: an operand that is not null, a string or an integer representable as `i64` is an error,
whatever the data and the default -/
theorem var_bad_key (d k : Json) (rest : List Json) (hk : keyOf k = none) : var d (k :: rest) = ⟨[], .err⟩ := by
  unfold var; simp [hk]

/-- exactly these operands are bad keys -/
theorem bad_key_iff (k : Json) :
    keyOf k = none ↔ (∃ b, k = .bool b) ∨ (∃ xs, k = .arr xs) ∨ (∃ kvs, k = .obj kvs) ∨ (∃ n, k = .num n ∧ n.asI64 = none) :=
  keyOf_eq_none k

/-- and `var` fails only for them: with a good key it always returns a value -/
theorem var_ok_iff (d k : Json) (rest : List Json) : (∃ v, var d (k :: rest) = ⟨[], .ok v⟩) ↔ keyOf k ≠ none := by
  cases hk : keyOf k with
  | none => simp [var_bad_key d k rest hk]
  | some key => simp [default_law_general d k rest key hk]

example : keyOf (.num (.pos (2 ^ 63))) = none ∧ keyOf (.num (.flt F64.zero)) = none ∧ keyOf (.bool true) = none := by
  decide +kernel

/-! ## the lookup as a walk, and the frame property -/

/-- `get_key` is: the whole data for null / `""`, otherwise `walk` along the segments the key denotes, and only
containers can be entered. (`hk`: an integer key is an `i64`, which `keyOf` guarantees for well-formed numbers.) -/
theorem getKey_spec (d : Json) (key : Key) (hk : ∀ i, key = .number i → -(2 ^ 63 : Int) ≤ i ∧ i < 2 ^ 63) :
    getKey d key = if wholeData key then some d else if Indexable d then walk (keyPath key) d else none :=
  getKey_eq_walk d key hk

/-- the hypothesis `hk` holds for every key obtained from a well-formed JSON value -/
theorem key_in_range (k : Json) (hwf : k.wf = true) (key : Key) (h : keyOf k = some key) :
    ∀ i, key = .number i → -(2 ^ 63 : Int) ≤ i ∧ i < 2 ^ 63 :=
  keyOf_range k hwf key h

/-- **`frame`** for segment lists: trees that agree along the path give the same result -/
theorem frame_walk (segs : List Str) (d d' : Json) (h : agreeOnPath segs d d') : walk segs d = walk segs d' :=
  walk_frame segs d d' h

/-- **`frame`** for `get_key` -/
theorem frame_getKey (key : Key) (hk : ∀ i, key = .number i → -(2 ^ 63 : Int) ≤ i ∧ i < 2 ^ 63)
    (d d' : Json) (h : agreeOnPath (keyPath key) d d') : getKey d key = getKey d' key :=
  getKey_frame key hk d d' h

/-- **`frame`** for `var`: parts of the data not named by the path never influence the result
(value found, default taken, or error) -/
theorem frame (k : Json) (hwf : k.wf = true) (rest : List Json) (d d' : Json)
    (h : ∀ key, keyOf k = some key → agreeOnPath (keyPath key) d d') :
    var d (k :: rest) = var d' (k :: rest) := by
  cases hk : keyOf k with
  | none => rw [var_bad_key d k rest hk, var_bad_key d' k rest hk]
  | some key =>
    rw [default_law_general d k rest key hk, default_law_general d' k rest key hk,
      frame_getKey key (key_in_range k hwf key hk) d d' (h key hk)]

/-- two different trees that agree on the path `a.1` (other keys, other elements and the kind of the other
values all differ) -/
example :
    let d  := Json.obj [("a".toList, .arr [.num (.pos 0), .str "x".toList, .null]), ("b".toList, .bool true)]
    let d' := Json.obj [("a".toList, .arr [.obj [], .str "x".toList]), ("c".toList, .num (.pos 9)), ("z".toList, .null)]
    d ≠ d' ∧ agreeOnPath (keyPath (.string "a.1".toList)) d d' ∧
    var d [.str "a.1".toList] = ⟨[], .ok (.str "x".toList)⟩ ∧ var d' [.str "a.1".toList] = ⟨[], .ok (.str "x".toList)⟩ := by
  refine ⟨by decide +kernel, ?_, by decide +kernel, by decide +kernel⟩
  have : keyPath (.string "a.1".toList) = ["a".toList, "1".toList] := by decide +kernel
  rw [this]
  simp [agreeOnPath, lookup]
  have : parseI64 ['1'] = some 1 := by decide +kernel
  simp [this, Data.get]

example : (Json.str "a.1".toList).wf = true := by decide +kernel

/-! ## from the public entry point to `var` -/

/-- `{"var": [operands…]}` that passed the parse phase: the operands are evaluated left to right (computed keys,
computed defaults), then `var` runs on their values -/
theorem apply_var (xs : List Json) (d : Json) (hc : check (.obj [("var".toList, .arr xs)]) = true) :
    apply (.obj [("var".toList, .arr xs)]) d = runList xs d >>= var d :=
  JL.Lemmas.C11.apply_var xs d hc

/-- with literal operands (anything but a one-key object), at most two: `apply` is `var` on them -/
theorem apply_var_literals (xs : List Json) (d : Json) (hl : ∀ x ∈ xs, Literal x) (hn : xs.length < 3) :
    apply (.obj [("var".toList, .arr xs)]) d = var d xs :=
  JL.Lemmas.C11.apply_var_literals xs d hl hn

example : (∀ x ∈ [Json.str "a.b".toList, .num (.pos 7)], Literal x) := by simp [Literal]

example : apply (.obj [("var".toList, .arr [.str "a.-1".toList, .num (.pos 7)])])
    (.obj [("a".toList, .arr [.num (.pos 1), .num (.pos 2)])]) = ⟨[], .ok (.num (.pos 2))⟩ := by decide +kernel
example : apply (.obj [("var".toList, .arr [.str "a.2".toList, .num (.pos 7)])])
    (.obj [("a".toList, .arr [.num (.pos 1), .num (.pos 2)])]) = ⟨[], .ok (.num (.pos 7))⟩ := by decide +kernel

end JL.Props.C11
