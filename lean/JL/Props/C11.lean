import JL.Lemmas.Monad
/-!
# C11 — `var` resolves paths through objects, arrays and strings; absent means default
-/
namespace JL.Props.C11
open JL Json Data

/-- non-negative index -/
theorem get_nonneg {α : Type} (xs : List α) (i : Nat) : Data.get xs (i : Int) = xs[i]? := by
  simp [Data.get]

/-- negative indices count from the end, for **every** integer (no bound; also `i64::MIN`) -/
theorem get_neg {α : Type} (xs : List α) (i : Nat) (hi : 1 ≤ i) :
    Data.get xs (-(i : Int)) = if i ≤ xs.length then xs[xs.length - i]? else none := by
  unfold Data.get
  have h1 : ¬ (-(i : Int) ≥ 0) := by omega
  have h2 : (-(i : Int)).natAbs = i := by omega
  simp [h2]
  intro h0; omega

/-- null, the empty string and the operand-less form return the entire data -/
theorem whole_data_null (d : Json) : getKey d .null = some d := rfl
theorem whole_data_empty (d : Json) : getKey d (.string []) = some d := rfl
theorem whole_data_noargs (d : Json) : var d [] = ⟨[], .ok d⟩ := rfl

/-- a value that is present — even null — is returned in preference to the default -/
theorem present_wins (d k dflt v : Json) (key : Key) (hk : keyOf k = some key) (hv : getKey d key = some v) :
    var d [k, dflt] = ⟨[], .ok v⟩ := by
  unfold var; simp [hk, hv]

theorem absent_default (d k dflt : Json) (key : Key) (hk : keyOf k = some key) (hv : getKey d key = none) :
    var d [k, dflt] = ⟨[], .ok dflt⟩ ∧ var d [k] = ⟨[], .ok .null⟩ := by
  unfold var; simp [hk, hv]

example : splitWithEscape "a\\.b.c".toList '.' = ["a.b".toList, "c".toList] := by decide

end JL.Props.C11
