import JL.Lemmas.RoundTrip
import JL.Wrap
/-!
# C18 — what the `jsonlogic` command prints for a result is one line of JSON text

`println!("{}", result)` writes `Value::to_string` = `Json.ser` followed by a newline. For the second invocation of
a pipe to receive exactly that value, the text itself must not contain a line break (or any other raw control
character, which JSON forbids inside strings), and the texts of numbers must denote the numbers they were printed
from. Both are shown here for every value, with no hypothesis.

Not covered (outside the crate, enters `JL.Wrap.cli` as the parameter `parse`): `serde_json::from_str`. NOTE: the
crate builds `serde_json` without its `float_roundtrip` feature, so that parser does not promise to return the
nearest double for every float text; `number_text_denotes` says what a correctly rounding reader gets.
-/
namespace JL.Props.C18
open JL Json JL.F64 JL.Wrap JL.Lemmas.RoundTrip

/-- **one line**: the serialisation of any value contains no character below U+0020 — no LF, CR, TAB, NUL, … -/
theorem ser_one_line (v : Json) : ∀ c ∈ Json.ser v, 32 ≤ c.toNat := ser_printable v

theorem ser_no_newline (v : Json) : '\n' ∉ Json.ser v ∧ '\r' ∉ Json.ser v := by
  constructor <;> (intro h; have := ser_one_line v _ h; revert this; decide)

/-- a string is written between two `"`, each character through `escapeChar` -/
theorem serStr_shape (s : Str) : Json.serStr s = '"' :: (s.flatMap Json.escapeChar) ++ ['"'] := rfl

/-- `serStr` never emits a raw newline (nor any other control character) -/
theorem serStr_no_newline (s : Str) : '\n' ∉ Json.serStr s := JL.Lemmas.RoundTrip.serStr_no_newline s

theorem serStr_one_line (s : Str) : ∀ c ∈ Json.serStr s, 32 ≤ c.toNat := serStr_printable s

/-- exactly `"`, `\` and the control characters below U+0020 are escaped; every other character is written as is -/
theorem escape_iff (c : Char) : Json.escapeChar c = [c] ↔ (c ≠ '"' ∧ c ≠ '\\' ∧ 32 ≤ c.toNat) :=
  escapeChar_self_iff c

/-- an escaped character becomes a backslash followed by at least one more character -/
theorem escape_shape (c : Char) (h : c = '"' ∨ c = '\\' ∨ c.toNat < 32) :
    ∃ x rest, Json.escapeChar c = '\\' :: x :: rest := by
  apply escapeChar_escaped
  rintro ⟨h1, h2, h3⟩
  rcases h with h | h | h
  · exact h1 h
  · exact h2 h
  · omega

/-- the text of a number is made of digits and `- + . e` (`NaN`/`inf` spellings never arise: floats are finite) -/
theorem number_text_one_line (x : Num) : ∀ c ∈ x.toStr, 32 ≤ c.toNat := numToStr_printable x

/-- the text of a number denotes that number: a reader that rounds the decimal correctly (JS `Number`, Rust
`f64::from_str`) gets back `x.as_f64()` exactly — integers of any size, and every finite double -/
theorem number_text_denotes (x : Num) (hx : Num.WF x) : JsOp.strToNumber x.toStr = some x.toF64 :=
  strToNumber_numToStr x hx

/-- every line the command writes to standard output (the `log` lines and the result line) is a single line -/
theorem cli_lines_one_line (parse : Str → Option Json) (logic : Str) (arg : Option Str) (stdin : Str) :
    ∀ line ∈ (cli parse Json.ser logic arg stdin).stdout, ∀ c ∈ line, 32 ≤ c.toNat := by
  intro line hl
  unfold cli at hl
  cases hr : parse logic with
  | none => simp [hr] at hl
  | some r =>
    cases hd : parse (dataText arg stdin) with
    | none => simp [hr, hd] at hl
    | some d =>
      simp only [hr, hd, cliEval] at hl
      cases hv : (apply r d).out with
      | ok v =>
        simp only [hv, List.mem_append, List.mem_map, List.mem_singleton] at hl
        rcases hl with ⟨w, -, rfl⟩ | rfl
        · exact ser_one_line w
        · exact ser_one_line _
      | err =>
        simp only [hv, List.mem_map] at hl
        obtain ⟨w, -, rfl⟩ := hl
        exact ser_one_line w
      | panic =>
        simp only [hv, List.mem_map] at hl
        obtain ⟨w, -, rfl⟩ := hl
        exact ser_one_line w

/-! ## spot checks -/
example : Json.ser (.str "a\nb\t\"c\"\\".toList) = "\"a\\nb\\t\\\"c\\\"\\\\\"".toList := by decide +kernel
example : Json.ser (.str [Char.ofNat 1, Char.ofNat 31, Char.ofNat 127]) =
    ("\"\\u0001\\u001f".toList ++ [Char.ofNat 127, '"']) := by decide +kernel
example : Json.escapeChar 'a' = ['a'] := by decide
example : Json.escapeChar (Char.ofNat 0x2028) = [Char.ofNat 0x2028] := by decide +kernel
example : Json.ser (.arr [.num (.pos 1), .obj [("k\n".toList, .num (.flt (F64.ofBits 0x3FB999999999999A)))]]) =
    "[1,{\"k\\n\":0.1}]".toList := by decide +kernel
example : Num.WF (.flt (F64.ofBits 0x3FB999999999999A)) := by decide +kernel

end JL.Props.C18
