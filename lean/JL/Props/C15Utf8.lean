import JL.Props.C15
import JL.Lemmas.Utf8
/-!
# C15 / `in` on strings — the model's character-level infix test IS Rust's byte-level `contains`

`JL/Basic.lean` models `haystack.contains(needle)` (a search for the needle's UTF-8 bytes in the haystack's UTF-8 bytes)
as `isInfix`, an infix test on `List Char`. This file removes that modelling assumption: with UTF-8 defined from the
RFC 3629 table (`JL/Spec/Utf8.lean`), a byte-level occurrence of an encoded needle in an encoded haystack exists exactly
when a character-level one does (UTF-8 is self-synchronising and prefix-free).
-/
namespace JL.Props.C15
open JL Json ArrOp JL.Spec.Utf8

/-- where a byte-level occurrence of a well-formed NON-EMPTY needle can be: only at a character boundary — the bytes
before it and the bytes after it are the encodings of the characters before and after a character-level occurrence -/
theorem utf8_occurrence (c : Char) (n h : Str) (pre suf : List Nat) (e : encode h = pre ++ encode (c :: n) ++ suf) :
    ∃ p s, h = p ++ (c :: n) ++ s ∧ pre = encode p ∧ suf = encode s :=
  JL.Lemmas.Utf8.encode_infix c n h pre suf e

/-- UTF-8 is self-synchronising: the encoded needle occurs in the encoded haystack as a run of bytes
(Rust's `contains`) iff the needle occurs in the haystack as a run of characters (the model's `isInfix`) -/
theorem utf8_infix (n h : Str) : bytesInfix (encode n) (encode h) ↔ (isInfix n h = true) := by
  rw [isInfix_spec]
  constructor
  · rintro ⟨pre, suf, e⟩
    cases n with
    | nil => exact ⟨[], h, rfl⟩
    | cons c n =>
      obtain ⟨p, s, hh, -, -⟩ := utf8_occurrence c n h pre suf e
      exact ⟨p, s, hh⟩
  · rintro ⟨p, s, rfl⟩
    exact ⟨encode p, encode s, by simp only [JL.Lemmas.Utf8.encode_append]⟩

/-- `in` on two strings, in terms of the BYTES Rust searches (joined with `in_str`) -/
theorem in_str_bytes (n h : Str) : in_ (.str n) (.str h) = some true ↔ bytesInfix (encode n) (encode h) := by
  rw [in_str, Option.some.injEq, utf8_infix]

theorem in_str_bytes_false (n h : Str) : in_ (.str n) (.str h) = some false ↔ ¬ bytesInfix (encode n) (encode h) := by
  rw [in_str, Option.some.injEq, utf8_infix]; simp

/-! ## non-vacuity -/

private def s (ns : List Nat) : Str := ns.map Char.ofNat

-- a needle of 2-, 3- and 4-byte characters inside a haystack: both sides hold
example : isInfix "é€😀".toList "aé€😀b".toList = true := by decide
example : bytesInfix (encode "é€😀".toList) (encode "aé€😀b".toList) :=
  ⟨[0x61], [0x62], by decide⟩
example : bytesInfix (encode "é€😀".toList) (encode "aé€😀b".toList) := (utf8_infix _ _).mpr (by decide)
-- boundary characters U+7F/U+80, U+7FF/U+800, U+FFFF/U+10000
example : isInfix (s [0x80, 0x7FF]) (s [0x7F, 0x80, 0x7FF, 0x800]) = true := by decide
example : bytesInfix (encode (s [0x80, 0x7FF])) (encode (s [0x7F, 0x80, 0x7FF, 0x800])) :=
  ⟨[0x7F], [0xE0, 0xA0, 0x80], by decide⟩
example : isInfix (s [0xFFFF, 0x10000]) (s [0x800, 0xFFFF, 0x10000, 0x7F]) = true := by decide
example : bytesInfix (encode (s [0xFFFF, 0x10000])) (encode (s [0x800, 0xFFFF, 0x10000, 0x7F])) :=
  ⟨[0xE0, 0xA0, 0x80], [0x7F], by decide⟩
-- sharing continuation bytes with another character is never a match:
-- `©` = C2 A9 shares its last byte with `é` = C3 A9; `€` = E2 82 AC contains the byte 82, the last byte of U+82 = C2 82
example : isInfix "©".toList "é".toList = false := by decide
example : ¬ bytesInfix (encode "©".toList) (encode "é".toList) := (in_str_bytes_false _ _).mp (by decide +kernel)
example : ¬ bytesInfix (encode (s [0x82])) (encode "€".toList) := fun h => by
  have := (utf8_infix _ _).mp h; revert this; decide
-- the empty needle
example : bytesInfix (encode []) (encode "é".toList) ∧ isInfix [] "é".toList = true := ⟨⟨[], [0xC3, 0xA9], by decide⟩, by decide⟩
-- the premise of `utf8_occurrence` is met by a real occurrence
example : encode "a€😀".toList = [0x61] ++ encode ('€' :: []) ++ [0xF0, 0x9F, 0x98, 0x80] := by decide

end JL.Props.C15
