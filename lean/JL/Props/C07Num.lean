import JL.Lemmas.StrNumRadix
/-!
# C07 — the string-to-number rule used by `==` / `!=` (and by `<`, `-`, `/`, `%`, `min`, `max`) is
ECMA-262 `StringToNumber`

`JL.Spec.ES.stringToNumber` (JL/Spec/ESNum.lean) is written from ECMA-262 7.1.4.1.1 and the
StringNumericLiteral grammar; `JsOp.strToNumber` models `js_op::str_to_number`.
-/
namespace JL.Props.C07
open JL Json JL.Spec

/-- `str_to_number` is `StringToNumber` on every string (no length bound, every radix literal included):
StrWhiteSpace stripped at both ends; empty ↦ +0; `0x/0o/0b` integer literals (unsigned, at least one digit)
↦ the exact integer rounded once to nearest-even; optional sign, then `Infinity` in exactly that spelling or
a StrUnsignedDecimalLiteral covering the whole text ↦ its mathematical value rounded once; anything else
NaN (`none`). -/
theorem str_to_number_es (s : Str) : JsOp.strToNumber s = ES.stringToNumber s :=
  JL.Lemmas.StrNum.strToNumber_eq s

/-- `to_number` of a string value is `StringToNumber` of its text -/
theorem to_number_str (s : Str) : JsOp.toNumber (.str s) = ES.stringToNumber s := by
  rw [← str_to_number_es]; rfl

/-- a number equals a string iff the string's `StringToNumber` is a (non-NaN) double equal to it -/
theorem num_eq_str (x : Num) (y : Str) :
    JsOp.abstractEq (.num x) (.str y) =
      match ES.stringToNumber y with
      | some yn => F64.eq x.toF64 yn
      | none => false := by
  simp only [JsOp.abstractEq, JsOp.eqNoBool, JsOp.eqPrim, str_to_number_es]
  cases ES.stringToNumber _ <;> rfl

theorem str_eq_num (x : Str) (y : Num) :
    JsOp.abstractEq (.str x) (.num y) =
      match ES.stringToNumber x with
      | some xn => F64.eq xn y.toF64
      | none => false := by
  simp only [JsOp.abstractEq, JsOp.eqNoBool, JsOp.eqPrim, str_to_number_es]
  cases ES.stringToNumber _ <;> rfl

/-- surrounding whitespace is ignored: a text made only of StrWhiteSpaceChar is +0 … -/
theorem whitespace_only_zero (s : Str) (h : ∀ c ∈ s, ES.isStrWhiteSpaceChar c = true) :
    ES.stringToNumber s = some (F64.fin false 0) := by
  have h1 : ES.skipWhiteSpace s = [] := by
    induction s with
    | nil => rfl
    | cons c cs ih =>
      simp only [ES.skipWhiteSpace, h c (by simp), if_true]
      exact ih (fun d hd => h d (by simp [hd]))
  simp [ES.stringToNumber, ES.strip, h1, ES.skipWhiteSpace]

theorem whitespace_only_zero_model (s : Str) (h : ∀ c ∈ s, ES.isStrWhiteSpaceChar c = true) :
    JsOp.strToNumber s = some (F64.fin false 0) := by
  rw [str_to_number_es]; exact whitespace_only_zero s h

/-- … and the hypothesis is met by real inputs -/
example : ∀ c ∈ " \t\n\r ".toList, ES.isStrWhiteSpaceChar c = true := by decide +kernel

/-- "" is 0 -/
example : ES.stringToNumber [] = some (F64.fin false 0) := by decide +kernel
example : JsOp.strToNumber [] = some (F64.fin false 0) := by decide +kernel
example : ES.stringToNumber " 1 ".toList = some (F64.ofNat 1) := by decide +kernel
/-- only `Infinity` spelled that way -/
example : ES.stringToNumber "Infinity".toList = some (F64.inf false) := by decide +kernel
example : ES.stringToNumber "-Infinity".toList = some (F64.inf true) := by decide +kernel
example : ES.stringToNumber "inf".toList = none := by decide +kernel
example : ES.stringToNumber "infinity".toList = none := by decide +kernel
example : ES.stringToNumber "INFINITY".toList = none := by decide +kernel
example : ES.stringToNumber "nan".toList = none := by decide +kernel
example : JsOp.strToNumber "inf".toList = none := by decide +kernel
example : JsOp.strToNumber "infinity".toList = none := by decide +kernel
example : JsOp.strToNumber "INFINITY".toList = none := by decide +kernel
/-- hex / octal / binary prefixes honoured, unsigned only -/
example : ES.stringToNumber "0x10".toList = some (F64.ofNat 16) := by decide +kernel
example : ES.stringToNumber "0o10".toList = some (F64.ofNat 8) := by decide +kernel
example : ES.stringToNumber "0b10".toList = some (F64.ofNat 2) := by decide +kernel
example : ES.stringToNumber "-0x10".toList = none := by decide +kernel
example : JsOp.strToNumber "-0x10".toList = none := by decide +kernel
example : JsOp.strToNumber "0x10".toList = some (F64.ofNat 16) := by decide +kernel
/-- a radix literal longer than 60 bits: 2^64 + 1 rounds to 2^64 (bits are shifted out, sticky bit set) -/
example : JsOp.strToNumber "0x10000000000000001".toList = some (F64.ofNat (2 ^ 64)) := by decide +kernel
example : ES.stringToNumber "0x10000000000000001".toList = some (F64.ofNat (2 ^ 64)) := by decide +kernel
/-- anything else is non-numeric for `Number` ("12px" is NaN here, while `parseFloat` reads 12) -/
example : ES.stringToNumber "12px".toList = none := by decide +kernel
example : JsOp.strToNumber "12px".toList = none := by decide +kernel
example : ES.parseFloat "12px".toList = some (F64.ofNat 12) := by decide +kernel
example : ES.stringToNumber "1-2".toList = none := by decide +kernel
example : ES.parseFloat "1-2".toList = some (F64.ofNat 1) := by decide +kernel
/-- operator level: `" 1 " == 1`, `"0x10" == 16`, `"inf" != Infinity-like anything` -/
example : JsOp.abstractEq (.str " 1 ".toList) (.num (.pos 1)) = true := by decide +kernel
example : JsOp.abstractEq (.str "0x10".toList) (.num (.pos 16)) = true := by decide +kernel
example : JsOp.abstractEq (.str "".toList) (.num (.pos 0)) = true := by decide +kernel
example : JsOp.abstractEq (.str "1e3".toList) (.num (.pos 1000)) = true := by decide +kernel
example : JsOp.abstractEq (.str "12px".toList) (.num (.pos 12)) = false := by decide +kernel

end JL.Props.C07
