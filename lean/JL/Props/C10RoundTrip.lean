import JL.Lemmas.RoundTrip
/-!
# C10 — `[x]` converts like `x`: the text of a number reads back as the same double

An array (and any non-primitive) reaches `to_number` / `parse_float` through its `js_op::to_string` form; for the
one-element array `[x]` of a number that is the number's JSON text (`Display for Number`: `u64`/`i64` decimal text,
or the shortest-round-trip text of the `f64`). The theorems below show that this text converts back to exactly
`x.as_f64()`, for every number `serde_json` can hold — no size bound, no hypothesis besides well-formedness
(`u64` / negative `i64` / finite `f64` on the binary64 grid).

Proof outline for floats (helper modules `JL/Lemmas/RoundTrip*.lean`):
`shortest k` only returns digits `(c, p)` that pass its `inside` test, i.e. `c · 10^p` lies in the rounding interval
`interval k`; every rational in that interval rounds (nearest, ties to even; the boundary is included exactly when
the mantissa is even; the gap below a power of two is half as wide) to `k` (`roundK_inside`); seventeen digits always
pass (`shortest_ne_zero`); stripping trailing zeros and the fixed / exponent layouts of `format` spell the same
decimal value (`layout_lit`); `str_to_number` / `parse_float_string` read a text of that shape as
`ofDecimal` of its digits and exponent (`strToNumber_litText`).
-/
namespace JL.Props.C10
open JL Json JL.F64 JL.Lemmas.RoundTrip

/-! ## integers -/

/-- the decimal text of any natural number converts (JS `Number(text)`) to the nearest double -/
theorem nat_text_to_number (n : Nat) : JsOp.strToNumber (natToStr n) = some (F64.ofNat n) :=
  strToNumber_natToStr n

/-- the text `-m` of a negative integer converts to the nearest double of `-m` -/
theorem neg_text_to_number (m : Nat) (hm : 1 ≤ m) :
    JsOp.strToNumber ('-' :: natToStr m) = some (F64.ofInt (-(m : Int))) :=
  strToNumber_neg_natToStr m hm

/-- the same through `parseFloat` (used by `+` and `*`) -/
theorem nat_text_parse_float (n : Nat) : JsOp.parseFloatString (natToStr n) = some (F64.ofNat n) :=
  parseFloatString_natToStr n

theorem neg_text_parse_float (m : Nat) (hm : 1 ≤ m) :
    JsOp.parseFloatString ('-' :: natToStr m) = some (F64.ofInt (-(m : Int))) :=
  parseFloatString_neg_natToStr m hm

/-- `[n]` is `n` for every `u64` (in fact for every natural number) -/
theorem array_of_posint_to_number (n : Nat) : JsOp.toNumber (.arr [.num (.pos n)]) = some (F64.ofNat n) := by
  show JsOp.strToNumber (JsOp.toString (.arr [.num (.pos n)])) = _
  rw [toString_singleton_num]; exact strToNumber_natToStr n

/-! ## floats -/

/-- the exact decimal `c · 10^p` lies in the rounding interval of the double `k · 2^-1074` -/
abbrev DecimalInInterval (k c : Nat) (p : Int) : Prop := DecIn k c p

/-- every decimal inside the rounding interval of a non-zero double converts to that double -/
theorem of_decimal_inside (neg : Bool) (k d : Nat) (e : Int) (hk0 : k ≠ 0) (hk : OnGrid k) (hd : d ≠ 0)
    (h : DecimalInInterval k d e) : ofDecimal neg d e = fin neg k :=
  ofDecimal_inside neg k d e hk0 hk hd h

/-- `shortest` returns digits inside the rounding interval (whenever it returns digits at all) … -/
theorem shortest_inside (k c : Nat) (p : Int) (h : shortest k = (c, p)) (hc : c ≠ 0) : DecimalInInterval k c p :=
  shortest_decIn k c p h hc

/-- … so they convert back to the double they were computed from. (`c ≠ 0` = the search did not fall through;
`shortest_succeeds` shows it never does.) -/
theorem ofDecimal_shortest (neg : Bool) (k c : Nat) (p : Int) (hk0 : k ≠ 0) (hk : OnGrid k)
    (h : shortest k = (c, p)) (hc : c ≠ 0) : ofDecimal neg c p = fin neg k :=
  JL.Lemmas.RoundTrip.ofDecimal_shortest neg k c p hk0 hk h hc

/-- seventeen significant digits always suffice: the search never falls through to `(0, 0)` -/
theorem shortest_succeeds (k : Nat) (hk0 : k ≠ 0) (hk : OnGrid k) : (shortest k).1 ≠ 0 :=
  shortest_ne_zero k hk0 hk

theorem ofDecimal_shortest_all (neg : Bool) (k : Nat) (hk0 : k ≠ 0) (hk : OnGrid k) :
    ofDecimal neg (shortest k).1 (shortest k).2 = fin neg k :=
  ofDecimal_shortest' neg k hk0 hk

/-- **`Number(format x) = x`** for every finite double: trailing-zero stripping and the fixed / exponent layouts
do not change the value -/
theorem format_to_number (x : F64) (hf : x.isFinite = true) (hx : WF x) :
    JsOp.strToNumber (format x) = some x :=
  strToNumber_format' x hf hx

theorem format_parse_float (x : F64) (hf : x.isFinite = true) (hx : WF x) :
    JsOp.parseFloatString (format x) = some x :=
  parseFloatString_format' x hf hx

/-! ## every JSON number -/

/-- `Number(text of x) = x.as_f64()` -/
theorem number_text_to_number (x : Num) (hx : Num.WF x) : JsOp.strToNumber x.toStr = some x.toF64 :=
  strToNumber_numToStr x hx

/-- a string holding a number's text is numerically that number -/
theorem str_of_number_to_number (x : Num) (hx : Num.WF x) :
    JsOp.toNumber (.str x.toStr) = JsOp.toNumber (.num x) :=
  strToNumber_numToStr x hx

/-- **`[x]` is `x`** for `to_number` (`-`, `/`, `%`, `<`, `min`, `max`, unary minus) -/
theorem array_of_number_to_number (x : Num) (hx : Num.WF x) :
    JsOp.toNumber (.arr [.num x]) = JsOp.toNumber (.num x) := by
  show JsOp.strToNumber (JsOp.toString (.arr [.num x])) = some x.toF64
  rw [toString_singleton_num]; exact strToNumber_numToStr x hx

/-- **`[x]` is `x`** for `parse_float` (`+`, `*`) -/
theorem array_of_number_parse_float (x : Num) (hx : Num.WF x) :
    JsOp.parseFloat (.arr [.num x]) = JsOp.parseFloat (.num x) := by
  show JsOp.parseFloatString (JsOp.toString (.arr [.num x])) = some x.toF64
  rw [toString_singleton_num]; exact parseFloatString_numToStr x hx

/-- hence `[x] == x` holds for every number that is not NaN-like (all JSON numbers) -/
theorem array_of_number_abstract_eq (x : Num) (hx : Num.WF x) :
    JsOp.abstractEq (.arr [.num x]) (.num x) = F64.eq x.toF64 x.toF64 := by
  simp only [JsOp.abstractEq, JsOp.eqNoBool, JsOp.eqPrim]
  rw [toString_singleton_num, strToNumber_numToStr x hx]

/-! ## the hypotheses are met by real inputs; spot checks of the statements -/
example : Num.WF (.pos 18446744073709551615) := by decide
example : Num.WF (.neg 9223372036854775808) := by decide
example : Num.WF (.flt (F64.ofBits 0x3FB999999999999A)) := by decide +kernel   -- 0.1
example : JsOp.toNumber (.arr [.num (.pos 18446744073709551615)]) = some (F64.ofNat 18446744073709551615) :=
  array_of_posint_to_number _
example : format (F64.ofBits 0x3FB999999999999A) = "0.1".toList := by decide +kernel
example : format (F64.ofBits 0x7FEFFFFFFFFFFFFF) = "1.7976931348623157e+308".toList := by decide +kernel
example : format (F64.ofBits 0x0000000000000001) = "5e-324".toList := by decide +kernel
example : format (F64.ofBits 0x4340000000000000) = "9007199254740992.0".toList := by decide +kernel
example : format (F64.ofBits 0x3EE4F8B588E368F1) = "0.00001".toList := by decide +kernel
example : format (F64.ofBits 0x3EB0C6F7A0B5ED8D) = "1e-6".toList := by decide +kernel
example : format (F64.ofBits 0x40FE240C9FBE76C9) = "123456.789".toList := by decide +kernel
example : format (F64.ofBits 0x444B1AE4D6E2EF50) = "1e+21".toList := by decide +kernel
example : shortest (2 ^ 1074) = (1, 0) := by decide +kernel
example : DecimalInInterval (2 ^ 1074) 1 0 := by decide +kernel

/-- TEST (kernel evaluation, not a proof of the general statement — that is `format_to_number`): the round trip
on forty doubles of every kind: ±0, subnormals, smallest/largest normal, powers of two and their
neighbours, values with 1 … 17 significant digits, fixed- and exponent-notation outputs. -/
def roundTripSamples : List Nat :=
  [0x0000000000000000, 0x8000000000000000, 0x0000000000000001, 0x0000000000000002, 0x0000000000000003,
   0x000FFFFFFFFFFFFF, 0x0010000000000000, 0x0010000000000001, 0x0020000000000000, 0x7FEFFFFFFFFFFFFF,
   0x7FE0000000000000, 0x7FE1CCF385EBC8A0, 0x3FF0000000000000, 0xBFF0000000000000, 0x3FF0000000000001,
   0x3FEFFFFFFFFFFFFF, 0x3FB999999999999A, 0x3FD3333333333333, 0x3FD5555555555555, 0x400921FB54442D18,
   0x4005BF0A8B145769, 0x4011666666666666, 0x4340000000000000, 0x433FFFFFFFFFFFFF, 0x4340000000000001,
   0x4350000000000000, 0x43B0000000000000, 0x3CA0000000000000, 0x444B1AE4D6E2EF50, 0x4480F0CF064DD592,
   0x44B52D02C7E14AF6, 0x3E7AD7F29ABCAF48, 0x3EB0C6F7A0B5ED8D, 0x40FE240C9FBE76C9, 0xC0FE240C9FBE76C9,
   0x0000000000989680, 0x1A56E1FC2F8F359C, 0x6974E718D7D7625A, 0x3EE4F8B588E368F1, 0x16687E92154EF7AC]

/-- for a sample: the digit search succeeds and its digits lie in the rounding interval -/
def sampleDigitsOK (b : Nat) : Bool :=
  match F64.ofBits b with
  | .fin _ k => k == 0 || (decide ((shortest k).1 ≠ 0) && decide (DecimalInInterval k (shortest k).1 (shortest k).2))
  | _ => false

example : ∀ b ∈ roundTripSamples,
    JsOp.strToNumber (format (F64.ofBits b)) = some (F64.ofBits b) ∧
    JsOp.parseFloatString (format (F64.ofBits b)) = some (F64.ofBits b) ∧
    sampleDigitsOK b = true := by
  decide +kernel

end JL.Props.C10
