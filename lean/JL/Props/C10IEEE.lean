import JL.Lemmas.IEEE
/-!
# C10 — the arithmetic of the model IS IEEE-754 binary64 arithmetic (roundTiesToEven)

In `JL/F64.lean` every operation is *defined* as "exact rational result, then `roundUnits`". Here
`roundUnits` is proved equal to the DECLARATIVE IEEE-754 rounding of `JL/Spec/IEEE.lean`
(`IsNearestEven`, `Rounds`): the result is a representable magnitude (53-bit significand times a power of
two, exponent unbounded above), no representable magnitude is nearer to the exact value, of two equally
near ones the one with the even significand is taken, and a rounded magnitude `≥ 2^1024` becomes `±∞`.
That specification determines the result uniquely, so `roundUnits` is THE IEEE rounding, and `+ - * /`,
`u64/i64 → f64` and decimal → `f64` return exactly the IEEE-754 double of the exact real result.

Units: a finite double `fin neg k` is `(-1)^neg · k · 2^-1074`, `S = 2^1074` units are `1.0`, `OVF = 2^2098` units are `2^1024`.
-/
namespace JL.Props.C10
open JL F64 JL.Spec.IEEE JL.Lemmas.IEEE

/-! ## the specification is consistent with the model's notion of a finite double -/

/-- the finite doubles are the unbounded-exponent grid below `2^1024` -/
theorem grid_iff_gridU (k : Nat) : Grid k ↔ GridU k ∧ k < OVF := onGrid_iff k

/-- `GridU` in the style of `F64.OnGrid`: `k` is a multiple of the ulp of its binade -/
theorem gridU_iff_ulp_dvd (k : Nat) : GridU k ↔ ulp k ∣ k := by
  rw [gridU_iff, F64.grid_iff]
  unfold ulp
  split
  · rename_i h
    have : bitLen k - 53 = 0 := by omega
    rw [this]
  · exact Iff.rfl

/-- `|a - b|` really is the absolute value of the integer difference -/
theorem absDiff_eq (a b : Nat) : (absDiff a b : Int) = ((a : Int) - (b : Int)).natAbs := by
  unfold absDiff; omega

/-- the significand of a grid point in canonical form `m · 2^e` (`e = 0` — subnormal or first binades — or top
bit of `m` set) is `m`; so `sigEven` is "the last significand bit is 0" -/
theorem sig_of_canonical (m e : Nat) (hm : m < 2 ^ 53) (hc : e = 0 ∨ 2 ^ 52 ≤ m) : sig (m * 2 ^ e) = m :=
  sig_canon m e hm hc

/-! ## `roundUnits` is round-to-nearest, ties-to-even -/

/-- existence and uniqueness: every non-negative rational has exactly one nearest-even grid point -/
theorem nearestEven_exists_unique (num den : Nat) (hd : 0 < den) :
    ∃ k, IsNearestEven num den k ∧ ∀ k', IsNearestEven num den k' → k' = k :=
  ⟨roundK num den, roundK_nearest_unique num den hd⟩

/-- a finite result of `roundUnits` is the nearest-even representable magnitude (and is below `2^1024`) -/
theorem roundUnits_nearest (neg : Bool) (num den k : Nat) (hd : 0 < den)
    (h : roundUnits neg num den = fin neg k) : IsNearestEven num den k ∧ k < OVF := by
  rw [roundUnits_eq] at h
  split at h
  · cases h
  · rename_i hlt
    cases h
    exact ⟨roundK_nearest num den hd, by omega⟩

/-- … and conversely: `roundUnits` returns `fin neg k` exactly when `k` is the nearest-even magnitude and is finite -/
theorem roundUnits_fin_iff (neg : Bool) (num den k : Nat) (hd : 0 < den) :
    roundUnits neg num den = fin neg k ↔ IsNearestEven num den k ∧ k < OVF := by
  constructor
  · exact roundUnits_nearest neg num den k hd
  · rintro ⟨hk, hlt⟩
    rw [roundUnits_eq, ← (nearestEven_iff num den k hd).mp hk, if_neg (by omega)]

/-- overflow as in IEEE-754 §7.4: the result is `±∞` iff the magnitude rounded with unbounded exponent is `≥ 2^1024` -/
theorem roundUnits_inf_iff (neg : Bool) (num den : Nat) (hd : 0 < den) :
    roundUnits neg num den = inf neg ↔ ∃ k, IsNearestEven num den k ∧ OVF ≤ k := by
  rw [roundUnits_eq]
  constructor
  · intro h
    split at h
    · rename_i hge; exact ⟨_, roundK_nearest num den hd, hge⟩
    · cases h
  · rintro ⟨k, hk, hge⟩
    rw [← (nearestEven_iff num den k hd).mp hk, if_pos hge]

/-- the same, universally quantified (the nearest-even magnitude is unique) -/
theorem roundUnits_inf_iff_forall (neg : Bool) (num den : Nat) (hd : 0 < den) :
    roundUnits neg num den = inf neg ↔ ∀ k, IsNearestEven num den k → OVF ≤ k := by
  rw [roundUnits_inf_iff neg num den hd]
  constructor
  · rintro ⟨k, hk, hge⟩ k' hk'
    rw [nearestEven_unique num den k' k hd hk' hk]; exact hge
  · intro h
    exact ⟨_, roundK_nearest num den hd, h _ (roundK_nearest num den hd)⟩

/-- the overflow threshold in closed form: `±∞` iff the exact magnitude is at least `2^1024 - 2^970`
(half an ulp above the largest finite double; the tie goes to the even significand, i.e. to `2^1024`) -/
theorem roundUnits_inf_threshold (neg : Bool) (num den : Nat) (hd : 0 < den) :
    roundUnits neg num den = inf neg ↔ (OVF - 2 ^ 2044) * den ≤ num :=
  JL.Lemmas.IEEE.roundUnits_inf_iff neg num den hd

/-- `roundUnits` never produces NaN, and keeps the sign it is given -/
theorem roundUnits_cases (neg : Bool) (num den : Nat) :
    roundUnits neg num den = inf neg ∨ ∃ k, roundUnits neg num den = fin neg k := by
  rw [roundUnits_eq]; split
  · exact Or.inl rfl
  · exact Or.inr ⟨_, rfl⟩

/-- **`roundUnits` is THE IEEE-754 rounding**: a double satisfies the declarative specification `Rounds`
iff it is the value `roundUnits` computes -/
theorem roundUnits_is_IEEE (neg : Bool) (num den : Nat) (hd : 0 < den) (r : F64) :
    Rounds neg num den r ↔ r = roundUnits neg num den := rounds_iff neg num den hd r

theorem roundUnits_rounds (neg : Bool) (num den : Nat) (hd : 0 < den) :
    Rounds neg num den (roundUnits neg num den) := (rounds_iff neg num den hd _).mpr rfl

/-- the specification determines the result -/
theorem rounds_unique (neg : Bool) (num den : Nat) (hd : 0 < den) (r r' : F64)
    (h : Rounds neg num den r) (h' : Rounds neg num den r') : r = r' := by
  rw [(rounds_iff neg num den hd r).mp h, (rounds_iff neg num den hd r').mp h']

/-- a result of the specification is a well-formed double, never NaN -/
theorem rounds_wf (neg : Bool) (num den : Nat) (hd : 0 < den) (r : F64) (h : Rounds neg num den r) :
    WF r ∧ r ≠ nan := by
  rw [(rounds_iff neg num den hd r).mp h]
  refine ⟨by with_reducible exact roundUnits_WF _ _ _, ?_⟩
  rcases roundUnits_cases neg num den with h | ⟨k, h⟩ <;> rw [h] <;> intro c <;> cases c

/-- half-ulp error bound: `|num/den - k| ≤ ulp(k)/2` for the rounded magnitude `k` (before the overflow cut) -/
theorem roundUnits_half_ulp (neg : Bool) (num den k : Nat) (hd : 0 < den)
    (h : roundUnits neg num den = fin neg k) : 2 * err num den k ≤ ulp k * den := by
  have hk := (roundUnits_nearest neg num den k hd h).1
  rw [(nearestEven_iff num den k hd).mp hk]
  exact roundK_half_ulp num den hd

/-- the result depends only on the rational `num/den`, not on its representation -/
theorem roundUnits_rational (neg : Bool) (num den num' den' : Nat) (hd : 0 < den) (hd' : 0 < den')
    (h : num * den' = num' * den) : roundUnits neg num den = roundUnits neg num' den' :=
  roundUnits_congr neg num den num' den' hd hd' h

/-- rounding is monotone: `num/den ≤ num'/den'` implies `round(num/den) ≤ round(num'/den')` (positive sign) -/
theorem roundUnits_mono (num den num' den' : Nat) (hd : 0 < den) (hd' : 0 < den')
    (h : num * den' ≤ num' * den) :
    F64.le (roundUnits false num den) (roundUnits false num' den') = true := by
  have hm := roundK_mono num den num' den' hd hd' h
  rw [roundUnits_eq, roundUnits_eq]
  split <;> split <;> simp [F64.le] <;> omega

/-- … and antitone on the negative side -/
theorem roundUnits_mono_neg (num den num' den' : Nat) (hd : 0 < den) (hd' : 0 < den')
    (h : num * den' ≤ num' * den) :
    F64.le (roundUnits true num' den') (roundUnits true num den) = true := by
  have hm := roundK_mono num den num' den' hd hd' h
  rw [roundUnits_eq, roundUnits_eq]
  split <;> split <;> simp [F64.le] <;> omega

/-- exactly representable values are not changed (already in `Lemmas/C10`), restated with the spec -/
theorem rounds_exact (neg : Bool) (k : Nat) (hk : Grid k) : Rounds neg k 1 (fin neg k) :=
  (rounds_iff neg k 1 (by decide) _).mpr (roundUnits_one neg k hk).symm

/-! ## the operators return the IEEE-754 double of the exact real result

`fin a x` denotes `(-1)^a · x/S` (real number, `S` units = 1.0). Exact results, in units:
sum `sval a x + sval b y`; product `x·y/S`; quotient `x·S/y`. No hypothesis on the operands is needed
(for well-formed operands see `F64.add_WF` … in `Lemmas/C10`). -/

theorem roundUnits_zero (neg : Bool) (den : Nat) (hd : 0 < den) : roundUnits neg 0 den = fin neg 0 := by
  have := roundUnits_exact neg 0 den hd onGrid_zero
  rwa [Nat.zero_mul] at this

/-- **addition**: the IEEE-754 rounding of the exact sum; an exact zero sum is `+0`, except `(-0) + (-0) = -0`
(IEEE-754 §6.3) -/
theorem add_fin_IEEE (a b : Bool) (x y : Nat) :
    (sval a x + sval b y ≠ 0 →
      Rounds (decide (sval a x + sval b y < 0)) (sval a x + sval b y).natAbs 1 (add (fin a x) (fin b y))) ∧
    (sval a x + sval b y = 0 → add (fin a x) (fin b y) = fin (a && b) 0) := by
  have key : ∀ (neg : Bool) (n m : Nat), n = m → Rounds neg n 1 (roundUnits neg m 1) :=
    fun neg n m h => h ▸ roundUnits_rounds neg n 1 (by decide)
  cases a <;> cases b <;> simp only [sval, add, Bool.false_eq_true, if_false, if_true, BEq.rfl,
    Bool.and_self, Bool.and_false, Bool.and_true]
  · constructor
    · intro h
      have : decide ((x : Int) + (y : Int) < 0) = false := by simp; omega
      rw [this]; exact key _ _ _ (by omega)
    · intro h
      have : x + y = 0 := by omega
      rw [this]; exact roundUnits_zero _ _ (by decide)
  · have hne : (false == true) = false := rfl
    simp only [hne, Bool.false_eq_true, if_false]
    constructor
    · intro h
      have hxy : (x == y) = false := by simp; omega
      simp only [hxy, Bool.false_eq_true, if_false]
      by_cases hgt : x > y
      · have : decide ((x : Int) + -(y : Int) < 0) = false := by simp; omega
        rw [if_pos hgt, this]; exact key _ _ _ (by omega)
      · have : decide ((x : Int) + -(y : Int) < 0) = true := by simp; omega
        rw [if_neg hgt, this]; exact key _ _ _ (by omega)
    · intro h
      have hxy : (x == y) = true := by simp; omega
      simp only [hxy, if_true]
  · have hne : (true == false) = false := rfl
    simp only [hne, Bool.false_eq_true, if_false]
    constructor
    · intro h
      have hxy : (x == y) = false := by simp; omega
      simp only [hxy, Bool.false_eq_true, if_false]
      by_cases hgt : x > y
      · have : decide (-(x : Int) + (y : Int) < 0) = true := by simp; omega
        rw [if_pos hgt, this]; exact key _ _ _ (by omega)
      · have : decide (-(x : Int) + (y : Int) < 0) = false := by simp; omega
        rw [if_neg hgt, this]; exact key _ _ _ (by omega)
    · intro h
      have hxy : (x == y) = true := by simp; omega
      simp only [hxy, if_true]
  · constructor
    · intro h
      have : decide (-(x : Int) + -(y : Int) < 0) = true := by simp; omega
      rw [this]; exact key _ _ _ (by omega)
    · intro h
      have : x + y = 0 := by omega
      rw [this]; exact roundUnits_zero _ _ (by decide)

/-- **subtraction** is addition of the negated operand: the rounding of the exact difference; an exact zero
difference is `+0`, except `(-0) - (+0) = -0` -/
theorem sub_fin_IEEE (a b : Bool) (x y : Nat) :
    (sval a x - sval b y ≠ 0 →
      Rounds (decide (sval a x - sval b y < 0)) (sval a x - sval b y).natAbs 1 (sub (fin a x) (fin b y))) ∧
    (sval a x - sval b y = 0 → sub (fin a x) (fin b y) = fin (a && !b) 0) := by
  have e : sval a x - sval b y = sval a x + sval (!b) y := by
    cases b <;> simp [sval] <;> omega
  rw [e]
  exact add_fin_IEEE a (!b) x y

/-- **multiplication**: the rounding of the exact product `(x/S)·(y/S) = (x·y/S)/S`, with the XOR of the signs
(also when the product is zero) -/
theorem mul_fin_IEEE (a b : Bool) (x y : Nat) :
    Rounds (a != b) (x * y) S (mul (fin a x) (fin b y)) :=
  roundUnits_rounds _ _ _ S_pos

/-- **division** by a non-zero double: the rounding of the exact quotient `(x/S)/(y/S) = (x·S/y)/S` -/
theorem div_fin_IEEE (a b : Bool) (x y : Nat) (hy : y ≠ 0) :
    Rounds (a != b) (x * S) y (div (fin a x) (fin b y)) := by
  have : (y == 0) = false := by simp [hy]
  simp only [div, this, Bool.false_eq_true, if_false]
  exact roundUnits_rounds _ _ _ (Nat.pos_of_ne_zero hy)

/-- division by zero: `0/0 = NaN`, otherwise `±∞` with the XOR of the signs (IEEE-754 §7.2, §7.3) -/
theorem div_fin_zero (a b : Bool) (x : Nat) :
    div (fin a x) (fin b 0) = if x = 0 then nan else inf (a != b) := by
  simp [div]

/-- **`u64 → f64`** (`n as f64`): the rounding of the integer `n` -/
theorem ofNat_IEEE (n : Nat) : Rounds false (n * S) 1 (ofNat n) := roundUnits_rounds _ _ _ (by decide)

/-- **`i64 → f64`** -/
theorem ofInt_IEEE (i : Int) : Rounds (decide (i < 0)) (i.natAbs * S) 1 (ofInt i) :=
  roundUnits_rounds _ _ _ (by decide)

/-- **decimal text → `f64`** (`f64::from_str`, JSON number literals): `ofDecimal neg d e10` is the IEEE-754 rounding
of the exact decimal value `d · 10^e10` (as the rational `d·10^max(e10,0) / 10^max(-e10,0)`), for EVERY `d`, `e10`:
the model's shortcuts (`e10 > 400 ↦ ±∞`, `e10 + #digits < -400 ↦ ±0`) are proved to agree with the rounding. -/
theorem ofDecimal_IEEE (neg : Bool) (d : Nat) (e10 : Int) :
    Rounds neg (d * 10 ^ e10.toNat * S) (10 ^ (-e10).toNat) (ofDecimal neg d e10) :=
  (rounds_iff _ _ _ (Nat.pow_pos (by decide)) _).mpr (ofDecimal_eq_roundUnits neg d e10)

/-- **remainder** (`%`, C `fmod`) is exact — no rounding: the result is the representable `x mod y` with the
sign of the dividend -/
theorem rem_exact (a b : Bool) (x y : Nat) (hx : Grid x) (hy : Grid y) (hy0 : y ≠ 0) :
    ∃ r, rem (fin a x) (fin b y) = fin a r ∧ Grid r ∧ r < y ∧ ∃ n, x = n * y + r :=
  ⟨x % y, rem_fin a b x y hy0, onGrid_mod hx hy hy0, Nat.mod_lt _ (Nat.pos_of_ne_zero hy0),
    x / y, by rw [Nat.mul_comm]; exact (Nat.div_add_mod x y).symm⟩

/-! ## examples (closed evaluator terms) -/

/-- 0.1 + 0.2 = 0.30000000000000004 ≠ 0.3 -/
example : add (ofDecimal false 1 (-1)) (ofDecimal false 2 (-1)) = ofDecimal false 30000000000000004 (-17) := by
  decide +kernel
example : add (ofDecimal false 1 (-1)) (ofDecimal false 2 (-1)) ≠ ofDecimal false 3 (-1) := by decide +kernel
/-- 2^53 + 1 = 2^53 (tie, even significand) ; 2^53 + 3 is the tie between 2^53+2 (odd) and 2^53+4 (even) -/
example : add (ofNat (2 ^ 53)) (ofNat 1) = ofNat (2 ^ 53) := by decide +kernel
example : ofNat (2 ^ 53 + 1) = ofNat (2 ^ 53) := by decide +kernel
example : ofNat (2 ^ 53 + 3) = ofNat (2 ^ 53 + 4) := by decide +kernel
example : add (ofNat (2 ^ 53 + 2)) (ofNat 1) = ofNat (2 ^ 53 + 4) := by decide +kernel
example : sigEven (2 ^ 53 * S) ∧ ¬ sigEven ((2 ^ 53 + 2) * S) ∧ sigEven ((2 ^ 53 + 4) * S) := by decide +kernel
/-- subnormals: 5e-324 / 2 = 0 (tie between 0 and 1 unit, 0 is even); 3 units / 2 = 2 units (tie 1 | 2) -/
example : div (fin false 1) (ofNat 2) = fin false 0 := by decide +kernel
example : div (ofDecimal false 5 (-324)) (ofNat 2) = fin false 0 := by decide +kernel
example : div (fin true 3) (ofNat 2) = fin true 2 := by decide +kernel
/-- overflow: 1e200 · 1e200 = ∞; largest finite + 2^970 (half an ulp, tie → even = 2^1024) = ∞, one unit less stays finite -/
example : mul (ofDecimal false 1 200) (ofDecimal false 1 200) = inf false := by decide +kernel
example : add (fin false (OVF - 2 ^ 2045)) (fin false (2 ^ 2044)) = inf false := by decide +kernel
example : add (fin false (OVF - 2 ^ 2045)) (fin false (2 ^ 2044 - 2 ^ 1991)) = fin false (OVF - 2 ^ 2045) := by
  decide +kernel
example : OnGrid (OVF - 2 ^ 2045) ∧ OnGrid (2 ^ 2044 - 2 ^ 1991) := by decide +kernel
/-- signed zeros: x − x = +0, (−0) + (−0) = −0, (−0) · 5 = −0 -/
example : sub (ofNat 7) (ofNat 7) = fin false 0 := by decide +kernel
example : add (fin true 0) (fin true 0) = fin true 0 := by decide +kernel
example : mul (fin true 0) (ofNat 5) = fin true 0 := by decide +kernel
/-- the hypotheses `0 < den`, `y ≠ 0`, `Grid x` are met by ordinary inputs -/
example : (0 : Nat) < S ∧ Grid S ∧ Grid (3 * S) ∧ (3 * S ≠ 0) := by decide +kernel
/-- decimal literals beyond the clamps: 1e401 = ∞ (also via the long way), 1e-401 = 0, 4.9e-324 = 1 unit -/
example : ofDecimal false 1 401 = inf false ∧ roundUnits false (10 ^ 401 * S) 1 = inf false := by decide +kernel
example : ofDecimal true 1 (-401) = fin true 0 ∧ roundUnits true S (10 ^ 401) = fin true 0 := by decide +kernel
example : ofDecimal false 49 (-325) = fin false 1 := by decide +kernel

end JL.Props.C10
