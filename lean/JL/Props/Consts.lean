import JL.Generated.Consts
import JL.StrArr
/-!
# Tie theorems: the constants the model hard-codes are the ones that stand in the source *now*

`JL/Generated/Consts.lean` is regenerated from `/repo/src/js_op.rs`, `src/value.rs`, `src/op/array.rs` on every run. Each theorem
below says "if the translator still finds the construct, its value is the one the model uses"; an edit of the constant in the
source makes the theorem fail to check on the next run. (When the construct is no longer found the statement is vacuous and the
tie for it is the correspondence check alone — recorded in the evidence.)
-/
namespace JL.Props.Consts
open JL

def inRanges (rs : List (Nat × Nat)) (n : Nat) : Bool := rs.any (fun r => r.1 ≤ n && n ≤ r.2)

/-- the whitespace set of `is_js_whitespace` in the source is the model's `isJsWhitespace` (which `JL.Lemmas.StrNum.ws_eq`
proves equal to ECMA-262's StrWhiteSpaceChar) -/
theorem whitespace_tie (rs : List (Nat × Nat)) (h : Consts.jsWhitespace = some rs) (c : Char) :
    inRanges rs c.toNat = JsOp.isJsWhitespace c := by
  simp only [Consts.jsWhitespace, Option.some.injEq] at h
  subst h
  simp only [inRanges, List.any, JsOp.isJsWhitespace]
  generalize c.toNat = n
  rw [Bool.eq_iff_iff]
  simp only [Bool.or_eq_true, Bool.and_eq_true, decide_eq_true_eq, beq_iff_eq, Bool.or_false]
  omega

/-- the range limits of `to_number_value` in the source are 2^63 and 2^64 -/
theorem i64_limit_tie (d : Nat) (e : Int) (h : Consts.i64Limit = some (d, e)) : F64.ofDecimal false d e = I64_LIMIT := by
  simp only [Consts.i64Limit, Option.some.injEq, Prod.mk.injEq] at h
  obtain ⟨rfl, rfl⟩ := h
  decide +kernel

theorem u64_limit_tie (d : Nat) (e : Int) (h : Consts.u64Limit = some (d, e)) : F64.ofDecimal false d e = U64_LIMIT := by
  simp only [Consts.u64Limit, Option.some.injEq, Prod.mk.injEq] at h
  obtain ⟨rfl, rfl⟩ := h
  decide +kernel

/-- the exact-integer threshold of `number_eq` in the source is the model's `F1e30` -/
theorem in_int_limit_tie (d : Nat) (e : Int) (h : Consts.inIntLimit = some (d, e)) : F64.ofDecimal false d e = ArrOp.F1e30 := by
  simp only [Consts.inIntLimit, Option.some.injEq, Prod.mk.injEq] at h
  obtain ⟨rfl, rfl⟩ := h
  decide +kernel

end JL.Props.Consts
