import JL.Lemmas.Monad
/-!
# C02 — only single-key objects keyed by an operator name are rules; the rest is literal
-/
namespace JL.Props.C02
open JL Json

/-- the supported operator names: the full JsonLogic set plus `?:` (written from the property / documentation) -/
def documentedNames : List Str :=
  ["==", "===", "!=", "!==", "!", "!!", "<", "<=", ">", ">=", "+", "-", "*", "/", "%", "max", "min",
   "merge", "in", "cat", "substr", "log", "var", "missing", "missing_some",
   "if", "?:", "or", "and", "map", "filter", "reduce", "all", "some", "none"].map String.toList

def allEntries : List Entry := Tables.eager ++ Tables.lazy ++ Tables.data

/-- a value is an operation iff it is an object with exactly one key and that key is a documented name -/
def isOperation : Json → Bool
  | .obj [(k, _)] => documentedNames.contains k
  | _ => false

/-- The keys of the three operator tables *as regenerated from the source on this run* are exactly the 35
documented names, each once (so the tables are disjoint), and every `symbol` equals its key. -/
theorem generated_names :
    (allEntries.map (·.key)).Perm documentedNames ∧ (allEntries.map (·.key)).Nodup ∧ allEntries.all (fun e => e.symbol == e.key) = true := by
  refine ⟨?_, ?_, ?_⟩
  · decide
  · decide
  · decide

theorem findEntry_none_of_not_mem (k : Str) (es : List Entry) (h : k ∉ es.map (·.key)) : findEntry k es = none := by
  induction es with
  | nil => rfl
  | cons e es ih =>
    simp only [List.map_cons, List.mem_cons, not_or] at h
    unfold findEntry
    rw [if_neg (fun hk => h.1 hk.symm)]
    exact ih h.2

/-- exact match: a key is recognised iff it is (exactly, as a string) one of the documented names -/
theorem lookup_iff (k : Str) : (lookupOp k).isSome = documentedNames.contains k := by
  by_cases h : documentedNames.contains k = true
  · rw [h]
    have : k ∈ documentedNames := by simpa using h
    simp only [documentedNames, List.map_cons, List.map_nil, List.mem_cons, List.not_mem_nil, or_false] at this
    rcases this with h | h | h | h | h | h | h | h | h | h | h | h | h | h | h | h | h | h | h | h | h | h | h | h | h | h | h | h | h | h | h | h | h | h | h <;> subst h <;> decide
  · have hne : documentedNames.contains k = false := by simpa using h
    rw [hne]
    have hnm : k ∉ documentedNames := by simpa using hne
    have hperm := generated_names.1
    have hk : k ∉ allEntries.map (·.key) := fun hm => hnm (hperm.mem_iff.mp hm)
    simp only [allEntries, List.map_append, List.mem_append, not_or] at hk
    unfold lookupOp
    rw [findEntry_none_of_not_mem k _ hk.1.1, findEntry_none_of_not_mem k _ hk.1.2, findEntry_none_of_not_mem k _ hk.2]
    rfl

theorem check_literal (v : Json) (h : isOperation v = false) : check v = true := by
  unfold check
  split
  · rename_i k a
    have hl : lookupOp k = none := by
      have := lookup_iff k
      simp only [isOperation] at h
      rw [h] at this
      simpa using this
    simp [hl]
  · rfl

theorem run_literal (v d : Json) (h : isOperation v = false) : run v d = ⟨[], .ok v⟩ := by
  unfold run
  split
  · rename_i k a
    have hl : lookupOp k = none := by
      have := lookup_iff k
      simp only [isOperation] at h
      rw [h] at this
      simpa using this
    simp [hl]
  · rfl

/-- **Literal identity.** Every value that is not a single-key object keyed by a documented operator name —
primitives, arrays, `{}`, multi-key objects, single-key objects with any other key (prefixes, case variants,
padded names, …) — evaluates to itself, structurally identical, with no log line, whatever the data. -/
theorem literal_id (v d : Json) (h : isOperation v = false) : apply v d = ⟨[], .ok v⟩ := by
  unfold apply
  rw [check_literal v h, run_literal v d h]
  rfl

/-- Arrays are never operations: an array literal (also one whose elements look like operations) is returned as is. -/
theorem array_literal_inert (xs : List Json) (d : Json) : apply (.arr xs) d = ⟨[], .ok (.arr xs)⟩ :=
  literal_id _ _ rfl

/-- Multi-key objects are never operations, whatever their keys. -/
theorem multikey_inert (kv₁ kv₂ : Str × Json) (rest : List (Str × Json)) (d : Json) :
    apply (.obj (kv₁ :: kv₂ :: rest)) d = ⟨[], .ok (.obj (kv₁ :: kv₂ :: rest))⟩ :=
  literal_id _ _ rfl

/-- Dispatch: a single-key object keyed by a documented name is not returned as a literal by the parse phase —
its operand shape and count are validated against that operator's arity descriptor. -/
theorem dispatch (k : Str) (hk : documentedNames.contains k = true) : ∃ kind ar, lookupOp k = some (kind, ar) := by
  have := lookup_iff k
  rw [hk] at this
  cases h : lookupOp k with
  | none => simp [h] at this
  | some p => exact ⟨p.1, p.2, rfl⟩

/-! non-vacuity -/
example : isOperation (.obj [("var ".toList, .str "a".toList)]) = false := by decide
example : isOperation (.obj [("VAR".toList, .null)]) = false := by decide
example : isOperation (.obj [("if".toList, .null), ("note".toList, .null)]) = false := by decide
example : isOperation (.obj [("?:".toList, .arr [])]) = true := by decide

end JL.Props.C02
