import JL.Lemmas.Monad
/-!
# C02 — only single-key objects keyed by an operator name are rules; the rest is literal
-/
namespace JL.Props.C02
open JL Json

/-- the supported operator names: the full JsonLogic set plus `?:` (written from the property / documentation) -/
def documentedNames : List Str :=
  ["==", "===", "!=", "!==", "!", "!!", "<", "<=", ">", ">=", "+", "-", "*", "/", "%", "max", "min",
   "merge", "in", "cat", "substr", "log", "var", "missing", "missing_some",
   "if", "?:", "or", "and", "map", "filter", "reduce", "all", "some", "none"].map String.toList

def allEntries : List Entry := Tables.eager ++ Tables.lazy ++ Tables.data

/-- a value is an operation iff it is an object with exactly one key and that key is a documented name -/
def isOperation : Json → Bool
  | .obj [(k, _)] => documentedNames.contains k
  | _ => false

/-- The keys of the three operator tables *as regenerated from the source on this run* are exactly the 35
documented names, each once (so the tables are disjoint), and every `symbol` equals its key. -/
theorem generated_names :
    (allEntries.map (·.key)).Perm documentedNames ∧ (allEntries.map (·.key)).Nodup ∧ allEntries.all (fun e => e.symbol == e.key) = true := by
  refine ⟨?_, ?_, ?_⟩
  · decide
  · decide
  · decide

theorem findEntry_none_of_not_mem (k : Str) (es : List Entry) (h : k ∉ es.map (·.key)) : findEntry k es = none := by
  induction es with
  | nil => rfl
  | cons e es ih =>
    simp only [List.map_cons, List.mem_cons, not_or] at h
    unfold findEntry
    rw [if_neg (fun hk => h.1 hk.symm)]
    exact ih h.2

/-- exact match: a key is recognised iff it is (exactly, as a string) one of the documented names -/
theorem lookup_iff (k : Str) : (lookupOp k).isSome = documentedNames.contains k := by
  by_cases h : documentedNames.contains k = true
  · rw [h]
    have : k ∈ documentedNames := by simpa using h
    simp only [documentedNames, List.map_cons, List.map_nil, List.mem_cons, List.not_mem_nil, or_false] at this
    rcases this with h | h | h | h | h | h | h | h | h | h | h | h | h | h | h | h | h | h | h | h | h | h | h | h | h | h | h | h | h | h | h | h | h | h | h <;> subst h <;> decide
  · have hne : documentedNames.contains k = false := by simpa using h
    rw [hne]
    have hnm : k ∉ documentedNames := by simpa using hne
    have hperm := generated_names.1
    have hk : k ∉ allEntries.map (·.key) := fun hm => hnm (hperm.mem_iff.mp hm)
    simp only [allEntries, List.map_append, List.mem_append, not_or] at hk
    unfold lookupOp
    rw [findEntry_none_of_not_mem k _ hk.1.1, findEntry_none_of_not_mem k _ hk.1.2, findEntry_none_of_not_mem k _ hk.2]
    rfl

theorem check_literal (v : Json) (h : isOperation v = false) : check v = true := by
  unfold check
  split
  · rename_i k a
    have hl : lookupOp k = none := by
      have := lookup_iff k
      simp only [isOperation] at h
      rw [h] at this
      simpa using this
    simp [hl]
  · rfl

theorem run_literal (v d : Json) (h : isOperation v = false) : run v d = ⟨[], .ok v⟩ := by
  unfold run
  split
  · rename_i k a
    have hl : lookupOp k = none := by
      have := lookup_iff k
      simp only [isOperation] at h
      rw [h] at this
      simpa using this
    simp [hl]
  · rfl

/-- **Literal identity.** Every value that is not a single-key object keyed by a documented operator name —
primitives, arrays, `{}`, multi-key objects, single-key objects with any other key (prefixes, case variants,
padded names, …) — evaluates to itself, structurally identical, with no log line, whatever the data. -/
theorem literal_id (v d : Json) (h : isOperation v = false) : apply v d = ⟨[], .ok v⟩ := by
  unfold apply
  rw [check_literal v h, run_literal v d h]
  rfl

/-- Arrays are never operations: an array literal (also one whose elements look like operations) is returned as is. -/
theorem array_literal_inert (xs : List Json) (d : Json) : apply (.arr xs) d = ⟨[], .ok (.arr xs)⟩ :=
  literal_id _ _ rfl

/-- Multi-key objects are never operations, whatever their keys. -/
theorem multikey_inert (kv₁ kv₂ : Str × Json) (rest : List (Str × Json)) (d : Json) :
    apply (.obj (kv₁ :: kv₂ :: rest)) d = ⟨[], .ok (.obj (kv₁ :: kv₂ :: rest))⟩ :=
  literal_id _ _ rfl

/-- Dispatch: a single-key object keyed by a documented name is not returned as a literal by the parse phase —
its operand shape and count are validated against that operator's arity descriptor. -/
theorem dispatch (k : Str) (hk : documentedNames.contains k = true) : ∃ kind ar, lookupOp k = some (kind, ar) := by
  have := lookup_iff k
  rw [hk] at this
  cases h : lookupOp k with
  | none => simp [h] at this
  | some p => exact ⟨p.1, p.2, rfl⟩

/-! ## literals in operand position are inert -/

theorem checkList_literals (xs : List Json) (h : ∀ x ∈ xs, isOperation x = false) : checkList xs = true := by
  induction xs with
  | nil => rfl
  | cons x xs ih =>
    simp only [checkList, Bool.and_eq_true]
    exact ⟨check_literal x (h x List.mem_cons_self), ih (fun y hy => h y (List.mem_cons_of_mem _ hy))⟩

/-- a list of literal operands evaluates to itself: no element is interpreted, nothing is logged -/
theorem runList_literals (xs : List Json) (d : Json) (h : ∀ x ∈ xs, isOperation x = false) :
    runList xs d = ⟨[], .ok xs⟩ := by
  induction xs with
  | nil => rfl
  | cons x xs ih =>
    simp only [runList]
    rw [run_literal x d (h x List.mem_cons_self), ih (fun y hy => h y (List.mem_cons_of_mem _ hy))]
    rfl

/-- **Literal operands are inert (eager operators).** If every operand of an eager operator is a literal (a
non-operation: in particular any array, also one whose elements look like operations), the operator's
implementation receives exactly those values: `{k: [v₁ … vₙ]}` is `k`'s function applied to `[v₁ … vₙ]`. -/
theorem literal_inert (k : Str) (ar : Arity) (xs : List Json) (d : Json)
    (hk : lookupOp k = some (.eager, ar)) (h : ∀ x ∈ xs, isOperation x = false) :
    run (.obj [(k, .arr xs)]) d = execEager k xs := by
  conv => lhs; unfold run
  simp only [hk, runList_literals xs d h]
  exact M.ext (by simp) (by simp)

/-- the same through `apply`: the count is validated, then the operator sees the literals themselves -/
theorem literal_inert_apply (k : Str) (ar : Arity) (xs : List Json) (d : Json)
    (hk : lookupOp k = some (.eager, ar)) (h : ∀ x ∈ xs, isOperation x = false) :
    apply (.obj [(k, .arr xs)]) d = if ar.isValidLen xs.length then execEager k xs else M.err := by
  unfold apply
  rw [literal_inert k ar xs d hk h]
  have : check (.obj [(k, .arr xs)]) = ar.isValidLen xs.length := by
    unfold check; simp [hk, checkList_literals xs h]
  rw [this]

/-- **… and data operators** (`var`, `missing`, `missing_some`) -/
theorem literal_inert_data (k : Str) (ar : Arity) (xs : List Json) (d : Json)
    (hk : lookupOp k = some (.data, ar)) (h : ∀ x ∈ xs, isOperation x = false) :
    run (.obj [(k, .arr xs)]) d = execData k d xs := by
  conv => lhs; unfold run
  simp only [hk, runList_literals xs d h]
  exact M.ext (by simp) (by simp)

/-- an array literal as an operand reaches the operator as the value it is, whatever it contains -/
theorem array_operand_inert (xs : List Json) (d : Json) : run (.arr xs) d = ⟨[], .ok (.arr xs)⟩ :=
  run_literal _ _ rfl

/-- instance: `merge` of one array literal returns the array unchanged, even when its elements are operation-shaped -/
theorem merge_array_literal (xs : List Json) (d : Json) :
    apply (.obj [("merge".toList, .arr [.arr xs])]) d = ⟨[], .ok (.arr xs)⟩ := by
  have hk : lookupOp "merge".toList = some (.eager, .any) := by decide
  rw [literal_inert_apply _ _ _ d hk (by intro x hx; simp at hx; subst hx; rfl)]
  simp [Arity.isValidLen, execEager, ArrOp.merge]

/-! ## no prefix, case or whitespace variants -/

/-- **Exact match.** Being an operation is decided by exact membership of the key in the list of documented names —
nothing else about the key (a recognised prefix, its lower-cased or trimmed form) matters. -/
theorem isOperation_single (k : Str) (v : Json) : isOperation (.obj [(k, v)]) = documentedNames.contains k := rfl

/-- a single-key object whose key is not *exactly* a documented name is a literal -/
theorem unknown_key_literal (k : Str) (v d : Json) (h : documentedNames.contains k = false) :
    apply (.obj [(k, v)]) d = ⟨[], .ok (.obj [(k, v)])⟩ :=
  literal_id _ _ h

/-- no documented name contains a whitespace or an upper-case character … -/
theorem names_no_ws_upper : documentedNames.all (fun k => k.all (fun c => !c.isWhitespace && !c.isUpper)) = true := by
  decide

/-- … hence **no key with surrounding (or inner) whitespace and no key with a capital letter is recognised**: every
padded variant `" var"`, `"var "`, `"\tif"` and every case variant `"Var"`, `"IF"`, `"Max"` of any name is a literal. -/
theorem no_case_ws_variant (k : Str) (v d : Json) (h : k.any (fun c => c.isWhitespace || c.isUpper) = true) :
    apply (.obj [(k, v)]) d = ⟨[], .ok (.obj [(k, v)])⟩ := by
  apply unknown_key_literal
  rw [Bool.eq_false_iff]
  intro hc
  have hm : k ∈ documentedNames := by simpa using hc
  have := List.all_eq_true.mp names_no_ws_upper k hm
  obtain ⟨c, hcm, hc'⟩ := List.any_eq_true.mp h
  have := List.all_eq_true.mp this c hcm
  revert this hc'
  cases c.isWhitespace <;> cases c.isUpper <;> simp

/-- padding a documented name with a space (either side), or appending/prepending *any* character `c`, gives a
recognised key only when the result is itself, exactly, a documented name (e.g. `"!" ++ "="`, `"<" ++ "="`) -/
theorem no_prefix_case_ws (k' : Str) (v : Json) :
    isOperation (.obj [(k', v)]) = true ↔ k' ∈ documentedNames := by
  simp [isOperation]

/-- the extensions of documented names by one character that are recognised are exactly these six; all other
`k ++ [c]` are literals -/
theorem one_char_extensions (k : Str) (c : Char) (hk : k ∈ documentedNames) :
    documentedNames.contains (k ++ [c]) = true ↔
      (k ++ [c]) ∈ ["===", "!=", "!==", "!!", "<=", ">="].map String.toList := by
  simp only [documentedNames, List.map_cons, List.map_nil, List.mem_cons, List.not_mem_nil, or_false] at hk
  rcases hk with h | h | h | h | h | h | h | h | h | h | h | h | h | h | h | h | h | h | h | h | h | h | h | h | h | h | h | h | h | h | h | h | h | h | h <;>
    subst h <;> simp [documentedNames]

/-! non-vacuity -/
example : isOperation (.obj [("var ".toList, .str "a".toList)]) = false := by decide
example : isOperation (.obj [("VAR".toList, .null)]) = false := by decide
example : isOperation (.obj [("if".toList, .null), ("note".toList, .null)]) = false := by decide
example : isOperation (.obj [("?:".toList, .arr [])]) = true := by decide

/-- `literal_inert`: the hypotheses are met by operands that *look like* operations nested in literals -/
example : lookupOp "cat".toList = some (.eager, .any) := by decide
example : ∀ x ∈ [Json.arr [.obj [("var".toList, .str "a".toList)]], .obj [("var".toList, .null), ("x".toList, .null)]],
    isOperation x = false := by decide
example : apply (.obj [("merge".toList, .arr [.arr [.obj [("log".toList, .str "LEAK".toList)]]])]) .null
    = ⟨[], .ok (.arr [.obj [("log".toList, .str "LEAK".toList)]])⟩ := by decide +kernel
/-- `no_case_ws_variant`: the hypothesis is met by padded and capitalised names -/
example : (" var".toList.any fun c => c.isWhitespace || c.isUpper) = true ∧ ("var\t".toList.any fun c => c.isWhitespace || c.isUpper) = true
    ∧ ("Var".toList.any fun c => c.isWhitespace || c.isUpper) = true ∧ ("IF".toList.any fun c => c.isWhitespace || c.isUpper) = true := by decide
/-- prefixes and extensions of names that are not themselves names are literals -/
example : isOperation (.obj [("va".toList, .null)]) = false ∧ isOperation (.obj [("vars".toList, .null)]) = false
    ∧ isOperation (.obj [("=".toList, .null)]) = false ∧ isOperation (.obj [("====".toList, .null)]) = false
    ∧ isOperation (.obj [("missing_".toList, .null)]) = false ∧ isOperation (.obj [("".toList, .null)]) = false := by decide
/-- … and those that are names are dispatched as what they are -/
example : isOperation (.obj [("!".toList, .null)]) = true ∧ isOperation (.obj [("!=".toList, .null)]) = true ∧ isOperation (.obj [("!==".toList, .null)]) = true := by decide

end JL.Props.C02

namespace JL.Props.C02
open JL

/-- the operator keys the hand-written model implements, per table (`execEager`, `execData`, the lazy branch of `run`) -/
def modelEager : List Str := ["==", "!=", "===", "!==", "!", "!!", "<", "<=", ">", ">=", "+", "*", "-", "/", "%", "max", "min",
  "merge", "in", "cat", "substr", "log"].map String.toList
def modelData : List Str := ["var", "missing", "missing_some"].map String.toList
def modelLazy : List Str := ["if", "?:", "or", "and", "map", "filter", "reduce", "all", "some", "none"].map String.toList

/-- **The model covers the tables as they stand in the source now**: every key of each regenerated table is implemented by the
model *in that same table's evaluation discipline* (eager / data / lazy), and vice versa. Moving an operator between tables, or
adding one, makes this fail to check (the model's dispatch would be stale). -/
theorem model_covers_tables :
    (Tables.eager.map (·.key)).Perm modelEager ∧ (Tables.data.map (·.key)).Perm modelData ∧ (Tables.lazy.map (·.key)).Perm modelLazy := by
  refine ⟨?_, ?_, ?_⟩ <;> decide

end JL.Props.C02
