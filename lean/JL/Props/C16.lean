import JL.Lemmas.Monad
/-!
# C16 — `cat` concatenates JS string forms; `substr` slices by Unicode character
-/
namespace JL.Props.C16
open JL Json StrOp

/-- the string form `cat` uses for one operand: strings unchanged, everything else `js_op::to_string` -/
def strForm : Json → Str
  | .str s => s
  | v => JsOp.toString v

/-- `cat` is the concatenation of its operands' string forms -/
theorem cat_spec (items : List Json) : cat items = (items.map strForm).flatten := by
  unfold cat
  induction items with
  | nil => rfl
  | cons x xs ih =>
    simp only [List.flatMap_cons, List.map_cons, List.flatten_cons]
    rw [show (List.flatMap _ xs) = (xs.map strForm).flatten from ih]
    cases x <;> rfl

theorem cat_append (xs ys : List Json) : cat (xs ++ ys) = cat xs ++ cat ys := by
  simp [cat]

/-- concatenating in pieces equals concatenating at once -/
theorem cat_pieces (xs ys : List Json) : cat (xs ++ ys) = cat [.str (cat xs), .str (cat ys)] := by
  rw [cat_append]; simp [cat]

theorem op_cat (items : List Json) : execEager "cat".toList items = ⟨[], .ok (.str (cat items))⟩ := by simp [execEager]

/-- `substr` counts in characters: the result is a contiguous run of characters of the string -/
theorem substr_is_slice (s : Str) (i : Json) (l : Option Json) (r : Json) (h : substr (.str s) i l = some r) :
    ∃ st cnt, r = .str ((s.drop st).take cnt) := by
  unfold substr at h
  simp only at h
  split at h
  · cases h
  · split at h
    · simp only [Option.some.injEq] at h; exact ⟨_, _, h.symm⟩
    · split at h
      · cases h
      · simp only [Option.some.injEq] at h; exact ⟨_, _, h.symm⟩

/-- for every string and every start `i ≥ 0`, start `i` without length drops `min i len` characters -/
theorem substr_nonneg_start (s : Str) (i : Nat) (hi : i < 2 ^ 63) :
    substr (.str s) (.num (.pos i)) none = some (.str (s.drop (min s.length i))) := by
  have h2 : (Num.pos i).asI64 = some (i : Int) := by simp [Num.asI64, hi]
  simp only [substr, intArg, h2, substrBounds]
  have h3 : ¬ ((i : Int) < 0) := by omega
  simp only [h3, if_false, Int.natAbs_natCast]
  congr 2
  rw [List.take_of_length_le]
  simp only [List.length_drop]
  have : min s.length i ≤ s.length := Nat.min_le_left _ _
  simp only [this, if_true]
  omega

example : substr (.str "éa".toList) (.num (.neg 1)) none = some (.str "a".toList) := by rfl
example : substr (.str "abc".toList) (.num (.neg (2^63))) none = some (.str "abc".toList) := by rfl

end JL.Props.C16
