import JL.Lemmas.Monad
import JL.Lemmas.C16
/-!
# C16 — `cat` concatenates JS string forms; `substr` slices by Unicode character
-/
namespace JL.Props.C16
open JL Json StrOp JL.Spec

/-- the string form `cat` uses for one operand: strings unchanged, everything else `js_op::to_string` -/
def strForm : Json → Str
  | .str s => s
  | v => JsOp.toString v

/-- `cat` is the concatenation of its operands' string forms -/
theorem cat_spec (items : List Json) : cat items = (items.map strForm).flatten := by
  unfold cat
  induction items with
  | nil => rfl
  | cons x xs ih =>
    simp only [List.flatMap_cons, List.map_cons, List.flatten_cons]
    rw [show (List.flatMap _ xs) = (xs.map strForm).flatten from ih]
    cases x <;> rfl

theorem cat_append (xs ys : List Json) : cat (xs ++ ys) = cat xs ++ cat ys := by
  simp [cat]

/-- concatenating in pieces equals concatenating at once -/
theorem cat_pieces (xs ys : List Json) : cat (xs ++ ys) = cat [.str (cat xs), .str (cat ys)] := by
  rw [cat_append]; simp [cat]

theorem op_cat (items : List Json) : execEager "cat".toList items = ⟨[], .ok (.str (cat items))⟩ := by simp [execEager]

/-- `substr` counts in characters: the result is a contiguous run of characters of the string -/
theorem substr_is_slice (s : Str) (i : Json) (l : Option Json) (r : Json) (h : substr (.str s) i l = some r) :
    ∃ st cnt, r = .str ((s.drop st).take cnt) := by
  unfold substr at h
  simp only at h
  split at h
  · cases h
  · split at h
    · simp only [Option.some.injEq] at h; exact ⟨_, _, h.symm⟩
    · split at h
      · cases h
      · simp only [Option.some.injEq] at h; exact ⟨_, _, h.symm⟩

/-- for every string and every start `i ≥ 0`, start `i` without length drops `min i len` characters -/
theorem substr_nonneg_start (s : Str) (i : Nat) (hi : i < 2 ^ 63) :
    substr (.str s) (.num (.pos i)) none = some (.str (s.drop (min s.length i))) := by
  have h2 : (Num.pos i).asI64 = some (i : Int) := by simp [Num.asI64, hi]
  simp only [substr, intArg, h2, substrBounds]
  have h3 : ¬ ((i : Int) < 0) := by omega
  simp only [h3, if_false, Int.natAbs_natCast]
  congr 2
  rw [List.take_of_length_le]
  simp only [List.length_drop]
  have : min s.length i ≤ s.length := Nat.min_le_left _ _
  simp only [this, if_true]
  omega

/-! ## the string-form table of the property -/

/-- the string form is `js_op::to_string` on every value (which leaves strings unchanged) -/
theorem strForm_eq_toString (v : Json) : strForm v = JsOp.toString v := by
  cases v <;> rfl

/-- what an array element contributes to the comma-joined form of its array: `null` nothing, anything else its string form -/
def elemForm : Json → Str
  | .null => []
  | v => strForm v

theorem strForm_str (s : Str) : strForm (.str s) = s := rfl
theorem strForm_null : strForm .null = "null".toList := by rfl
theorem strForm_true : strForm (.bool true) = "true".toList := by rfl
theorem strForm_false : strForm (.bool false) = "false".toList := by rfl
/-- numbers: their JSON text (`Display for Number`) -/
theorem strForm_num (n : Num) : strForm (.num n) = n.toStr := by rfl
theorem strForm_obj (kvs : List (Str × Json)) : strForm (.obj kvs) = "[object Object]".toList := by rfl

theorem toStringElems_eq_map : ∀ xs : List Json, JsOp.toStringElems xs = xs.map elemForm
  | [] => by rfl
  | x :: rest => by
      have ih := toStringElems_eq_map rest
      cases x
      all_goals
        rw [List.map_cons, ← ih]
        first | rfl | (rw [elemForm, strForm_eq_toString]; rfl)

/-- arrays: the element forms joined with commas; `null` ELEMENTS are empty (`[null,1]` ↦ `",1"`), nested arrays recursively -/
theorem strForm_arr (xs : List Json) : strForm (.arr xs) = joinWith [','] (xs.map elemForm) := by
  rw [← toStringElems_eq_map]; rfl

theorem elemForm_null : elemForm .null = [] := rfl
theorem elemForm_nonnull (v : Json) (h : v ≠ .null) : elemForm v = strForm v := by
  cases v <;> first | rfl | exact absurd rfl h

example : cat [.null, .arr [.null, .num (.pos 1), .arr [.str "a".toList, .null]], .obj [], .bool true, .num (.neg 3), .str "é".toList]
    = "null,1,a,[object Object]true-3é".toList := by decide +kernel
example : cat [.num (.flt (.fin false (F64.S + F64.S / 2)))] = "1.5".toList := by decide +kernel

/-! ## `substr`, in characters, against `Spec.substrSpec` -/

/-- `substr(s, i)` for EVERY integer `i` an `i64` can hold (indeed every integer): the characters after the start
`Spec.substrStart` — `i ≥ 0` ↦ drop `min i len`, `i < 0` ↦ drop `len − min |i| len`. No hypothesis on the string. -/
theorem substr_spec_start (s : Str) (ni : Num) (i : Int) (hi : ni.asI64 = some i) :
    substr (.str s) (.num ni) none = some (.str (substrSpec s i none)) := by
  simp only [substr, intArg, hi]
  rw [← JL.Lemmas.C16.slice_none]

/-- `substr(s, i, l)` for every pair of 64-bit integers: start as above; `l ≥ 0` ↦ take `l` characters,
`l < 0` ↦ stop `|l|` characters before the end (empty if that is before the start); everything clamped to the string.
The only hypothesis: the string is shorter than `2^63` characters (so that `start + l` cannot overflow a `usize`). -/
theorem substr_spec_len (s : Str) (ni nl : Num) (i l : Int) (hs : s.length < 2 ^ 63)
    (hi : ni.asI64 = some i) (hl : nl.asI64 = some l) :
    substr (.str s) (.num ni) (some (.num nl)) = some (.str (substrSpec s i (some l))) := by
  have hl' : l < 2 ^ 63 := by
    cases nl with
    | pos n => simp only [Num.asI64] at hl; split at hl <;> simp at hl; omega
    | neg m => simp only [Num.asI64, Option.some.injEq] at hl; omega
    | flt f => simp [Num.asI64] at hl
  simp only [substr, intArg, hi, hl]
  rw [← JL.Lemmas.C16.slice_some s i l hs hl']

/-- both forms at once; `lim = none` is the two-operand form -/
theorem substr_spec (s : Str) (ni : Num) (i : Int) (lim : Option (Num × Int)) (hs : s.length < 2 ^ 63)
    (hi : ni.asI64 = some i) (hl : ∀ p, lim = some p → p.1.asI64 = some p.2) :
    substr (.str s) (.num ni) (lim.map (fun p => .num p.1)) = some (.str (substrSpec s i (lim.map (·.2)))) := by
  cases lim with
  | none => exact substr_spec_start s ni i hi
  | some p => exact substr_spec_len s ni p.1 i p.2 hs hi (hl p rfl)

/-- every `i64` is the `as_i64` of a well-formed number, so the two theorems above cover all 64-bit integer operands -/
theorem asI64_ofI64 (i : Int) (h1 : -(2 ^ 63) ≤ i) (h2 : i < 2 ^ 63) : (Num.ofI64 i).asI64 = some i ∧ (Num.ofI64 i).WF := by
  unfold Num.ofI64
  split
  · simp only [Num.asI64, Num.WF]; refine ⟨?_, ?_, ?_⟩
    · congr 1; omega
    · omega
    · omega
  · simp only [Num.asI64, Num.WF]
    have : i.toNat < 2 ^ 63 := by omega
    simp only [this, if_true]; refine ⟨?_, ?_⟩
    · congr 1; omega
    · omega

/-- the specification, unfolded: start only -/
theorem substrSpec_none (s : Str) (i : Int) :
    substrSpec s i none = s.drop (if 0 ≤ i then min i.toNat s.length else s.length - min i.natAbs s.length) := rfl

/-- the result never has more characters than asked for, and is a contiguous run of `s` -/
theorem substrSpec_length_le (s : Str) (i l : Int) (h : 0 ≤ l) : (substrSpec s i (some l)).length ≤ l.toNat := by
  simp only [substrSpec, h, if_true, List.length_take]; omega

/-- split / recombine: for every string (any characters) and every `i ≥ 0` an `i64` can hold,
`substr(s,0,i)` followed by `substr(s,i)` is `s` -/
theorem split_recombine (s : Str) (i : Nat) (hs : s.length < 2 ^ 63) (hi : i < 2 ^ 63) :
    ∃ a b, substr (.str s) (.num (.pos 0)) (some (.num (.pos i))) = some (.str a) ∧
           substr (.str s) (.num (.pos i)) none = some (.str b) ∧ a ++ b = s := by
  have h0 : (Num.pos 0).asI64 = some 0 := by simp [Num.asI64]
  have h1 : (Num.pos i).asI64 = some (i : Int) := by simp [Num.asI64, hi]
  refine ⟨_, _, substr_spec_len s _ _ 0 i hs h0 h1, substr_spec_start s _ i h1, ?_⟩
  have hnn : (0 : Int) ≤ (i : Int) := by omega
  simp only [substrSpec, substrStart, hnn, if_true, Int.le_refl, Int.toNat_natCast, Int.toNat_zero,
    Nat.zero_min, List.drop_zero]
  rw [List.take_eq_take_iff.mpr (show min i s.length = min (min i s.length) s.length by omega)]
  exact List.take_append_drop _ _

/-- the same law through `cat` -/
theorem split_recombine_cat (s : Str) (i : Nat) (hs : s.length < 2 ^ 63) (hi : i < 2 ^ 63) (a b : Json)
    (ha : substr (.str s) (.num (.pos 0)) (some (.num (.pos i))) = some a)
    (hb : substr (.str s) (.num (.pos i)) none = some b) : cat [a, b] = s := by
  obtain ⟨a', b', h1, h2, h3⟩ := split_recombine s i hs hi
  rw [h1] at ha; rw [h2] at hb
  cases ha; cases hb
  simpa [cat] using h3

/-! ## type errors: an `Err`, never a panic -/

/-- first operand not a string -/
theorem substr_nonstring (v i : Json) (l : Option Json) (h : ∀ s, v ≠ .str s) : substr v i l = none := by
  cases v <;> first | rfl | exact absurd rfl (h _)

/-- a number that is not an `i64`: a float (even `2.0`), or a positive integer `≥ 2^63` -/
theorem asI64_flt (f : F64) : (Num.flt f).asI64 = none := rfl
theorem asI64_big (n : Nat) (h : 2 ^ 63 ≤ n) : (Num.pos n).asI64 = none := by
  simp only [Num.asI64]; split
  · omega
  · rfl

/-- second operand not an integer (not a number, or `as_i64` fails) -/
theorem substr_bad_index (v i : Json) (l : Option Json) (h : intArg i = none) : substr v i l = none := by
  cases v <;> simp only [substr, h]

theorem intArg_nonnum (v : Json) (h : ∀ n, v ≠ .num n) : intArg v = none := by
  cases v <;> first | rfl | exact absurd rfl (h _)
theorem intArg_num (n : Num) : intArg (.num n) = n.asI64 := rfl

/-- third operand present and not an integer -/
theorem substr_bad_length (v i l : Json) (h : intArg l = none) : substr v i (some l) = none := by
  cases v <;> simp only [substr, h]
  split <;> rfl

/-- `substr` succeeds exactly on (string, integer[, integer]) -/
theorem substr_isSome_iff (v i : Json) (l : Option Json) :
    (substr v i l).isSome = true ↔ (∃ s, v = .str s) ∧ (intArg i).isSome = true ∧ (∀ lv, l = some lv → (intArg lv).isSome = true) := by
  cases v <;> simp only [substr, Option.isSome_none, false_and, reduceCtorEq, exists_false, Bool.false_eq_true]
  rename_i s
  cases hi : intArg i <;> cases l <;> simp
  rename_i lv
  cases hl : intArg lv <;> simp

/-- at the operator: two or three operands give the value or an ordinary error — the panic outcome is for an operand count
the arity table rejects beforehand (C01) -/
theorem op_substr2 (s i : Json) : execEager "substr".toList [s, i] = M.ofOption (substr s i none) := by simp [execEager]
theorem op_substr3 (s i l : Json) (rest : List Json) :
    execEager "substr".toList (s :: i :: l :: rest) = M.ofOption (substr s i (some l)) := by simp [execEager]
theorem op_substr_noPanic (s i : Json) (tl : List Json) : M.NoPanic (execEager "substr".toList (s :: i :: tl)) := by
  cases tl with
  | nil => rw [op_substr2]; cases substr s i none <;> simp [M.NoPanic]
  | cons l rest => rw [op_substr3]; cases substr s i (some l) <;> simp [M.NoPanic]

/-! ## non-vacuity -/
example : substr (.str "éa".toList) (.num (.neg 1)) none = some (.str "a".toList) := by decide +kernel
example : substr (.str "abc".toList) (.num (.neg (2^63))) none = some (.str "abc".toList) := by decide +kernel
example : (Num.neg (2^63)).asI64 = some (-(2^63)) ∧ (Num.neg (2^63)).WF := by decide +kernel
example : substrSpec "abc".toList (-(2^63)) (some (-(2^63))) = [] := by decide +kernel
example : substr (.str "a€𝄞bé".toList) (.num (.pos 1)) (some (.num (.neg 1))) = some (.str "€𝄞b".toList) := by decide +kernel
example : substr (.str "abc".toList) (.num (.pos (2^63 - 1))) (some (.num (.pos (2^63 - 1)))) = some (.str []) := by decide +kernel
example : substr (.str "abc".toList) (.num (.flt (.fin false (2 * F64.S)))) none = none := by decide +kernel
example : substr (.str "abc".toList) (.num (.pos (2^63))) none = none := by decide +kernel
example : substr (.num (.pos 1)) (.num (.pos 1)) none = none := by decide +kernel
example : substr (.str "abc".toList) (.num (.pos 1)) (some (.str "1".toList)) = none := by decide +kernel
example : "a€𝄞bé".toList.length < 2 ^ 63 := by decide +kernel

end JL.Props.C16
