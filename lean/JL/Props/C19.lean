import JL.Wrap
import JL.Lemmas.Monad
/-!
# C19 — the Python module adds only JSON (de)serialisation around the library
-/
namespace JL.Props.C19
open JL Json Wrap

variable {α : Type} (parse : Str → Option Json) (ser : Json → Str) (dumps : Json → Str) (loads : Str → α)

/-- `apply(rule, data)` with defaults = decode (library (encode rule) (encode data)); omitted data means null -/
theorem py_apply_spec (value : Json) (data : Option Json) :
    pyApply parse ser dumps loads value data none none =
      (match native parse ser (dumps value) (dumps (data.getD .null)) with
       | .value res => .value (loads res) | .valueError => .valueError | .crash => .crash) := rfl

theorem py_apply_omitted_data (value : Json) :
    pyApply parse ser dumps loads value none none none = pyApply parse ser dumps loads value (some .null) none none := rfl

/-- `apply_serialized` decodes with the standard decoder when none is supplied, and an omitted data means "null" -/
theorem py_serialized_spec (value : Str) (data : Option Str) :
    pyApplySerialized parse ser loads value data none =
      (match native parse ser value (data.getD "null".toList) with
       | .value res => .value (loads res) | .valueError => .valueError | .crash => .crash) := rfl

/-- every library error and every malformed text is `ValueError`; the only way to anything else is a panic of `apply` -/
theorem native_errors (value data : Str) :
    native parse ser value data = .crash ↔ ∃ r d, parse value = some r ∧ parse data = some d ∧ (apply r d).out = .panic := by
  unfold native
  cases hr : parse value with
  | none => simp
  | some r =>
    cases hd : parse data with
    | none => simp
    | some d => cases hv : (apply r d).out <;> simp [hv]

theorem native_value (value data : Str) (res : Str) :
    native parse ser value data = .value res ↔ ∃ r d v, parse value = some r ∧ parse data = some d ∧ (apply r d).out = .ok v ∧ res = ser v := by
  unfold native
  cases hr : parse value with
  | none => simp
  | some r =>
    cases hd : parse data with
    | none => simp
    | some d => cases hv : (apply r d).out <;> simp [hv, eq_comm]

end JL.Props.C19
