import JL.Lemmas.RoundTripLayout
/-!
# Round trips, part 6 — the serialised form of a value is one line

`Json.ser` never emits a character below U+0020 (in particular no raw newline): strings escape them, numbers are
made of digits and `- + . e`, the rest is punctuation and the three keywords.
-/
namespace JL.Lemmas.RoundTrip
open JL JL.F64 JL.Json JL.Lemmas.StrNum

/-- printable: not a C0 control character -/
def Printable (s : Str) : Prop := ∀ x ∈ s, 32 ≤ x.toNat

theorem printable_nil : Printable [] := by intro x hx; cases hx

theorem printable_append {a b : Str} (ha : Printable a) (hb : Printable b) : Printable (a ++ b) := by
  intro x hx
  rcases List.mem_append.mp hx with h | h
  · exact ha x h
  · exact hb x h

theorem printable_cons {c : Char} {s : Str} (hc : 32 ≤ c.toNat) (hs : Printable s) : Printable (c :: s) := by
  intro x hx
  rcases List.mem_cons.mp hx with h | h
  · rw [h]; exact hc
  · exact hs x h

theorem printable_flatMap {α} (l : List α) (f : α → Str) (h : ∀ a ∈ l, Printable (f a)) :
    Printable (l.flatMap f) := by
  intro x hx
  obtain ⟨a, ha, hxa⟩ := List.mem_flatMap.mp hx
  exact h a ha x hxa

theorem hexDigitLower_ge : ∀ n, n < 16 → 32 ≤ (hexDigitLower n).toNat := by decide

/-! ## strings -/

theorem escapeChar_printable (c : Char) : Printable (escapeChar c) := by
  unfold escapeChar
  repeat' split
  all_goals first
    | (intro x hx; simp only [List.mem_cons, List.not_mem_nil, or_false] at hx
       rcases hx with rfl | rfl <;> decide)
    | skip
  · rename_i hlt
    have h1 : c.toNat / 16 < 16 := by omega
    have h2 : c.toNat % 16 < 16 := by omega
    intro x hx
    simp only [List.mem_cons, List.not_mem_nil, or_false] at hx
    rcases hx with rfl | rfl | rfl | rfl | rfl | rfl
    · decide
    · decide
    · decide
    · decide
    · exact hexDigitLower_ge _ h1
    · exact hexDigitLower_ge _ h2
  · rename_i hge
    intro x hx
    simp only [List.mem_cons, List.not_mem_nil, or_false] at hx
    subst hx; omega

/-- a character is written unescaped iff it is neither `"`, `\\` nor a control character below U+0020 -/
theorem escapeChar_self_iff (c : Char) : escapeChar c = [c] ↔ (c ≠ '"' ∧ c ≠ '\\' ∧ 32 ≤ c.toNat) := by
  constructor
  · intro h
    unfold escapeChar at h
    repeat' split at h
    all_goals first
      | (simp at h; done)
      | skip
    rename_i h1 h2 _ _ _ _ _ h8
    exact ⟨h1, h2, by omega⟩
  · rintro ⟨h1, h2, h3⟩
    unfold escapeChar
    have e3 : ¬ c.toNat = 8 := by omega
    have e4 : ¬ c.toNat = 12 := by omega
    have e5 : c ≠ '\n' := by intro h; subst h; revert h3; decide
    have e6 : c ≠ '\r' := by intro h; subst h; revert h3; decide
    have e7 : c ≠ '\t' := by intro h; subst h; revert h3; decide
    have e8 : ¬ c.toNat < 32 := by omega
    simp only [h1, h2, e3, e4, e5, e6, e7, e8, if_false]

/-- every escape sequence starts with a backslash and has at least two characters -/
theorem escapeChar_escaped (c : Char) (h : ¬ (c ≠ '"' ∧ c ≠ '\\' ∧ 32 ≤ c.toNat)) :
    ∃ x rest, escapeChar c = '\\' :: x :: rest := by
  unfold escapeChar
  repeat' split
  all_goals first
    | exact ⟨_, _, rfl⟩
    | skip
  rename_i h1 h2 _ _ _ _ _ h8
  exact absurd ⟨h1, h2, by omega⟩ h

theorem serStr_printable (s : Str) : Printable (serStr s) := by
  unfold serStr
  refine printable_cons (by decide) (printable_append (printable_flatMap _ _ (fun c _ => escapeChar_printable c)) ?_)
  exact printable_cons (by decide) printable_nil

/-- `serStr` never emits a raw newline -/
theorem serStr_no_newline (s : Str) : '\n' ∉ serStr s := by
  intro h
  have := serStr_printable s _ h
  revert this; decide

/-! ## numbers -/

theorem digit_printable (c : Char) (h : isDigit c = true) : 32 ≤ c.toNat := by
  have := (isDigit_iff c).mp h; omega

theorem natToStr_printable (n : Nat) : Printable (natToStr n) :=
  fun x hx => digit_printable x (natToStr_digits n x hx)

theorem sgn_printable (n : Bool) : Printable (if n = true then ['-'] else []) := by
  cases n
  · exact printable_nil
  · exact printable_cons (by decide) printable_nil

theorem take_printable {s : Str} (h : Printable s) (i : Nat) : Printable (s.take i) :=
  fun x hx => h x (List.mem_of_mem_take hx)

theorem drop_printable {s : Str} (h : Printable s) (i : Nat) : Printable (s.drop i) :=
  fun x hx => h x (List.mem_of_mem_drop hx)

theorem zeros_printable (j : Nat) : Printable (List.replicate j '0') :=
  fun x hx => digit_printable x (zeros_digits j x hx)

theorem layout_printable (n : Bool) (c : Nat) (p : Int) : Printable (layout n c p) := by
  unfold layout
  dsimp only
  have hd := natToStr_printable c
  have hdot : Printable ['.'] := printable_cons (by decide) printable_nil
  split
  · split
    · exact printable_append (printable_append (printable_append (sgn_printable n) hd) (zeros_printable _))
        (printable_cons (by decide) (printable_cons (by decide) printable_nil))
    · split
      · exact printable_append (printable_append (printable_append (sgn_printable n) (take_printable hd _)) hdot)
          (drop_printable hd _)
      · exact printable_append (printable_append (printable_append (sgn_printable n)
          (printable_cons (by decide) (printable_cons (by decide) printable_nil))) (zeros_printable _)) hd
  · refine printable_append (printable_append (sgn_printable n) ?_) ?_
    · split
      · exact hd
      · exact printable_append (printable_append (take_printable hd _) hdot) (drop_printable hd _)
    · split
      · exact printable_append (printable_cons (by decide) (printable_cons (by decide) printable_nil))
          (natToStr_printable _)
      · exact printable_append (printable_cons (by decide) (printable_cons (by decide) printable_nil))
          (natToStr_printable _)

theorem format_printable (f : F64) : Printable (format f) := by
  cases f with
  | nan => intro x hx; revert x; decide
  | inf n => cases n <;> (intro x hx; revert x; decide)
  | fin n k =>
    rw [format_fin]
    split
    · exact printable_append (sgn_printable n) (by intro x hx; revert x; decide)
    · exact layout_printable _ _ _

theorem numToStr_printable (n : Num) : Printable n.toStr := by
  cases n with
  | pos n => exact natToStr_printable n
  | neg m => exact printable_cons (by decide) (natToStr_printable m)
  | flt f => exact format_printable f

/-! ## values -/

mutual
theorem ser_printable : ∀ v : Json, Printable (ser v)
  | .null => by intro x hx; revert x; decide
  | .bool true => by intro x hx; revert x; decide
  | .bool false => by intro x hx; revert x; decide
  | .num n => numToStr_printable n
  | .str s => serStr_printable s
  | .arr xs => by
      unfold ser
      exact printable_cons (by decide) (printable_append (serList_printable xs) (printable_cons (by decide) printable_nil))
  | .obj kvs => by
      unfold ser
      exact printable_cons (by decide) (printable_append (serKvs_printable kvs) (printable_cons (by decide) printable_nil))
theorem serList_printable : ∀ xs : List Json, Printable (serList xs)
  | [] => printable_nil
  | [x] => by unfold serList; exact ser_printable x
  | x :: y :: rest => by
      unfold serList
      exact printable_append (ser_printable x) (printable_cons (by decide) (serList_printable (y :: rest)))
theorem serKvs_printable : ∀ kvs : List (Str × Json), Printable (serKvs kvs)
  | [] => printable_nil
  | [(k, v)] => by
      unfold serKvs
      exact printable_append (serStr_printable k) (printable_cons (by decide) (ser_printable v))
  | (k, v) :: kv :: rest => by
      unfold serKvs
      exact printable_append (printable_append (serStr_printable k) (printable_cons (by decide) (ser_printable v)))
        (printable_cons (by decide) (serKvs_printable (kv :: rest)))
end

end JL.Lemmas.RoundTrip
