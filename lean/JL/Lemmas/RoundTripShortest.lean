import JL.Lemmas.RoundTripRound
import JL.Lemmas.RoundTripDigits
/-!
# Round trips, part 4 — the digits chosen by `shortest` denote a value inside the rounding interval,
hence `ofDecimal` of them is the double they were printed from
-/
namespace JL.Lemmas.RoundTrip
open JL JL.F64 JL.Lemmas.StrNum

set_option exponentiation.threshold 4096

/-- `d · 10^e` as a fraction `decNum / decDen` of units (2^-1074) -/
def decNum (d : Nat) (e : Int) : Nat := if e ≥ 0 then d * 10 ^ e.toNat * S else d * S
def decDen (e : Int) : Nat := if e ≥ 0 then 1 else 10 ^ (-e).toNat

theorem decDen_pos (e : Int) : 0 < decDen e := by
  unfold decDen; split
  · decide
  · exact Nat.pow_pos (by decide)

/-- the exact decimal `d · 10^e` lies in the rounding interval of `k` -/
def DecIn (k d : Nat) (e : Int) : Prop := InIv k (decNum d e) (decDen e)

instance (k d : Nat) (e : Int) : Decidable (DecIn k d e) := by unfold DecIn; exact inferInstance

theorem roundUnits_inside (neg : Bool) (k num den : Nat) (hk0 : k ≠ 0) (hk : OnGrid k) (hd : 0 < den)
    (h : InIv k num den) : roundUnits neg num den = fin neg k := by
  rw [F64.roundUnits_eq, roundK_inside k num den hk0 ((grid_iff k).mp hk.2) hd h]
  have : ¬ (k ≥ OVF) := by have := hk.1; omega
  rw [if_neg this]

theorem interval_bounds (k : Nat) (hk0 : k ≠ 0) (hg : 2 ^ (bitLen k - 53) ∣ k) :
    k ≤ (interval k).1 ∧ (interval k).2.1 ≤ 3 * k := by
  rw [interval_eq]
  have hU : 2 ^ (bitLen k - 53) ≤ k := Nat.le_of_dvd (by omega) hg
  have : 2 ^ (bitLen k - 53) / 2 ≤ 2 ^ (bitLen k - 53) := Nat.div_le_self _ _
  simp only []
  constructor
  · split <;> omega
  · omega

theorem big_pow : 3 * 2 ^ 1024 < 2 * 10 ^ 401 := by decide
theorem small_pow : 2 * 2 ^ 1074 ≤ 10 ^ 401 := by decide

/-- **decimal → double**: a decimal inside the rounding interval of the (non-zero) double `k` converts to `k` -/
theorem ofDecimal_inside (neg : Bool) (k d : Nat) (e : Int) (hk0 : k ≠ 0) (hk : OnGrid k) (hd0 : d ≠ 0)
    (h : DecIn k d e) : ofDecimal neg d e = fin neg k := by
  have hg := (grid_iff k).mp hk.2
  obtain ⟨hb1, hb2⟩ := interval_bounds k hk0 hg
  have hOVF : k < 2 ^ 2098 := hk.1
  have hSe : S = 2 ^ 1074 := rfl
  have hru := roundUnits_inside neg k _ _ hk0 hk (decDen_pos e) h
  unfold DecIn InIv at h
  have h' : (interval k).1 * decDen e ≤ 2 * decNum d e ∧ 2 * decNum d e ≤ (interval k).2.1 * decDen e := by
    split at h <;> omega
  obtain ⟨h1, h2⟩ := h'
  unfold ofDecimal
  have hd0' : (d == 0) = false := by simpa using hd0
  simp only [hd0', Bool.false_eq_true, if_false]
  by_cases he1 : e > 400
  · -- impossible: the value would be ≥ 10^401 > 2^1025
    exfalso
    have hpos : e ≥ 0 := by omega
    simp only [decNum, decDen, hpos, if_true, Nat.mul_one] at h2
    have hp : 10 ^ 401 ≤ 10 ^ e.toNat := Nat.pow_le_pow_right (by decide) (by omega)
    have h3 : 1 * 10 ^ 401 * S ≤ d * 10 ^ e.toNat * S :=
      Nat.mul_le_mul_right _ (Nat.mul_le_mul (by omega) hp)
    have h4 : 2 * 10 ^ 401 * S ≤ 3 * 2 ^ 1024 * S := by
      have : 3 * k < 3 * 2 ^ 1024 * S := by
        rw [hSe, Nat.mul_assoc, ← Nat.pow_add]; omega
      omega
    have := Nat.le_of_mul_le_mul_right h4 S_pos
    have := big_pow
    omega
  · rw [if_neg he1]
    by_cases he2 : e + ((natToStr d).length : Int) < -400
    · -- impossible: the value would be < 10^-400 < 2^-1075
      exfalso
      have hneg : ¬ e ≥ 0 := by omega
      simp only [decNum, decDen, hneg, if_false] at h1
      have hdlt := lt_pow_length d
      have hden : 10 ^ (401 + (natToStr d).length) ≤ 10 ^ (-e).toNat :=
        Nat.pow_le_pow_right (by decide) (by omega)
      rw [Nat.pow_add] at hden
      have hlo : 1 * 10 ^ (-e).toNat ≤ (interval k).1 * 10 ^ (-e).toNat := Nat.mul_le_mul_right _ (by omega)
      have h5 : d * S < 10 ^ (natToStr d).length * S := Nat.mul_lt_mul_of_pos_right hdlt S_pos
      have h6 : 2 * S * 10 ^ (natToStr d).length ≤ 10 ^ 401 * 10 ^ (natToStr d).length :=
        Nat.mul_le_mul_right _ small_pow
      have h7 : 2 * S * 10 ^ (natToStr d).length = 2 * (10 ^ (natToStr d).length * S) := by ac_rfl
      omega
    · rw [if_neg he2]
      by_cases he3 : e ≥ 0
      · simp only [he3, if_true]
        simpa [decNum, decDen, he3] using hru
      · simp only [he3, if_false]
        simpa [decNum, decDen, he3] using hru

/-! ## what the search loop of `shortest` can return -/

theorem forIn_list_inv {α β : Type} (l : List α) (f : α → β → Id (ForInStep β)) (P : β → Prop) (init : β)
    (h0 : P init) (hs : ∀ a ∈ l, ∀ b, P b → P (f a b).run.value) : P (forIn l init f).run := by
  induction l generalizing init with
  | nil => simpa using h0
  | cons a as ih =>
    rw [List.forIn_cons]
    have h1 := hs a (by simp) init h0
    simp only [Id.run_bind]
    cases hfa : (f a init).run with
    | done b => rw [hfa] at h1; simpa using h1
    | yield b =>
      rw [hfa] at h1
      simp only []
      exact ih b h1 (fun a' ha' => hs a' (by simp [ha']))

theorem forIn_some_inv {α σ : Type} (l : List α) (f : α → Option σ × Unit → Id (ForInStep (Option σ × Unit)))
    (Q : σ → Prop) (hs : ∀ a b r, (f a b).run.value.1 = some r → Q r) (r : σ)
    (h : (forIn l (none, ()) f).run.1 = some r) : Q r := by
  have := forIn_list_inv l f (fun b => ∀ r, b.1 = some r → Q r) (none, ()) (by simp)
    (fun a _ b _ r hr => hs a b r hr)
  exact this r h

theorem forIn_result_inv {α σ : Type} (l : List α) (f : α → Option σ × Unit → Id (ForInStep (Option σ × Unit)))
    (Q : σ → Prop) (d r : σ) (hs : ∀ a b r, (f a b).run.value.1 = some r → Q r)
    (h : (match (forIn l (none, ()) f).run.1 with | some r => r | none => d) = r) (hne : r ≠ d) : Q r := by
  cases hres : (forIn l (none, ()) f).run.1 with
  | none => rw [hres] at h; exact absurd h.symm hne
  | some r' =>
    rw [hres] at h
    simp only [] at h
    subst h
    exact forIn_some_inv l f Q hs r' hres

/-- the acceptance test of `shortest` (`inside`) is membership in the rounding interval -/
theorem inside_decIn (k lo2 hi2 : Nat) (incl : Bool) (hiv : interval k = (lo2, hi2, incl)) (p : Int) (A B c : Nat)
    (hAB : (if p ≥ 0 then (10 ^ p.toNat * S, 1) else (S, 10 ^ (-p).toNat)) = (A, B))
    (h : (if incl = true then decide (lo2 * B ≤ 2 * c * A) && decide (2 * c * A ≤ hi2 * B)
          else decide (lo2 * B < 2 * c * A) && decide (2 * c * A < hi2 * B)) = true) : DecIn k c p := by
  unfold DecIn InIv decNum decDen
  rw [hiv]
  simp only []
  by_cases hp : p ≥ 0
  · simp only [hp, if_true, Prod.mk.injEq] at hAB ⊢
    obtain ⟨rfl, rfl⟩ := hAB
    have e : 2 * (c * 10 ^ p.toNat * S) = 2 * c * (10 ^ p.toNat * S) := by ac_rfl
    rw [e]
    cases incl <;> simpa using h
  · simp only [hp, if_false, Prod.mk.injEq] at hAB ⊢
    obtain ⟨rfl, rfl⟩ := hAB
    have e : 2 * (c * S) = 2 * c * S := by ac_rfl
    rw [e]
    cases incl <;> simpa using h

/-- **`shortest` only returns digits whose exact value rounds back**: if the search succeeds (`c ≠ 0`; the
fall-through result is `(0, 0)`), then `c · 10^p` lies in the rounding interval of `k` -/
theorem shortest_decIn (k c : Nat) (p : Int) (h : shortest k = (c, p)) (hc : c ≠ 0) : DecIn k c p := by
  unfold shortest at h
  generalize hiv : interval k = iv at h
  obtain ⟨lo2, hi2, incl⟩ := iv
  rw [Id.run_bind, Std.Legacy.Range.forIn_eq_forIn_range'] at h
  refine forIn_result_inv _ _ (fun r => DecIn k r.1 r.2) _ (c, p) ?_ h ?_
  · intro a b r hr
    extract_lets p' at hr
    split at hr
    rename_i A B hAB
    extract_lets cf inside t dist c1 c2 ok1 ok2 cc at hr
    have hin : ∀ x, inside x = true → DecIn k x p' := fun x hx =>
      inside_decIn k lo2 hi2 incl hiv p' A B x hAB hx
    split at hr
    · rename_i hok
      simp only [Id.run_pure, ForInStep.value, Option.some.injEq] at hr
      subst hr
      have hok' : inside c1 = true ∧ inside c2 = true := by
        simp only [ok1, ok2, Bool.and_eq_true] at hok; exact ⟨hok.1.1, hok.2⟩
      show DecIn k cc p'
      simp only [cc]
      split
      · exact hin _ hok'.1
      · split
        · exact hin _ hok'.2
        · split
          · exact hin _ hok'.1
          · exact hin _ hok'.2
    · split at hr
      · rename_i hok
        simp only [Id.run_pure, ForInStep.value, Option.some.injEq] at hr
        subst hr
        simp only [ok1, Bool.and_eq_true] at hok
        exact hin _ hok.1
      · split at hr
        · rename_i hok
          simp only [Id.run_pure, ForInStep.value, Option.some.injEq] at hr
          subst hr
          exact hin _ hok
        · simp [Id.run_pure, ForInStep.value] at hr
  · intro heq
    exact hc (show c = 0 from congrArg Prod.fst heq)

/-- **`ofDecimal_shortest`**: for a finite non-zero double `fin neg k`, the decimal `(c, p)` found by the
shortest-digits search converts back to exactly that double. The only hypothesis beyond well-formedness is that the
search did not fall through (`c ≠ 0`; 17 significant digits always suffice, see the test below). -/
theorem ofDecimal_shortest (neg : Bool) (k c : Nat) (p : Int) (hk0 : k ≠ 0) (hk : OnGrid k)
    (h : shortest k = (c, p)) (hc : c ≠ 0) : ofDecimal neg c p = fin neg k :=
  ofDecimal_inside neg k c p hk0 hk hc (shortest_decIn k c p h hc)

end JL.Lemmas.RoundTrip
