import JL.Rs
import JL.Lemmas.StrNum
/-!
# Helper lemmas for the tie theorems of `JL/Tie` (translated Rust code = model)

`str::len` counts UTF-8 bytes, the model counts characters; on a string that is entirely an unsigned decimal literal the
two agree, because such a string is made of ASCII characters.
-/
namespace JL.Lemmas.TieA
open JL JL.JsOp JL.Spec JL.Lemmas.StrNum

/-- `str::len`: number of bytes of the UTF-8 encoding -/
def byteLen (s : Str) : Nat := (s.map Rs.utf8Len).sum

theorem len_str (s : Str) : Rs.len s = byteLen s := rfl

theorem utf8Len_pos (c : Char) : 1 ≤ Rs.utf8Len c := by
  unfold Rs.utf8Len; split <;> (try split) <;> (try split) <;> omega

theorem utf8Len_ascii (c : Char) (h : c.toNat < 128) : Rs.utf8Len c = 1 := by
  unfold Rs.utf8Len; simp [h]

@[simp] theorem byteLen_nil : byteLen [] = 0 := rfl
@[simp] theorem byteLen_cons (c : Char) (s : Str) : byteLen (c :: s) = Rs.utf8Len c + byteLen s := by
  simp [byteLen]
@[simp] theorem byteLen_append (s t : Str) : byteLen (s ++ t) = byteLen s + byteLen t := by
  simp [byteLen]

theorem length_le_byteLen : ∀ s : Str, s.length ≤ byteLen s
  | [] => by simp
  | c :: s => by
      have := length_le_byteLen s
      have := utf8Len_pos c
      simp; omega

theorem byteLen_ascii : ∀ s : Str, (∀ c ∈ s, c.toNat < 128) → byteLen s = s.length
  | [], _ => by simp
  | c :: s, h => by
      have := byteLen_ascii s (fun d hd => h d (List.mem_cons_of_mem _ hd))
      have := utf8Len_ascii c (h c List.mem_cons_self)
      simp; omega

theorem byteLen_eq_zero (s : Str) : byteLen s = 0 ↔ s = [] := by
  have := length_le_byteLen s
  constructor
  · intro h; exact List.length_eq_zero_iff.mp (by omega)
  · rintro rfl; rfl

theorem digit_ascii (c : Char) (h : isDigit c = true) : c.toNat < 128 := by
  have := (isDigit_iff c).mp h; omega

theorem expLit_ascii (X : Str) (ev : Int) (h : ExpLit X ev) : ∀ c ∈ X, c.toNat < 128 := by
  rcases h with ⟨rfl, -⟩ | ⟨c, sg, neg, D, rfl, hc, hsg, -, hD, -⟩
  · simp
  · intro d hd
    simp only [List.mem_cons, List.mem_append] at hd
    rcases hd with rfl | hd | hd
    · rcases hc with rfl | rfl <;> decide
    · rcases hsg with ⟨rfl, -⟩ | ⟨rfl, -⟩ | ⟨rfl, -⟩
      · simp at hd
      · simp at hd; subst hd; decide
      · simp at hd; subst hd; decide
    · exact digit_ascii d (hD d hd)

/-- a string that `decimal_literal_len` consumes entirely is ASCII -/
theorem ascii_of_full_literal (u : Str) (h : decimalLiteralLen u = u.length) : ∀ c ∈ u, c.toNat < 128 := by
  rw [decimalLiteralLen_spec] at h
  cases hl : ES.unsignedDecimalLiteral u with
  | none =>
      simp only [hl] at h
      have : u = [] := List.length_eq_zero_iff.mp h.symm
      subst this; simp
  | some p =>
      obtain ⟨m, e, rest⟩ := p
      simp only [hl] at h
      have hlt := literal_rest_len u m e rest hl
      have hrest : rest = [] := by
        apply List.length_eq_zero_iff.mp
        generalize rest.length = b at *
        generalize u.length = a at *
        change a - b = a at h
        omega
      subst hrest
      obtain ⟨I, F, dot, X, ev, hs, hI, hF, -, -, -, hX, -⟩ := lit_shape u m e [] hl
      intro c hc
      rw [hs] at hc
      simp only [List.append_nil, List.mem_append] at hc
      rcases hc with hc | hc | hc
      · exact digit_ascii c (hI c hc)
      · cases dot
        · simp at hc
        · simp only [if_true, List.mem_cons] at hc
          rcases hc with rfl | hc
          · decide
          · exact digit_ascii c (hF c hc)
      · exact expLit_ascii X ev hX c hc

theorem decimalLiteralLen_le (u : Str) : decimalLiteralLen u ≤ u.length := by
  rw [decimalLiteralLen_spec]
  split
  · exact Nat.zero_le _
  · exact Nat.sub_le _ _

/-- the byte-length test of the Rust code is the character-count test of the model -/
theorem literal_len_bytes (u : Str) : decimalLiteralLen u = byteLen u ↔ decimalLiteralLen u = u.length := by
  have h1 := decimalLiteralLen_le u
  have h2 := length_le_byteLen u
  constructor
  · intro h; omega
  · intro h
    rw [byteLen_ascii u (ascii_of_full_literal u h)]; exact h

theorem literal_len_bytes_beq (u : Str) :
    (decimalLiteralLen u == Rs.len u) = (decimalLiteralLen u == u.length) := by
  rw [Bool.eq_iff_iff]; simp [len_str, literal_len_bytes]

end JL.Lemmas.TieA
