import JL.Lemmas.Monad
/-!
# Lemmas for C06: zero of the double layer; the folds that decide by `truthy`
-/
namespace JL.Lemmas.C06
open JL Json F64

/-! ## when is a number's double ±0 -/

theorem eq_zero_fin (b : Bool) (k : Nat) : F64.eq (fin b k) zero = true ↔ k = 0 := by
  simp [F64.eq, zero]

theorem OVF_pos : 0 < OVF := by unfold OVF; apply Nat.two_pow_pos
theorem S_pos : 0 < S := by unfold S; apply Nat.two_pow_pos

theorem eq_zero_clip (neg : Bool) (k : Nat) (hk : k ≠ 0) :
    F64.eq (if k ≥ OVF then inf neg else fin neg k) zero = false := by
  split
  · simp [F64.eq, zero]
  · rw [← Bool.not_eq_true, eq_zero_fin]; exact hk

/-- rounding an integer number of units to the binary64 grid gives (±)0 only for 0 — no size bound: above 53 bits
the kept significand `q >>> sh` is at least 2^52 -/
theorem roundUnits_one_eq_zero (neg : Bool) (num : Nat) :
    F64.eq (roundUnits neg num 1) zero = true ↔ num = 0 := by
  by_cases h0 : num = 0
  · subst h0
    have : ¬ (0 ≥ OVF) := Nat.not_le.mpr OVF_pos
    simp [roundUnits, bitLen, this, eq_zero_fin]
  · simp only [h0, iff_false, Bool.not_eq_true]
    unfold roundUnits
    simp only [Nat.div_one, Nat.mod_one]
    apply eq_zero_clip
    have hq : 2 ^ (bitLen num - 1) ≤ num := by
      simp only [bitLen, h0, if_false, Nat.add_sub_cancel]
      exact Nat.log2_self_le h0
    have hL : 1 ≤ bitLen num := by simp [bitLen, h0]
    split
    · simp [h0]
    · rename_i hL53
      have hsh : 2 ^ (bitLen num - 53) ≤ num :=
        Nat.le_trans (Nat.pow_le_pow_right (by decide) (by omega)) hq
      have hm : 1 ≤ num >>> (bitLen num - 53) := by
        rw [Nat.shiftRight_eq_div_pow]
        exact (Nat.le_div_iff_mul_le (Nat.two_pow_pos _)).mpr (by simpa using hsh)
      rw [Nat.shiftLeft_eq]
      have := Nat.two_pow_pos (bitLen num - 53)
      split
      · exact Nat.ne_of_gt (Nat.mul_pos (by omega) this)
      · exact Nat.ne_of_gt (Nat.mul_pos (by omega) this)

theorem mul_S_eq_zero (n : Nat) : n * S = 0 ↔ n = 0 := by
  have := S_pos
  constructor
  · intro h
    rcases Nat.mul_eq_zero.mp h with h | h
    · exact h
    · omega
  · intro h; simp [h]

/-- `u64 as f64` is zero only for 0 (every `n : ℕ`) -/
theorem ofNat_eq_zero (n : Nat) : F64.eq (F64.ofNat n) zero = true ↔ n = 0 := by
  unfold F64.ofNat
  rw [roundUnits_one_eq_zero, mul_S_eq_zero]

/-- `i64 as f64` is zero only for 0 -/
theorem ofInt_eq_zero (i : Int) : F64.eq (F64.ofInt i) zero = true ↔ i = 0 := by
  unfold F64.ofInt
  rw [roundUnits_one_eq_zero, mul_S_eq_zero]
  omega

/-- a number's double is ±0 exactly for the spellings `0`, `0.0`, `-0.0` (and the non-well-formed `NegInt(0)`) -/
theorem toF64_eq_zero (n : Num) :
    F64.eq n.toF64 zero = true ↔ n = .pos 0 ∨ n = .neg 0 ∨ ∃ b, n = .flt (fin b 0) := by
  cases n with
  | pos n => simp [Num.toF64, ofNat_eq_zero]
  | neg m => simp [Num.toF64, ofInt_eq_zero]
  | flt f =>
    cases f with
    | nan => simp [Num.toF64, F64.eq]
    | inf b => simp [Num.toF64, F64.eq, zero]
    | fin b k => simp [Num.toF64, eq_zero_fin]

/-! ## the monad: outcome of a bind whose head succeeded -/

theorem out_bind_ok {α β} {x : M α} {a : α} (h : x.out = .ok a) (f : α → M β) : (x >>= f).out = (f a).out := by
  cases x with | mk l o =>
  simp only at h; subst h; rfl

theorem bind_congr_ok {α β} {x : M α} {l : List Json} {a : α} (h : x = ⟨l, .ok a⟩) (f : α → M β) :
    (x >>= f) = ⟨l ++ (f a).logs, (f a).out⟩ := by
  subst h; rfl

/-! ## folds: once decided, nothing more is evaluated -/

theorem runOrAnd_decided (isOr : Bool) (xs : List Json) (r d : Json) :
    runOrAnd isOr xs (.decided r) d = pure (.decided r) := by
  induction xs with
  | nil => simp [runOrAnd]
  | cons x xs ih => simp only [runOrAnd]; exact ih

theorem quantData_decided (isAll : Bool) (p : Json → M Json) (xs : List Json) :
    quantData isAll p xs (!isAll) = pure (!isAll) := by
  induction xs with
  | nil => simp [quantData]
  | cons x xs ih => simp only [quantData]; cases isAll <;> simpa using ih

theorem runQuantLit_decided (isAll : Bool) (p : Json → M Json) (xs : List Json) (d : Json) :
    runQuantLit isAll xs p d (!isAll) = pure (!isAll) := by
  induction xs with
  | nil => simp [runQuantLit]
  | cons x xs ih => simp only [runQuantLit]; cases isAll <;> simpa using ih

theorem runIf_returned (xs : List Json) (i : Nat) (last : Json) (w : Bool) (d : Json) :
    runIf xs i (last, w, true) d = pure last := by
  induction xs generalizing i with
  | nil => simp [runIf]
  | cons x xs ih => simp only [runIf]; simpa using ih (i + 1)

end JL.Lemmas.C06
