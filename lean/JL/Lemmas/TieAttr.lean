import Lean.Meta.Tactic.Simp.RegisterCommand
/-! the simp set `tie`: normalising lemmas used by the closing tactic of the tie theorems (`JL/Lemmas/TieAuto.lean`) -/
register_simp_attr tie
