import JL.Generated.Fns
import JL.Lemmas.Monad
import JL.Tie.to_number_value
/-!
# Helper lemmas for the tie theorems of the operator tables (`JL/Tie/tables.lean`)

Shapes of operand lists of an admitted count, and the tail `….and_then(to_number_value)` of the arithmetic entries.
-/
namespace JL.Lemmas.TieF
open JL

theorem len1 {α} (xs : List α) (h : xs.length = 1) : ∃ a, xs = [a] := by
  match xs, h with
  | [a], _ => exact ⟨a, rfl⟩

theorem len2 {α} (xs : List α) (h : xs.length = 2) : ∃ a b, xs = [a, b] := by
  match xs, h with
  | [a, b], _ => exact ⟨a, b, rfl⟩

theorem len3 {α} (xs : List α) (h : xs.length = 3) : ∃ a b c, xs = [a, b, c] := by
  match xs, h with
  | [a, b, c], _ => exact ⟨a, b, c, rfl⟩

/-- `lo..hi` with `lo = 2`, `hi = 4` -/
theorem len23 {α} (xs : List α) (h1 : 2 ≤ xs.length) (h2 : xs.length < 4) :
    (∃ a b, xs = [a, b]) ∨ (∃ a b c, xs = [a, b, c]) := by
  match xs, h1, h2 with
  | [a, b], _, _ => exact .inl ⟨a, b, rfl⟩
  | [a, b, c], _, _ => exact .inr ⟨a, b, c, rfl⟩
  | _ :: _ :: _ :: _ :: _, _, h => simp at h; omega

/-- the arity descriptor a key has in the regenerated table, learnt by evaluating `lookupOp` on the key -/
theorem arity_eq {k : Str} {kind : Kind} {ar a : Arity} (hl : lookupOp k = some (kind, ar)) (h : lookupOp k = some (kind, a)) : a = ar := by
  rw [h] at hl; simpa using hl

/-- `helper(..).and_then(to_number_value)`, read as a `Result`, is the model's `numResult` -/
theorem numResult_tie (o : Option F64) : Rs.ok_or (Rs.and_then o Gen.to_number_value) = numResult o := by
  cases o <;> simp [rs, numResult, JL.Tie.to_number_value]

end JL.Lemmas.TieF
