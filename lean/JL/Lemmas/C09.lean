import JL.Lemmas.C07
/-!
# Lemmas for C09: the spec's Number::lessThan is the model's `F64.lt`; `<=` of the standard
(`not (b < a)`, undefined ↦ false) is `F64.le`; characterisation of the spec's `lessThan/lessEq`;
"the converted operands are ≤".
-/
namespace JL.Lemmas.C09
open JL JL.Spec.ES JL.Lemmas.F64Order JL.Lemmas.C07

/-- 6.1.6.1.12 Number::lessThan, written as the standard's step list: undefined iff an operand is NaN,
otherwise IEEE `<` of the model -/
theorem numberLessThan_eq (x y : F64) :
    numberLessThan x y = if x.isNaN || y.isNaN then none else some (F64.lt x y) := by
  cases x with
  | nan => simp [numberLessThan, F64.isNaN]
  | inf a =>
    cases y with
    | nan => simp [numberLessThan, F64.isNaN]
    | inf b => cases a <;> cases b <;> simp [numberLessThan, F64.isNaN, F64.isZero, F64.lt]
    | fin b k => cases a <;> simp [numberLessThan, F64.isNaN, F64.isZero, F64.lt]
  | fin a j =>
    cases y with
    | nan => simp [numberLessThan, F64.isNaN]
    | inf b => cases b <;> simp [numberLessThan, F64.isNaN, F64.isZero, F64.lt]
    | fin b k =>
      simp only [numberLessThan, F64.isNaN, isZero_fin, F64.lt, mathValue]
      cases a <;> cases b <;> simp <;> (try split) <;> (try split) <;> simp_all <;> omega

theorem lt_nan_left (y : F64) : F64.lt .nan y = false := (nan_left y).1
theorem lt_nan_right (x : F64) : F64.lt x .nan = false := (nan_right x).1
theorem le_nan_left (y : F64) : F64.le .nan y = false := (nan_left y).2.1
theorem le_nan_right (x : F64) : F64.le x .nan = false := (nan_right x).2.1

theorem undefinedIsFalse_some (r : Bool) : undefinedIsFalse (some r) = r := rfl
theorem falseIsTrue_some (r : Bool) : falseIsTrue (some r) = !r := by cases r <;> rfl

/-- `<`: undefined ↦ false -/
theorem undefinedIsFalse_lt (x y : F64) : undefinedIsFalse (numberLessThan x y) = F64.lt x y := by
  rw [numberLessThan_eq]
  cases x <;> cases y <;> simp [F64.isNaN, undefinedIsFalse, F64.lt]

/-- `x <= y` of the standard — `not (y < x)`, false when undefined — is IEEE `<=` -/
theorem falseIsTrue_lt (x y : F64) : falseIsTrue (numberLessThan y x) = F64.le x y := by
  rw [numberLessThan_eq]
  by_cases hx : x.isNaN = true
  · cases x <;> simp_all [F64.isNaN, falseIsTrue, le_nan_left]
  · by_cases hy : y.isNaN = true
    · cases y <;> simp_all [F64.isNaN, falseIsTrue, le_nan_right]
    · have hx' : x.isNaN = false := by simpa using hx
      have hy' : y.isNaN = false := by simpa using hy
      rw [le_eq_not_lt x y hx' hy']
      simp only [hx', hy', Bool.or_self, Bool.false_eq_true, if_false]
      cases F64.lt y x <;> rfl

theorem lt_optNumber_left (o : Option F64) (y : F64) :
    F64.lt (optNumber o) y = (match o with | some x => F64.lt x y | none => false) := by
  cases o <;> simp [optNumber, lt_nan_left]
theorem lt_optNumber_right (x : F64) (o : Option F64) :
    F64.lt x (optNumber o) = (match o with | some y => F64.lt x y | none => false) := by
  cases o <;> simp [optNumber, lt_nan_right]
theorem le_optNumber_left (o : Option F64) (y : F64) :
    F64.le (optNumber o) y = (match o with | some x => F64.le x y | none => false) := by
  cases o <;> simp [optNumber, le_nan_left]
theorem le_optNumber_right (x : F64) (o : Option F64) :
    F64.le x (optNumber o) = (match o with | some y => F64.le x y | none => false) := by
  cases o <;> simp [optNumber, le_nan_right]

/-- ≤ on Numbers as extended reals (declarative) is IEEE `<=` -/
theorem numLe_iff (x y : F64) : NumLe x y ↔ F64.le x y = true := by
  constructor
  · intro h
    cases h with
    | negInf_fin b k => simp [F64.le]
    | negInf_inf b => simp [F64.le]
    | fin_posInf a j => simp [F64.le]
    | posInf_posInf => simp [F64.le]
    | fin_fin a j b k h => simpa [F64.le, mathValue] using h
  · intro h
    cases x with
    | nan => simp [F64.le] at h
    | inf a =>
      cases y with
      | nan => simp [F64.le] at h
      | inf b =>
        cases a <;> cases b <;> simp [F64.le] at h
        · exact .posInf_posInf
        · exact .negInf_inf _
        · exact .negInf_inf _
      | fin b k =>
        cases a <;> simp [F64.le] at h
        exact .negInf_fin _ _
    | fin a j =>
      cases y with
      | nan => simp [F64.le] at h
      | inf b =>
        cases b <;> simp [F64.le] at h
        exact .fin_posInf _ _
      | fin b k => exact .fin_fin _ _ _ _ (by simpa [F64.le, mathValue] using h)

/-! ## the spec's relational operators in closed form (any StringToNumber) -/

/-- the operands after ToPrimitive are both strings -/
def BothStrings (a b : Json) : Prop := ∃ s t, toPrimitive a = .string s ∧ toPrimitive b = .string t

theorem toPrimitive_ne_object (a : Json) (j : Json) : toPrimitive a ≠ .object j := by
  cases a <;> simp [toPrimitive, ofJson, Val.toPrimitive]

theorem isLessThan_strings (s2n) {a b : Json} {s t : Str} (ha : toPrimitive a = .string s) (hb : toPrimitive b = .string t) :
    isLessThan s2n a b = some (strLt s t) := by
  unfold toPrimitive at ha hb
  simp [isLessThan, Val.isLessThan, ha, hb]

theorem isLessThan_numbers (s2n) {a b : Json} (h : ¬ BothStrings a b) :
    isLessThan s2n a b = numberLessThan (optNumber (toNumber s2n a)) (optNumber (toNumber s2n b)) := by
  rw [← toNumber_ofJson, ← toNumber_ofJson, ← toNumber_toPrimitive s2n (ofJson a), ← toNumber_toPrimitive s2n (ofJson b)]
  unfold isLessThan Val.isLessThan
  split
  · next px py ha hb => exact absurd ⟨px, py, ha, hb⟩ h
  · rfl

theorem bothStrings_comm {a b : Json} : BothStrings a b ↔ BothStrings b a :=
  ⟨fun ⟨s, t, h1, h2⟩ => ⟨t, s, h2, h1⟩, fun ⟨s, t, h1, h2⟩ => ⟨t, s, h2, h1⟩⟩

/-- `a < b` when the operands are not both strings: ToNumber both, NaN ⇒ false, else numeric `<` -/
theorem lessThan_numbers (s2n) {a b : Json} (h : ¬ BothStrings a b) :
    lessThan s2n a b = optRel F64.lt (toNumber s2n a) (toNumber s2n b) := by
  unfold lessThan
  rw [isLessThan_numbers s2n h, undefinedIsFalse_lt]
  cases toNumber s2n a <;> cases toNumber s2n b <;> simp [optNumber, optRel, lt_nan_left, lt_nan_right]

/-- `a <= b` when the operands are not both strings: ToNumber both, NaN ⇒ false, else numeric `<=` -/
theorem lessEq_numbers (s2n) {a b : Json} (h : ¬ BothStrings a b) :
    lessEq s2n a b = optRel F64.le (toNumber s2n a) (toNumber s2n b) := by
  unfold lessEq
  rw [isLessThan_numbers s2n (mt bothStrings_comm.mp h), falseIsTrue_lt]
  cases toNumber s2n a <;> cases toNumber s2n b <;> simp [optNumber, optRel, le_nan_left, le_nan_right]

theorem lessThan_strings (s2n) {a b : Json} {s t : Str} (ha : toPrimitive a = .string s) (hb : toPrimitive b = .string t) :
    lessThan s2n a b = strLt s t := by
  simp [lessThan, isLessThan_strings s2n ha hb, undefinedIsFalse]

theorem lessEq_strings (s2n) {a b : Json} {s t : Str} (ha : toPrimitive a = .string s) (hb : toPrimitive b = .string t) :
    lessEq s2n a b = strLe s t := by
  simp only [lessEq, isLessThan_strings s2n hb ha, strLe]
  cases strLt t s <;> rfl

theorem greaterThan_flip (s2n) (a b : Json) : greaterThan s2n a b = lessThan s2n b a := rfl
theorem greaterEq_flip (s2n) (a b : Json) : greaterEq s2n a b = lessEq s2n b a := rfl

/-- the standard's `a <= b` holds exactly when the converted operands are ≤ -/
theorem lessEq_iff_convLe (s2n) (a b : Json) : lessEq s2n a b = true ↔ ConvLe s2n a b := by
  by_cases hs : BothStrings a b
  · obtain ⟨s, t, ha, hb⟩ := hs
    rw [lessEq_strings s2n ha hb, strLe_iff]
    constructor
    · intro h; exact .strings ha hb h
    · intro h
      cases h with
      | strings ha' hb' hle =>
        rw [ha] at ha'; rw [hb] at hb'
        cases ha'; cases hb'; exact hle
      | numbers hn _ _ _ => exact absurd ⟨s, t, ha, hb⟩ hn
  · rw [lessEq_numbers s2n hs]
    constructor
    · intro h
      cases hx : toNumber s2n a with
      | none => simp [hx, optRel] at h
      | some x =>
        cases hy : toNumber s2n b with
        | none => simp [hx, hy, optRel] at h
        | some y =>
          simp only [hx, hy, optRel] at h
          exact .numbers hs hx hy ((numLe_iff x y).2 h)
    · intro h
      cases h with
      | strings ha hb _ => exact absurd ⟨_, _, ha, hb⟩ hs
      | numbers _ hx hy hle => simpa [hx, hy, optRel] using (numLe_iff _ _).1 hle

end JL.Lemmas.C09
