import JL.Lemmas.Monad
/-!
# Helper lemmas for C13 (and C04): the monad `M` is lawful; inversion of `>>=`; the data loops
`mapData` / `filterData` / `reduceData` against `List.mapM` / `List.filter` / `List.foldlM`; the unfolding of
the `map` / `filter` / `reduce` branches of `run` as equations in `M`.
-/
namespace JL
open Json

namespace M

/-- `M` satisfies the monad laws (so the library lemmas about `List.mapM`, `List.foldlM` apply to it) -/
instance lawful : LawfulMonad M := LawfulMonad.mk' M
  (id_map := fun x => by
    show M.bind x _ = x
    cases x with | mk l o => cases o <;> simp [M.bind, M.pure, Function.comp])
  (pure_bind := fun a f => M.pure_bind a f)
  (bind_assoc := fun x f g => M.bind_assoc x f g)

theorem mk_eta {α} (x : M α) : (⟨x.logs, x.out⟩ : M α) = x := by cases x; rfl

theorem bind_logs_of_ok {α β} {x : M α} {f : α → M β} {a : α} (h : x.out = .ok a) :
    (x >>= f).logs = x.logs ++ (f a).logs := by
  cases x with | mk l o => simp only at h; subst h; rfl
theorem bind_out_of_ok {α β} {x : M α} {f : α → M β} {a : α} (h : x.out = .ok a) :
    (x >>= f).out = (f a).out := by
  cases x with | mk l o => simp only at h; subst h; rfl
theorem bind_of_err {α β} {x : M α} {f : α → M β} (h : x.out = .err) : (x >>= f) = ⟨x.logs, .err⟩ := by
  cases x with | mk l o => simp only at h; subst h; rfl
theorem bind_of_panic {α β} {x : M α} {f : α → M β} (h : x.out = .panic) : (x >>= f) = ⟨x.logs, .panic⟩ := by
  cases x with | mk l o => simp only at h; subst h; rfl

/-- a sequence succeeds iff both parts do, and the trace is the concatenation -/
theorem bind_eq_ok {α β} {x : M α} {f : α → M β} {l : List Json} {b : β} :
    (x >>= f) = ⟨l, .ok b⟩ ↔ ∃ l₁ a l₂, x = ⟨l₁, .ok a⟩ ∧ f a = ⟨l₂, .ok b⟩ ∧ l = l₁ ++ l₂ := by
  cases x with | mk lx o =>
  cases o with
  | ok a =>
    simp only [bind_ok]
    constructor
    · intro h
      injection h with h1 h2
      exact ⟨lx, a, (f a).logs, rfl, by rw [← h2], h1.symm⟩
    · rintro ⟨l₁, a', l₂, h1, h2, h3⟩
      injection h1 with h1a h1b
      injection h1b with h1b
      subst h1a; subst h1b; subst h3
      rw [h2]
  | err =>
    simp only [bind_err]
    constructor
    · intro h; injection h with _ h2; cases h2
    · rintro ⟨_, _, _, h1, _, _⟩; injection h1 with _ h2; cases h2
  | panic =>
    simp only [bind_panic]
    constructor
    · intro h; injection h with _ h2; cases h2
    · rintro ⟨_, _, _, h1, _, _⟩; injection h1 with _ h2; cases h2

theorem pure_eq_ok {α} {a b : α} {l : List Json} : (Pure.pure a : M α) = ⟨l, .ok b⟩ ↔ l = [] ∧ a = b := by
  simp only [pure_def]
  constructor
  · intro h; injection h with h1 h2; injection h2 with h2; exact ⟨h1.symm, h2⟩
  · rintro ⟨rfl, rfl⟩; rfl

theorem ofOption_eq_ok {α} {o : Option α} {b : α} {l : List Json} :
    (M.ofOption o : M α) = ⟨l, .ok b⟩ ↔ l = [] ∧ o = some b := by
  cases o with
  | none =>
    simp only [ofOption_none]
    constructor
    · intro h; injection h with _ h2; cases h2
    · rintro ⟨_, h⟩; cases h
  | some a =>
    simp only [ofOption_some]
    constructor
    · intro h; injection h with h1 h2; injection h2 with h2; exact ⟨h1.symm, by rw [h2]⟩
    · rintro ⟨rfl, h⟩; injection h with h; rw [h]

end M

/-! ## `mapData` -/

theorem mapData_nil (f : Json → M Json) : mapData f [] = ⟨[], .ok []⟩ := rfl
theorem mapData_cons (f : Json → M Json) (x : Json) (xs : List Json) :
    mapData f (x :: xs) = (f x >>= fun y => mapData f xs >>= fun ys => pure (y :: ys)) := rfl

/-- the loop of `map` is the library's monadic map (left to right, stops at the first failure) -/
theorem mapData_eq_mapM (f : Json → M Json) (xs : List Json) : mapData f xs = xs.mapM f := by
  induction xs with
  | nil => rfl
  | cons x xs ih => rw [mapData_cons, List.mapM_cons, ih]

/-- success of the loop, completely: element `i` of the result is the value of `f` on element `i`
(same length, same order), and the trace is the concatenation of the elements' traces in order -/
theorem mapData_ok_iff (f : Json → M Json) (xs : List Json) (l ys : List Json) :
    mapData f xs = ⟨l, .ok ys⟩ ↔
      xs.map (fun x => (f x).out) = ys.map Out.ok ∧ l = xs.flatMap (fun x => (f x).logs) := by
  induction xs generalizing l ys with
  | nil =>
    rw [mapData_nil]
    constructor
    · intro h; injection h with h1 h2; injection h2 with h2; subst h1; subst h2; simp
    · rintro ⟨h1, h2⟩
      cases ys with
      | nil => subst h2; rfl
      | cons y ys => simp at h1
  | cons x xs ih =>
    rw [mapData_cons, M.bind_eq_ok]
    constructor
    · rintro ⟨l₁, a, l₂, h1, h2, h3⟩
      rw [M.bind_eq_ok] at h2
      obtain ⟨l₃, rs, l₄, h4, h5, h6⟩ := h2
      rw [M.pure_eq_ok] at h5
      obtain ⟨h5a, h5b⟩ := h5
      obtain ⟨h7, h8⟩ := (ih l₃ rs).mp h4
      subst h5b; subst h5a; subst h6; subst h3
      simp [h1, h7, h8]
    · rintro ⟨h1, h2⟩
      cases ys with
      | nil => simp at h1
      | cons y ys =>
        simp only [List.map_cons, List.cons.injEq] at h1
        refine ⟨(f x).logs, y, xs.flatMap (fun x => (f x).logs), ?_, ?_, ?_⟩
        · rw [← h1.1]
        · rw [(ih _ ys).mpr ⟨h1.2, rfl⟩]; simp
        · simpa using h2

theorem mapData_length (f : Json → M Json) (xs ys l : List Json) (h : mapData f xs = ⟨l, .ok ys⟩) :
    ys.length = xs.length := by
  have := congrArg List.length ((mapData_ok_iff f xs l ys).mp h).1
  simpa using this.symm

/-- if `f` succeeds on every element, with value `g x`, the loop returns `xs.map g` -/
theorem mapData_of_ok (f : Json → M Json) (g : Json → Json) (xs : List Json)
    (h : ∀ x ∈ xs, (f x).out = .ok (g x)) :
    mapData f xs = ⟨xs.flatMap (fun x => (f x).logs), .ok (xs.map g)⟩ := by
  rw [mapData_ok_iff]
  refine ⟨?_, rfl⟩
  rw [List.map_map]
  exact List.map_congr_left (fun x hx => by simp [h x hx])

theorem mapData_pure (g : Json → Json) (xs : List Json) :
    mapData (fun x => pure (g x)) xs = pure (xs.map g) := by
  rw [mapData_of_ok _ g xs (fun _ _ => rfl)]
  simp

/-- the first failing element decides: elements before it are evaluated (their traces are kept, in order),
it is evaluated, nothing after it is -/
theorem mapData_first_err (f : Json → M Json) (pre post : List Json) (x : Json)
    (hpre : ∀ p ∈ pre, ∃ y, (f p).out = .ok y) (hx : (f x).out = .err) :
    mapData f (pre ++ x :: post) = ⟨(pre ++ [x]).flatMap (fun x => (f x).logs), .err⟩ := by
  induction pre with
  | nil => rw [List.nil_append, mapData_cons, M.bind_of_err hx]; simp
  | cons p pre ih =>
    obtain ⟨y, hy⟩ := hpre p (List.mem_cons_self)
    have ih' := ih (fun q hq => hpre q (List.mem_cons_of_mem _ hq))
    rw [List.cons_append, mapData_cons, ih']
    apply M.ext
    · rw [M.bind_logs_of_ok hy]; simp
    · rw [M.bind_out_of_ok hy]; simp

theorem mapData_first_panic (f : Json → M Json) (pre post : List Json) (x : Json)
    (hpre : ∀ p ∈ pre, ∃ y, (f p).out = .ok y) (hx : (f x).out = .panic) :
    mapData f (pre ++ x :: post) = ⟨(pre ++ [x]).flatMap (fun x => (f x).logs), .panic⟩ := by
  induction pre with
  | nil => rw [List.nil_append, mapData_cons, M.bind_of_panic hx]; simp
  | cons p pre ih =>
    obtain ⟨y, hy⟩ := hpre p (List.mem_cons_self)
    have ih' := ih (fun q hq => hpre q (List.mem_cons_of_mem _ hq))
    rw [List.cons_append, mapData_cons, ih']
    apply M.ext
    · rw [M.bind_logs_of_ok hy]; simp
    · rw [M.bind_out_of_ok hy]; simp

/-! ## `filterData` -/

/-- "the predicate succeeded with a truthy value" -/
def okTruthy (m : M Json) : Bool :=
  match m.out with
  | .ok v => truthy v
  | _ => false

theorem filterData_nil (f : Json → M Json) : filterData f [] = ⟨[], .ok []⟩ := rfl
theorem filterData_cons (f : Json → M Json) (x : Json) (xs : List Json) :
    filterData f (x :: xs) =
      (f x >>= fun p => filterData f xs >>= fun ys => pure (if truthy p then x :: ys else ys)) := rfl

/-- success of the loop of `filter`, completely: the predicate succeeded on every element, the result is the
list of those elements (themselves, in order) whose predicate value is truthy, the trace is the concatenation
of the elements' traces -/
theorem filterData_ok_iff (f : Json → M Json) (xs : List Json) (l ys : List Json) :
    filterData f xs = ⟨l, .ok ys⟩ ↔
      (∀ x ∈ xs, ∃ p, (f x).out = .ok p) ∧ ys = xs.filter (fun x => okTruthy (f x)) ∧
        l = xs.flatMap (fun x => (f x).logs) := by
  induction xs generalizing l ys with
  | nil =>
    rw [filterData_nil]
    constructor
    · intro h; injection h with h1 h2; injection h2 with h2; subst h1; subst h2; simp
    · rintro ⟨_, h1, h2⟩; subst h1; subst h2; rfl
  | cons x xs ih =>
    rw [filterData_cons, M.bind_eq_ok]
    constructor
    · rintro ⟨l₁, p, l₂, h1, h2, h3⟩
      rw [M.bind_eq_ok] at h2
      obtain ⟨l₃, rs, l₄, h4, h5, h6⟩ := h2
      rw [M.pure_eq_ok] at h5
      obtain ⟨h5a, h5b⟩ := h5
      obtain ⟨h7, h8, h9⟩ := (ih l₃ rs).mp h4
      subst h5b; subst h5a; subst h6; subst h3
      refine ⟨?_, ?_, ?_⟩
      · intro z hz
        rcases List.mem_cons.mp hz with rfl | hz
        · exact ⟨p, by rw [h1]⟩
        · exact h7 z hz
      · rw [List.filter_cons]
        have : okTruthy (f x) = truthy p := by simp [okTruthy, h1]
        rw [this, ← h8]
      · simp [h1, h9]
    · rintro ⟨h1, h2, h3⟩
      obtain ⟨p, hp⟩ := h1 x List.mem_cons_self
      refine ⟨(f x).logs, p, xs.flatMap (fun x => (f x).logs), ?_, ?_, ?_⟩
      · rw [← hp]
      · rw [(ih _ _).mpr ⟨fun z hz => h1 z (List.mem_cons_of_mem _ hz), rfl, rfl⟩]
        have : okTruthy (f x) = truthy p := by simp [okTruthy, hp]
        rw [h2, List.filter_cons, this]
        cases truthy p <;> simp
      · simpa using h3

/-- `filter` returns a subsequence of the collection: elements unchanged, order kept, nothing invented -/
theorem filterData_sublist (f : Json → M Json) (xs l ys : List Json) (h : filterData f xs = ⟨l, .ok ys⟩) :
    ys.Sublist xs := by
  rw [((filterData_ok_iff f xs l ys).mp h).2.1]
  exact List.filter_sublist

theorem filterData_of_ok (f : Json → M Json) (g : Json → Json) (xs : List Json)
    (h : ∀ x ∈ xs, (f x).out = .ok (g x)) :
    filterData f xs = ⟨xs.flatMap (fun x => (f x).logs), .ok (xs.filter (fun x => truthy (g x)))⟩ := by
  rw [filterData_ok_iff]
  refine ⟨fun x hx => ⟨_, h x hx⟩, ?_, rfl⟩
  apply List.filter_congr
  intro x hx
  simp [okTruthy, h x hx]

theorem filterData_pure (g : Json → Json) (xs : List Json) :
    filterData (fun x => pure (g x)) xs = pure (xs.filter (truthy ∘ g)) := by
  rw [filterData_of_ok _ g xs (fun _ _ => rfl)]
  simp [Function.comp_def]

theorem filterData_first_err (f : Json → M Json) (pre post : List Json) (x : Json)
    (hpre : ∀ p ∈ pre, ∃ y, (f p).out = .ok y) (hx : (f x).out = .err) :
    filterData f (pre ++ x :: post) = ⟨(pre ++ [x]).flatMap (fun x => (f x).logs), .err⟩ := by
  induction pre with
  | nil => rw [List.nil_append, filterData_cons, M.bind_of_err hx]; simp
  | cons p pre ih =>
    obtain ⟨y, hy⟩ := hpre p (List.mem_cons_self)
    have ih' := ih (fun q hq => hpre q (List.mem_cons_of_mem _ hq))
    rw [List.cons_append, filterData_cons, ih']
    apply M.ext
    · rw [M.bind_logs_of_ok hy]; simp
    · rw [M.bind_out_of_ok hy]; simp

/-! ## `reduceData` -/

theorem reduceData_nil (f : Json → M Json) (a : Json) : reduceData f [] a = ⟨[], .ok a⟩ := rfl
theorem reduceData_cons (f : Json → M Json) (x : Json) (xs : List Json) (a : Json) :
    reduceData f (x :: xs) a = (f (reduceCtx a x) >>= fun a' => reduceData f xs a') := rfl

/-- the loop of `reduce` is the library's monadic left fold from the initial value, the step being the
expression on the two-key context `{accumulator, current}` -/
theorem reduceData_eq_foldlM (f : Json → M Json) (xs : List Json) (a : Json) :
    reduceData f xs a = xs.foldlM (fun acc x => f (reduceCtx acc x)) a := by
  induction xs generalizing a with
  | nil => rfl
  | cons x xs ih => rw [reduceData_cons, List.foldlM_cons]; congr 1; funext a'; exact ih a'

/-- value of the fold when the expression succeeds (with value `g ctx`) on every context -/
theorem reduceData_out_of_ok (f : Json → M Json) (g : Json → Json) (h : ∀ c, (f c).out = .ok (g c))
    (xs : List Json) (a : Json) :
    (reduceData f xs a).out = .ok (xs.foldl (fun acc x => g (reduceCtx acc x)) a) := by
  induction xs generalizing a with
  | nil => rfl
  | cons x xs ih => rw [reduceData_cons, M.bind_out_of_ok (h _), ih, List.foldl_cons]

theorem reduceData_pure (g : Json → Json) (xs : List Json) (a : Json) :
    reduceData (fun c => pure (g c)) xs a = pure (xs.foldl (fun acc x => g (reduceCtx acc x)) a) := by
  induction xs generalizing a with
  | nil => rfl
  | cons x xs ih => rw [reduceData_cons, M.pure_bind, ih, List.foldl_cons]

theorem reduceData_append (f : Json → M Json) (xs ys : List Json) (a : Json) :
    reduceData f (xs ++ ys) a = (reduceData f xs a >>= fun b => reduceData f ys b) := by
  induction xs generalizing a with
  | nil => rw [List.nil_append, reduceData_nil]; simp
  | cons x xs ih =>
    rw [List.cons_append, reduceData_cons, reduceData_cons, M.bind_assoc]
    congr 1; funext a'; exact ih a'

/-! ## the three branches of `run`, unfolded -/

namespace Lemmas.C13

/-- lazy parse-then-evaluate of one operand (what the code does with every operand of a lazy operator it needs) -/
def ev (d e : Json) : M Json := if check e then run e d else M.err

/-- the collection operand as a list of items: an array's elements, `null` ↦ none; anything else is no collection -/
def collOf : Json → Option (List Json)
  | .arr xs => some xs
  | .null => some []
  | _ => none

/-- parsing of the element expression (`Parsed::from_value(expression)?`): nothing evaluated, no trace -/
def parsed (e : Json) : M Unit := if check e then pure () else M.err

theorem lookup_map : lookupOp "map".toList = some (.lazy, .exactly 2) := by decide
theorem lookup_filter : lookupOp "filter".toList = some (.lazy, .exactly 2) := by decide
theorem lookup_reduce : lookupOp "reduce".toList = some (.lazy, .exactly 3) := by decide

theorem ev_bind {β} (d e : Json) (f : Json → M β) :
    (ev d e >>= f) = if (!check e) = true then M.err else run e d >>= f := by
  unfold ev; cases check e <;> simp

theorem ev_eq_apply (d e : Json) : ev d e = apply e d := rfl

theorem run_map (c e d : Json) (rest : List Json) :
    run (.obj [("map".toList, .arr (c :: e :: rest))]) d =
      (do let cv ← ev d c
          let items ← M.ofOption (collOf cv)
          parsed e
          let rs ← mapData (fun x => run e x) items
          pure (.arr rs)) := by
  conv => lhs; unfold run
  simp only [lookup_map]
  have h1 : ("map".toList = "if".toList || "map".toList = "?:".toList) = false := by decide
  have h2 : ("map".toList = "or".toList) = False := by decide
  have h3 : ("map".toList = "and".toList) = False := by decide
  simp only [h1, h2, h3, if_false, if_true, Bool.false_eq_true, ev_bind]
  split
  · rfl
  · congr 1; funext cv
    cases cv <;> cases h : check e <;> simp [collOf, parsed, h]

theorem run_filter (c e d : Json) (rest : List Json) :
    run (.obj [("filter".toList, .arr (c :: e :: rest))]) d =
      (do let cv ← ev d c
          let items ← M.ofOption (collOf cv)
          parsed e
          let rs ← filterData (fun x => run e x) items
          pure (.arr rs)) := by
  conv => lhs; unfold run
  simp only [lookup_filter]
  have h1 : ("filter".toList = "if".toList || "filter".toList = "?:".toList) = false := by decide
  have h2 : ("filter".toList = "or".toList) = False := by decide
  have h3 : ("filter".toList = "and".toList) = False := by decide
  have h4 : ("filter".toList = "map".toList) = False := by decide
  simp only [h1, h2, h3, h4, if_false, if_true, Bool.false_eq_true, ev_bind]
  split
  · rfl
  · congr 1; funext cv
    cases cv <;> cases h : check e <;> simp [collOf, parsed, h]

theorem run_reduce (c e i d : Json) (rest : List Json) :
    run (.obj [("reduce".toList, .arr (c :: e :: i :: rest))]) d =
      (do let cv ← ev d c
          let iv ← ev d i
          let items ← M.ofOption (collOf cv)
          parsed e
          reduceData (fun x => run e x) items iv) := by
  conv => lhs; unfold run
  simp only [lookup_reduce]
  have h1 : ("reduce".toList = "if".toList || "reduce".toList = "?:".toList) = false := by decide
  have h2 : ("reduce".toList = "or".toList) = False := by decide
  have h3 : ("reduce".toList = "and".toList) = False := by decide
  have h4 : ("reduce".toList = "map".toList) = False := by decide
  have h5 : ("reduce".toList = "filter".toList) = False := by decide
  simp only [h1, h2, h3, h4, h5, if_false, if_true, Bool.false_eq_true, ev_bind]
  split
  · rfl
  · congr 1; funext cv
    split
    · rfl
    · congr 1; funext iv
      cases cv <;> cases h : check e <;> simp [collOf, parsed, h]

/-- the parse phase accepts `map`/`filter` with exactly two operands and `reduce` with exactly three, whatever
the operands are (they are kept raw) -/
theorem check_map (c e : Json) : check (.obj [("map".toList, .arr [c, e])]) = true := by
  unfold check; simp only [lookup_map]; rfl
theorem check_filter (c e : Json) : check (.obj [("filter".toList, .arr [c, e])]) = true := by
  unfold check; simp only [lookup_filter]; rfl
theorem check_reduce (c e i : Json) : check (.obj [("reduce".toList, .arr [c, e, i])]) = true := by
  unfold check; simp only [lookup_reduce]; rfl

/-- `{"var": ""}` is the whole data -/
theorem run_var_self (x : Json) : run (.obj [("var".toList, .str [])]) x = ⟨[], .ok x⟩ := by
  have hl : lookupOp "var".toList = some (.data, .variadic 0 3) := by decide
  unfold run
  simp only [hl]
  cases x <;> rfl

end Lemmas.C13
end JL

namespace JL.Lemmas.C13
open JL Json

/-- the middle part of the three unfoldings succeeds iff the collection value is a collection, the element
expression parses, and the loop succeeds; it contributes no trace of its own -/
theorem coll_bind_eq_ok {β} (cv e : Json) (K : List Json → M β) (l : List Json) (b : β) :
    (M.ofOption (collOf cv) >>= fun items => parsed e >>= fun _ => K items) = ⟨l, .ok b⟩ ↔
      ∃ items, collOf cv = some items ∧ check e = true ∧ K items = ⟨l, .ok b⟩ := by
  cases hc : collOf cv with
  | none =>
    simp only [M.ofOption_none, M.bind_err]
    constructor
    · intro h; injection h with _ h2; cases h2
    · rintro ⟨_, h, _⟩; cases h
  | some items =>
    simp only [M.ofOption_some, parsed]
    cases he : check e with
    | false =>
      constructor
      · intro h; simp at h
      · rintro ⟨_, _, h, _⟩; cases h
    | true =>
      have : ((⟨[], .ok items⟩ : M (List Json)) >>= fun items => (if true = true then (pure () : M Unit) else M.err) >>= fun _ => K items) = K items := by
        simp [M.mk_eta]
      rw [this]
      constructor
      · intro h; exact ⟨items, rfl, rfl, h⟩
      · rintro ⟨items', h1, _, h2⟩; injection h1 with h1; subst h1; exact h2

/-- the middle part when the collection value is a collection and the expression parses -/
theorem coll_bind_of_ok {β} (cv e : Json) (items : List Json) (K : List Json → M β)
    (hc : collOf cv = some items) (he : check e = true) :
    (M.ofOption (collOf cv) >>= fun items => parsed e >>= fun _ => K items) = K items := by
  simp [hc, parsed, he, M.mk_eta]

theorem coll_bind_of_none {β} (cv e : Json) (K : List Json → M β) (hc : collOf cv = none) :
    (M.ofOption (collOf cv) >>= fun items => parsed e >>= fun _ => K items) = ⟨[], .err⟩ := by
  simp [hc]

theorem coll_bind_of_malformed {β} (cv e : Json) (items : List Json) (K : List Json → M β)
    (hc : collOf cv = some items) (he : check e = false) :
    (M.ofOption (collOf cv) >>= fun items => parsed e >>= fun _ => K items) = ⟨[], .err⟩ := by
  simp [hc, parsed, he]

end JL.Lemmas.C13
