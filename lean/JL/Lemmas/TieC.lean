import JL.Rs
import JL.Lemmas.TieAttr
/-!
# Helper lemmas for the tie theorems `split_with_escape`, `radix_literal`, `substr` of `JL/Tie`

The translated functions run their loops with `Rs.for_`; the model has hand-written recursive loops. The lemmas here say:
a `for` loop whose body performs one step of the model's loop computes the model's loop. They are stated for an arbitrary
body `f` with the step equation as a hypothesis, so that they do not depend on how the translator spells the body.
-/
namespace JL.Lemmas.TieC
open JL

/-! ## `split_with_escape` -/

/-- the `escape` flag after the loop (the model's `splitLoop` does not return it) -/
def splitEsc : List Char → Bool → Bool
  | [], e => e
  | c :: cs, e => splitEsc cs (!e && c == '\\')

/-- a `for` loop whose body is one step of `splitLoop` computes `splitLoop` -/
theorem for_splitLoop {ρ : Type} (delim : Char) (f : List Str × Str × Bool → Char → Rs.Flow (List Str × Str × Bool) ρ)
    (hf : ∀ r s e c, f (r, s, e) c = .next
      (if e then (r, s ++ [c], false) else if c = '\\' then (r, s, true)
       else if c = delim then (r ++ [s], [], false) else (r, s ++ [c], false))) :
    ∀ (cs : List Char) (r : List Str) (s : Str) (e : Bool),
    Rs.for_ cs (r, s, e) f
      = .done ((Data.splitLoop delim cs r s e).1, (Data.splitLoop delim cs r s e).2, splitEsc cs e)
  | [], r, s, e => by simp [Rs.for_, Data.splitLoop, splitEsc]
  | c :: cs, r, s, e => by
      have ih := for_splitLoop delim f hf cs
      have h := hf r s e c
      simp only [Rs.for_, h, Data.splitLoop, splitEsc]
      by_cases he : e = true
      · simp [he, ih]
      · by_cases h1 : c = '\\'
        · simp [he, h1, ih]
        · have h1' : (c == '\\') = false := by simp [h1]
          by_cases h2 : c = delim
          · subst h2; simp [he, h1, h1', ih]
          · simp [he, h1, h1', h2, ih]

theorem backslash : Char.ofNat 0x5C = '\\' := rfl

/-! ## `radix_literal` -/

/-- a `for` loop whose body is one step of `radixLoop` (early `return` of `r` on a bad digit) computes `radixLoop` -/
theorem for_radixLoop {ρ : Type} (radix bits : Nat) (r : ρ) (f : Nat × Nat × Bool → Char → Rs.Flow (Nat × Nat × Bool) ρ)
    (hf : ∀ acc shift sticky c, f (acc, shift, sticky) c =
      match JsOp.toDigit radix c with
      | none => .ret r
      | some d =>
          if acc / 2 ^ 60 = 0 then .next (acc * 2 ^ bits + d, shift, sticky)
          else .next (acc, shift + bits, sticky || d != 0)) :
    ∀ (cs : List Char) (st : Nat × Nat × Bool),
    Rs.for_ cs st f = match JsOp.radixLoop radix bits cs st with
      | none => .ret r
      | some st' => .done st'
  | [], st => by simp [Rs.for_, JsOp.radixLoop]
  | c :: cs, (acc, shift, sticky) => by
      have ih := for_radixLoop radix bits r f hf cs
      have h := hf acc shift sticky c
      simp only [Rs.for_, h, JsOp.radixLoop]
      cases hd : JsOp.toDigit radix c with
      | none => simp
      | some d =>
          by_cases h0 : acc / 2 ^ 60 = 0
          · simp [h0, ih]
          · simp [h0, ih]

/-- a digit is below the radix -/
theorem toDigit_lt {radix : Nat} {c : Char} {d : Nat} (h : JsOp.toDigit radix c = some d) : d < radix := by
  unfold JsOp.toDigit at h
  simp only at h
  split at h
  · split at h
    · simp at h; omega
    · simp at h
  · simp at h

/-- `acc << bits | d` is `acc * 2^bits + d` for a digit `d < 2^bits` -/
theorem shl_or {bits d : Nat} (h : d < 2 ^ bits) (acc : Nat) : acc <<< bits ||| d = acc * 2 ^ bits + d := by
  rw [← Nat.shiftLeft_add_eq_or_of_lt h, Nat.shiftLeft_eq]

theorem shr_eq_zero (acc k : Nat) : (acc >>> k = 0) = (acc / 2 ^ k = 0) := by
  rw [Nat.shiftRight_eq_div_pow]

/-- `acc | (sticky as u64)` -/
theorem or_sticky (acc : Nat) (sticky : Bool) :
    (acc ||| (if sticky = true then 1 else 0)) = if sticky = true then acc ||| 1 else acc := by
  cases sticky <;> simp

/-! `F64.ofNat n` must never be put to weak head normal form with a symbolic `n` (neither the elaborator nor the kernel
survives the unfolding of `roundUnits` on `n * 2^1074`), and unfolding `Rs.to_f64 n` / `Rs.mul (F64.ofNat n) x` through the
type-class projections leads to exactly that in the kernel's lazy unfolding. The following rewrite rules are proved with the
float function / operands abstracted, so that using them costs only syntactic matching. -/
theorem to_f64_mk (g : Nat → F64) (n : Nat) : @Rs.to_f64 Nat ⟨g⟩ n = g n := rfl
/-- `n as f64` -/
theorem to_f64_nat (n : Nat) : Rs.to_f64 n = F64.ofNat n := to_f64_mk F64.ofNat n
/-- `f64 * f64` (deliberately not a `rfl` lemma: `simp` must rewrite with it by a proof term, not by definitional unfolding) -/
theorem mul_f64 (a b : F64) : Rs.mul a b = F64.mul a b := by cases a <;> rfl
/-- `u64 > u64` -/
theorem gt_nat (a b : Nat) : Rs.gt a b = decide (b < a) := rfl
/-- `b as u64` -/
theorem to_u64_bool (b : Bool) : Rs.to_u64 b = if b then 1 else 0 := rfl

set_option exponentiation.threshold 3000 in
/-- the literal `2f64` as the translator spells it -/
theorem two_f64 : F64.fin false (1 * 2 ^ 1075) = F64.fin false (2 * F64.S) := by
  simp only [F64.S, Nat.one_mul, Nat.pow_succ 2 1074, Nat.mul_comm]

set_option exponentiation.threshold 3000 in
theorem powi_two (n : Nat) : Rs.powi (F64.fin false (1 * 2 ^ 1075)) n = JsOp.pow2 n := by
  rw [two_f64]; simp [Rs.powi]

set_option exponentiation.threshold 3000 in
theorem powi_two' (n : Nat) : Rs.powi (F64.fin false (2 ^ 1075)) n = JsOp.pow2 n := by
  rw [← powi_two]

set_option exponentiation.threshold 3000 in
theorem two_pow_1075 : 2 ^ 1075 = 2 * F64.S := by
  simp only [F64.S, Nat.pow_succ 2 1074, Nat.mul_comm]

/-! These rules are in the simp set `tie` as *pre*-rules (`↓`): they fire on a call before `simp` visits its operands, i.e. before
the unfolding set `rs` can touch it, so that `tie_close` (`JL/Lemmas/TieAuto.lean`) never unfolds a cast or a product of floats. -/
attribute [tie ↓] to_f64_nat mul_f64 gt_nat to_u64_bool powi_two powi_two'

/-! ## `substr`: the `usize` arithmetic

These are stated on the `Rs` calls themselves and are to be used (`simp only`) BEFORE `simp [rs]`: unfolding the calls first
leaves `if`s whose `Decidable` instances still mention the folded calls, which blocks later rewriting. -/

/-- `a.checked_sub(b).unwrap_or(0)` is truncated subtraction -/
theorem unwrap_checked_sub (a b : Nat) : Rs.unwrap_or (Rs.checked_sub a b) 0 = a - b := by
  simp only [Rs.unwrap_or, Rs.checked_sub]; split <;> simp <;> omega

/-- `a.checked_add(b).unwrap_or(d)` -/
theorem unwrap_checked_add (a b d : Nat) :
    Rs.unwrap_or (Rs.checked_add a b) d = if a + b < 2 ^ 64 then a + b else d := by
  simp only [Rs.unwrap_or, Rs.checked_add]; split <;> simp

theorem min_nat (a b : Nat) : Rs.min_ a b = min a b := rfl
theorem count_eq {α : Type} (l : List α) : Rs.count l = l.length := rfl
theorem lt_int (a b : Int) : Rs.lt a b = decide (a < b) := rfl
theorem try_into_eq (n : Nat) : Rs.try_into n = some n := rfl
theorem unsigned_abs_eq (i : Int) : Rs.unsigned_abs i = i.natAbs := rfl

/-- the model spells truncated subtraction with a test -/
theorem sub_ite (a b : Nat) : (if b ≤ a then a - b else 0) = a - b := by split <;> omega

/-! ## further arithmetic facts (second hardening pass) -/
theorem saturating_sub_eq (a b : Nat) : Rs.saturating_sub a b = a - b := rfl

theorem saturating_add_eq (a b : Nat) : Rs.saturating_add a b = a + b := rfl

theorem sign_cases (i : Int) : (i < 0 ∧ ¬ 0 ≤ i) ∨ (¬ i < 0 ∧ 0 ≤ i) := by omega

theorem ge_int (a b : Int) : Rs.ge a b = decide (b ≤ a) := rfl

theorem gt_int (a b : Int) : Rs.gt a b = decide (b < a) := rfl

theorem le_int (a b : Int) : Rs.le a b = decide (a ≤ b) := rfl

theorem substrBounds_eq (len : Nat) (idx : Int) (limit : Option Int) :
    StrOp.substrBounds len idx limit =
      ((if idx < 0 then len - idx.natAbs else min len idx.natAbs),
       (match limit with
        | none => len
        | some l =>
            if l < 0 then len - l.natAbs
            else min len (if (if idx < 0 then len - idx.natAbs else min len idx.natAbs) + l.natAbs < 2 ^ 64
              then (if idx < 0 then len - idx.natAbs else min len idx.natAbs) + l.natAbs else len))
        - (if idx < 0 then len - idx.natAbs else min len idx.natAbs)) := by
  simp only [StrOp.substrBounds, sub_ite]
  cases limit <;> rfl

end JL.Lemmas.TieC
