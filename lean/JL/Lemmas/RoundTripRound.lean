import JL.Lemmas.C10
import JL.Lemmas.StrNumRadix
/-!
# Round trips, part 3 — every exact value inside the rounding interval of a double rounds to it

`F64.interval k` is the set of reals that round (nearest, ties to even) to `k` units; `roundUnits` applied to any
rational `num/den` inside it returns `fin _ k`. The closed/open boundary rule (closed iff the mantissa is even)
and the half-width gap below a power of two are both covered.
-/
namespace JL.Lemmas.RoundTrip
open JL JL.F64 JL.Lemmas.StrNum

/-- round-half-even of `a / b` to an integer -/
def rne (a b : Nat) : Nat :=
  if 2 * (a % b) > b ∨ (2 * (a % b) = b ∧ (a / b) % 2 = 1) then a / b + 1 else a / b

/-- `roundUnits` rounds `num/den` half-even at the scale `2^(bitLen ⌊num/den⌋ − 53)` -/
theorem roundK_eq_rne (num den : Nat) (hd : 0 < den) :
    roundK num den =
      rne num (den * 2 ^ (bitLen (num / den) - 53)) * 2 ^ (bitLen (num / den) - 53) := by
  unfold roundK
  by_cases hL : bitLen (num / den) ≤ 53
  · have h0 : bitLen (num / den) - 53 = 0 := by omega
    simp only [hL, if_true, h0, Nat.pow_zero, Nat.mul_one, rne]
    simp only [Bool.or_eq_true, decide_eq_true_eq, Bool.and_eq_true, beq_iff_eq]
  · simp only [hL, if_false, Nat.shiftLeft_eq, Nat.shiftRight_eq_div_pow]
    generalize hsh : bitLen (num / den) - 53 = sh
    have hsh1 : 1 ≤ sh := by omega
    obtain ⟨t, rfl⟩ : ∃ t, sh = t + 1 := ⟨sh - 1, by omega⟩
    simp only [Nat.add_sub_cancel]
    have hU : 2 ^ (t + 1) = 2 * 2 ^ t := by rw [Nat.pow_succ, Nat.mul_comm]
    have hH : 0 < 2 ^ t := Nat.two_pow_pos t
    unfold rne
    rw [← Nat.div_div_eq_div_mul, Nat.mod_mul]
    generalize hq : num / den = q
    have hr : num % den < den := Nat.mod_lt _ hd
    generalize num % den = r at hr
    have hrem : q % 2 ^ (t + 1) < 2 ^ (t + 1) := Nat.mod_lt _ (Nat.two_pow_pos _)
    generalize q % 2 ^ (t + 1) = rem at hrem
    generalize q / 2 ^ (t + 1) = m
    rw [hU] at hrem ⊢
    generalize 2 ^ t = H at hH hrem
    have key1 : (2 * (r + den * rem) > den * (2 * H)) ↔ (rem > H ∨ (rem = H ∧ r ≠ 0)) := by
      rw [show den * (2 * H) = 2 * (den * H) by rw [Nat.mul_left_comm]]
      rcases Nat.lt_trichotomy rem H with h | h | h
      · have : den * (rem + 1) ≤ den * H := Nat.mul_le_mul_left den h
        rw [Nat.mul_succ] at this
        constructor
        · intro; omega
        · intro; omega
      · subst h; constructor
        · intro; right; exact ⟨rfl, by omega⟩
        · intro h; omega
      · have : den * (H + 1) ≤ den * rem := Nat.mul_le_mul_left den h
        rw [Nat.mul_succ] at this
        constructor
        · intro; left; exact h
        · intro; omega
    have key2 : (2 * (r + den * rem) = den * (2 * H)) ↔ (rem = H ∧ r = 0) := by
      rw [show den * (2 * H) = 2 * (den * H) by rw [Nat.mul_left_comm]]
      rcases Nat.lt_trichotomy rem H with h | h | h
      · have : den * (rem + 1) ≤ den * H := Nat.mul_le_mul_left den h
        rw [Nat.mul_succ] at this
        constructor
        · intro; omega
        · intro; omega
      · subst h; constructor
        · intro; exact ⟨rfl, by omega⟩
        · intro h; omega
      · have : den * (H + 1) ≤ den * rem := Nat.mul_le_mul_left den h
        rw [Nat.mul_succ] at this
        constructor
        · intro; omega
        · intro; omega
    simp only [key1, key2]
    congr 1
    by_cases c1 : rem > H
    · simp [c1]
    · by_cases c2 : rem = H
      · subst c2
        by_cases c3 : r = 0
        · subst c3; simp
        · simp [c3]
      · have : ¬ (H = rem) := fun e => c2 e.symm
        simp [c1, c2]

/-- characterisation of round-half-even by the half-open/closed interval around an integer -/
theorem rne_eq (a b m : Nat) (hb : 0 < b) (hm : 1 ≤ m)
    (hlo : 2 * (m * b) ≤ 2 * a + b) (hhi : 2 * a ≤ 2 * (m * b) + b)
    (htie : m % 2 = 1 → 2 * (m * b) < 2 * a + b ∧ 2 * a < 2 * (m * b) + b) : rne a b = m := by
  have hq1 : a / b < m + 1 := by
    rw [Nat.div_lt_iff_lt_mul hb, Nat.add_mul]; omega
  have hq2 : m - 1 ≤ a / b := by
    rw [Nat.le_div_iff_mul_le hb, Nat.sub_mul]; omega
  have hdm := Nat.div_add_mod a b
  have hr := Nat.mod_lt a hb
  unfold rne
  generalize a % b = r at *
  rcases (show a / b = m - 1 ∨ a / b = m by omega) with hq | hq
  · rw [hq] at hdm ⊢
    rw [Nat.mul_sub, Nat.mul_one, Nat.mul_comm b m] at hdm
    have hmb : b ≤ m * b := Nat.le_mul_of_pos_left b hm
    by_cases hmo : m % 2 = 1
    · have := htie hmo
      rw [if_pos (by left; omega)]; omega
    · by_cases h2 : 2 * r > b
      · rw [if_pos (Or.inl h2)]; omega
      · rw [if_pos (Or.inr ⟨by omega, by omega⟩)]; omega
  · rw [hq] at hdm ⊢
    rw [Nat.mul_comm b m] at hdm
    by_cases hmo : m % 2 = 1
    · have := htie hmo
      rw [if_neg (by omega)]
    · rw [if_neg (by omega)]

/-- the rounding interval in normal form -/
theorem interval_eq (k : Nat) :
    interval k =
      (2 * k - (if 53 < bitLen k ∧ k = 2 ^ (bitLen k - 1) then 2 ^ (bitLen k - 53) / 2 else 2 ^ (bitLen k - 53)),
       2 * k + 2 ^ (bitLen k - 53), (k / 2 ^ (bitLen k - 53)) % 2 == 0) := by
  unfold interval
  by_cases hL : bitLen k ≤ 53
  · have h0 : bitLen k - 53 = 0 := by omega
    have h1 : ¬ (53 < bitLen k) := by omega
    simp [hL, h0, h1]
  · have h1 : 53 < bitLen k := by omega
    simp [hL, h1, Nat.shiftRight_eq_div_pow]

/-- `num/den` (in units) lies in the rounding interval of `k` -/
def InIv (k num den : Nat) : Prop :=
  if (interval k).2.2 = true then (interval k).1 * den ≤ 2 * num ∧ 2 * num ≤ (interval k).2.1 * den
  else (interval k).1 * den < 2 * num ∧ 2 * num < (interval k).2.1 * den

instance (k num den : Nat) : Decidable (InIv k num den) := by unfold InIv; exact inferInstance

theorem round_at (num den U m : Nat) (hd : 0 < den) (hU : 2 ^ (bitLen (num / den) - 53) = U) (hm : 1 ≤ m)
    (hlo : 2 * (m * (den * U)) ≤ 2 * num + den * U) (hhi : 2 * num ≤ 2 * (m * (den * U)) + den * U)
    (htie : m % 2 = 1 → 2 * (m * (den * U)) < 2 * num + den * U ∧ 2 * num < 2 * (m * (den * U)) + den * U) :
    roundK num den = m * U := by
  have hUpos : 0 < U := by rw [← hU]; exact Nat.two_pow_pos _
  rw [roundK_eq_rne num den hd, hU, rne_eq num (den * U) m (Nat.mul_pos hd hUpos) hm hlo hhi htie]

theorem q_bounds (num den U m : Nat) (hd : 0 < den) (_hm : 1 ≤ m)
    (hlo : 2 * (m * (den * U)) ≤ 2 * num + 2 * (den * U)) (hhi : 2 * num < 2 * (m * (den * U)) + 2 * (den * U)) :
    (m - 1) * U ≤ num / den ∧ num / den < (m + 1) * U := by
  constructor
  · rw [Nat.le_div_iff_mul_le hd]
    have : (m - 1) * U * den = m * (den * U) - den * U := by
      rw [Nat.mul_assoc, Nat.mul_comm U den, Nat.sub_mul, Nat.one_mul]
    omega
  · rw [Nat.div_lt_iff_lt_mul hd]
    have : (m + 1) * U * den = m * (den * U) + den * U := by
      rw [Nat.mul_assoc, Nat.mul_comm U den, Nat.add_mul, Nat.one_mul]
    omega

/-- **every value inside the rounding interval of `k` rounds to `k`** -/
theorem roundK_inside (k num den : Nat) (hk0 : k ≠ 0) (hg : 2 ^ (bitLen k - 53) ∣ k) (hd : 0 < den)
    (h : InIv k num den) : roundK num den = k := by
  unfold InIv at h
  rw [interval_eq] at h
  simp only [] at h
  obtain ⟨hb1, hb2⟩ := bitLen_bounds k hk0
  obtain ⟨m, hm⟩ := hg
  have hm0 : 1 ≤ m := by
    rcases Nat.eq_zero_or_pos m with h0 | h0
    · subst h0; simp at hm; exact absurd hm hk0
    · exact h0
  by_cases hL : bitLen k ≤ 53
  · -- below 2^53: the grid is the integers
    have h0 : bitLen k - 53 = 0 := by omega
    have hn : ¬ (53 < bitLen k ∧ k = 2 ^ (bitLen k - 1)) := by omega
    simp only [h0, hn, if_false, Nat.pow_zero, Nat.div_one, Nat.one_mul] at h hm
    subst hm
    have e1 : (2 * k - 1) * den = 2 * (k * den) - den := by
      rw [Nat.sub_mul, Nat.one_mul, Nat.mul_assoc]
    have e2 : (2 * k + 1) * den = 2 * (k * den) + den := by
      rw [Nat.add_mul, Nat.one_mul, Nat.mul_assoc]
    rw [e1, e2] at h
    have hkd : den ≤ k * den := Nat.le_mul_of_pos_left den hm0
    have hlo : 2 * (k * (den * 1)) ≤ 2 * num + den * 1 := by
      rw [Nat.mul_one]; split at h <;> omega
    have hhi : 2 * num ≤ 2 * (k * (den * 1)) + den * 1 := by
      rw [Nat.mul_one]; split at h <;> omega
    have hq := (q_bounds num den 1 k hd hm0 (by omega) (by omega)).2
    have hqk : num / den ≤ k := by omega
    have hbl : bitLen (num / den) - 53 = 0 := by have := bitLen_mono hqk; omega
    have := round_at num den 1 k hd (by rw [hbl]) hm0 hlo hhi (by
      intro hodd
      have : (k % 2 == 0) = false := by simp [hodd]
      rw [this] at h
      simp only [Bool.false_eq_true, if_false] at h
      rw [Nat.mul_one]; omega)
    rw [this, Nat.mul_one]
  · obtain ⟨w, hw⟩ : ∃ w, bitLen k = w + 54 := ⟨bitLen k - 54, by omega⟩
    rw [hw] at h hm hb1 hb2
    have hp1 : 2 ^ (w + 54 - 53) = 2 * 2 ^ w := by
      rw [show w + 54 - 53 = w + 1 by omega, Nat.pow_succ, Nat.mul_comm]
    have hp2 : 2 ^ (w + 54 - 1) = 2 ^ 53 * 2 ^ w := by
      rw [show w + 54 - 1 = 53 + w by omega, Nat.pow_add]
    have hp3 : 2 ^ (w + 54) = 2 ^ 54 * 2 ^ w := by
      rw [show w + 54 = 54 + w by omega, Nat.pow_add]
    rw [hp1] at hm h
    rw [hp2] at hb1 h
    rw [hp3] at hb2
    have hH : 0 < 2 ^ w := Nat.two_pow_pos w
    generalize hHdef : 2 ^ w = H at hH hm h hb1 hb2 hp1 hp2 hp3
    have hdiv : k / (2 * H) = m := by rw [hm]; exact Nat.mul_div_cancel_left m (by omega)
    have hhalf : 2 * H / 2 = H := by omega
    rw [hdiv, hhalf] at h
    -- mantissa bounds
    have hmlo : 2 ^ 52 ≤ m := by
      apply Nat.le_of_not_lt; intro hc
      have : 2 * H * (m + 1) ≤ 2 * H * 2 ^ 52 := Nat.mul_le_mul_left _ hc
      rw [Nat.mul_succ] at this; omega
    have hmhi : m < 2 ^ 53 := by
      apply Nat.lt_of_not_le; intro hc
      have : 2 * H * 2 ^ 53 ≤ 2 * H * m := Nat.mul_le_mul_left _ hc
      omega
    have hkD : k * den = m * (den * (2 * H)) := by rw [hm]; ac_rfl
    have hUD : 2 * H * den = den * (2 * H) := Nat.mul_comm _ _
    have hHD : 2 * (H * den) = den * (2 * H) := by ac_rfl
    have e2 : (2 * k + 2 * H) * den = 2 * (m * (den * (2 * H))) + den * (2 * H) := by
      rw [Nat.add_mul, Nat.mul_assoc, hkD, hUD]
    have hDm : den * (2 * H) ≤ m * (den * (2 * H)) := Nat.le_mul_of_pos_left _ hm0
    have hDpos : 0 < den * (2 * H) := Nat.mul_pos hd (by omega)
    rw [e2] at h
    by_cases hpow : k = 2 ^ 53 * H
    · -- a power of two: the gap below is half as wide
      have hm52 : m = 2 ^ 52 := by
        have : 2 * H * m = 2 * H * 2 ^ 52 := by rw [← hm, hpow]; ac_rfl
        exact Nat.eq_of_mul_eq_mul_left (by omega) this
      have hev : (m % 2 == 0) = true := by rw [hm52]; decide
      have hc : (53 < w + 54 ∧ k = 2 ^ 53 * H) := ⟨by omega, hpow⟩
      simp only [hev, if_true, if_pos hc] at h
      have e1 : (2 * k - H) * den = 2 * (m * (den * (2 * H))) - H * den := by
        rw [Nat.sub_mul, Nat.mul_assoc, hkD]
      rw [e1] at h
      obtain ⟨h1, h2⟩ := h
      replace h1 : 2 * (m * (den * (2 * H))) ≤ 2 * num + H * den := Nat.sub_le_iff_le_add.mp h1
      by_cases hq : k ≤ num / den
      · -- at or above k: ordinary scale
        have hqb := (q_bounds num den (2 * H) m hd hm0 (by omega) (by omega)).2
        have hbl : bitLen (num / den) = w + 53 + 1 := by
          apply bitLen_unique
          · rw [show w + 53 = 53 + w by omega, Nat.pow_add, hHdef]; omega
          · rw [show w + 53 + 1 = 54 + w by omega, Nat.pow_add, hHdef]
            have : (m + 1) * (2 * H) ≤ 2 ^ 53 * (2 * H) := Nat.mul_le_mul_right _ (by omega)
            omega
        have := round_at num den (2 * H) m hd (by rw [hbl, ← hp1]) hm0 (by omega) h2 (by
          intro hodd; rw [hm52] at hodd; exact absurd hodd (by decide))
        rw [this, hm, Nat.mul_comm]
      · -- just below k: one binade down, scale H
        have hq' : num / den < k := by omega
        have hnum : num < k * den := (Nat.div_lt_iff_lt_mul hd).mp hq'
        have hkH : k * den = 2 ^ 53 * (den * H) := by rw [hpow]; ac_rfl
        have hHd : H * den = den * H := Nat.mul_comm _ _
        have hqlo : k - H ≤ num / den := by
          rw [Nat.le_div_iff_mul_le hd, Nat.sub_mul]; omega
        have hbl : bitLen (num / den) = w + 52 + 1 := by
          apply bitLen_unique
          · rw [show w + 52 = 52 + w by omega, Nat.pow_add, hHdef]; omega
          · rw [show w + 52 + 1 = 53 + w by omega, Nat.pow_add, hHdef]; omega
        have := round_at num den H (2 ^ 53) hd (by rw [hbl, ← hHdef, show w + 52 + 1 - 53 = w by omega]) (by decide)
          (by rw [← hkH]; omega) (by rw [← hkH]; omega) (by intro hodd; exact absurd hodd (by decide))
        rw [this, hpow]
    · -- ordinary case
      have hc : ¬ (53 < w + 54 ∧ k = 2 ^ 53 * H) := fun c => hpow c.2
      simp only [hc, if_false] at h
      have e1 : (2 * k - 2 * H) * den = 2 * (m * (den * (2 * H))) - den * (2 * H) := by
        rw [Nat.sub_mul, Nat.mul_assoc, hkD, hUD]
      rw [e1] at h
      have hm52 : 2 ^ 52 < m := by
        apply Nat.lt_of_le_of_ne hmlo
        intro e; apply hpow; rw [hm, ← e]; ac_rfl
      have hlo : 2 * (m * (den * (2 * H))) ≤ 2 * num + den * (2 * H) := by split at h <;> omega
      have hhi : 2 * num ≤ 2 * (m * (den * (2 * H))) + den * (2 * H) := by split at h <;> omega
      have hqb := q_bounds num den (2 * H) m hd hm0 (by omega) (by omega)
      have hbl : bitLen (num / den) = w + 53 + 1 := by
        apply bitLen_unique
        · rw [show w + 53 = 53 + w by omega, Nat.pow_add, hHdef]
          have : 2 ^ 52 * (2 * H) ≤ (m - 1) * (2 * H) := Nat.mul_le_mul_right _ (by omega)
          omega
        · rw [show w + 53 + 1 = 54 + w by omega, Nat.pow_add, hHdef]
          have : (m + 1) * (2 * H) ≤ 2 ^ 53 * (2 * H) := Nat.mul_le_mul_right _ (by omega)
          omega
      have := round_at num den (2 * H) m hd (by rw [hbl, ← hp1]) hm0 hlo hhi (by
        intro hodd
        have : (m % 2 == 0) = false := by simp [hodd]
        rw [this] at h
        simp only [Bool.false_eq_true, if_false] at h
        omega)
      rw [this, hm, Nat.mul_comm]

end JL.Lemmas.RoundTrip
