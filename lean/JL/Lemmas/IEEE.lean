import JL.Spec.IEEE
import JL.Lemmas.C10
import JL.Lemmas.StrNumRadix
/-!
# `F64.roundUnits` is IEEE-754 roundTiesToEven (lemmas)
-/
namespace JL.Lemmas.IEEE
open JL F64 JL.Spec.IEEE
open JL.Lemmas.StrNum (bitLen_bounds bitLen_unique bitLen_mul_pow bitLen_le_of_lt lt_bitLen_of_le mant_bounds bitLen_pos)

/-! ## the structure of `roundK`: the two neighbours `m·2^sh ≤ num/den < (m+1)·2^sh` and the choice -/

theorem roundK_struct (num den : Nat) (hd : 0 < den) :
    ∃ m sh, m < 2 ^ 53 ∧ (sh = 0 ∨ 2 ^ 52 ≤ m) ∧
      m * 2 ^ sh * den ≤ num ∧ num < (m + 1) * 2 ^ sh * den ∧
      roundK num den =
        if 2 * num > (2 * m + 1) * 2 ^ sh * den ∨ (2 * num = (2 * m + 1) * 2 ^ sh * den ∧ m % 2 = 1)
        then (m + 1) * 2 ^ sh else m * 2 ^ sh := by
  have hdm := Nat.div_add_mod num den
  have hr := Nat.mod_lt num hd
  by_cases hL : bitLen (num / den) ≤ 53
  · refine ⟨num / den, 0, (bitLen_le_iff _ _).mp hL, Or.inl rfl, ?_, ?_, ?_⟩
    · simp only [Nat.pow_zero, Nat.mul_one]
      rw [Nat.mul_comm]; omega
    · simp only [Nat.pow_zero, Nat.mul_one, Nat.add_mul, Nat.one_mul]
      rw [Nat.mul_comm]; omega
    · unfold roundK
      simp only [hL, if_true, Nat.pow_zero, Nat.mul_one]
      generalize num / den = q at *
      generalize num % den = r at *
      have e : (2 * q + 1) * den = 2 * (den * q) + den := by
        rw [Nat.add_mul, Nat.one_mul, Nat.mul_assoc, Nat.mul_comm q den]
      rw [e]
      simp only [Bool.or_eq_true, Bool.and_eq_true, decide_eq_true_eq, beq_iff_eq]
      have c1 : (2 * r > den) ↔ (2 * num > 2 * (den * q) + den) := by omega
      have c2 : (2 * r = den) ↔ (2 * num = 2 * (den * q) + den) := by omega
      simp only [c1, c2]
  · have hq0 : num / den ≠ 0 := by intro h; rw [h] at hL; simp [bitLen] at hL
    obtain ⟨hm1, hm2⟩ := mant_bounds (num / den) hL
    have hsh : 1 ≤ bitLen (num / den) - 53 := by omega
    refine ⟨num / den / 2 ^ (bitLen (num / den) - 53), bitLen (num / den) - 53, hm2, Or.inr hm1, ?_⟩
    unfold roundK
    simp only [hL, if_false, Nat.shiftLeft_eq, Nat.shiftRight_eq_div_pow]
    generalize bitLen (num / den) - 53 = sh at *
    have hqdm := Nat.div_add_mod (num / den) (2 ^ sh)
    have hrem := Nat.mod_lt (num / den) (Nat.two_pow_pos sh)
    generalize num / den = q at *
    generalize num % den = r at *
    generalize q / 2 ^ sh = m at *
    generalize q % 2 ^ sh = rem at *
    obtain ⟨t, rfl⟩ : ∃ t, sh = t + 1 := ⟨sh - 1, by omega⟩
    simp only [Nat.add_sub_cancel] at *
    have hu : 2 ^ (t + 1) = 2 * 2 ^ t := by rw [Nat.pow_succ, Nat.mul_comm]
    rw [hu] at hqdm hrem ⊢
    generalize 2 ^ t = half at *
    -- atoms: X = m * (2 * half) * den, Y = rem * den, H = half * den
    have eX1 : (m + 1) * (2 * half) * den = m * (2 * half) * den + 2 * (half * den) := by grind
    have eX2 : (2 * m + 1) * (2 * half) * den = 2 * (m * (2 * half) * den) + 2 * (half * den) := by grind
    have eN : num = m * (2 * half) * den + rem * den + r := by
      rw [← hdm, ← hqdm]; grind
    have hY1 : rem > half → half * den + den ≤ rem * den := by
      intro h
      have := Nat.mul_le_mul_right den (show half + 1 ≤ rem from h)
      rwa [Nat.add_mul, Nat.one_mul] at this
    have hY2 : rem < half → rem * den + den ≤ half * den := by
      intro h
      have := Nat.mul_le_mul_right den (show rem + 1 ≤ half from h)
      rwa [Nat.add_mul, Nat.one_mul] at this
    have hY3 : rem = half → rem * den = half * den := fun h => by rw [h]
    have hY4 : rem * den + den ≤ 2 * (half * den) := by
      have := Nat.mul_le_mul_right den (show rem + 1 ≤ 2 * half from hrem)
      rwa [Nat.add_mul, Nat.one_mul, Nat.mul_assoc] at this
    rw [eX1, eX2]
    generalize m * (2 * half) * den = X at *
    generalize rem * den = Y at *
    generalize half * den = H at *
    refine ⟨by omega, by omega, ?_⟩
    simp only [Bool.or_eq_true, Bool.and_eq_true, decide_eq_true_eq, beq_iff_eq, bne_iff_ne, ne_eq]
    have c : (rem > half ∨ rem = half ∧ (¬ r = 0 ∨ m % 2 = 1)) ↔
        (2 * num > 2 * X + 2 * H ∨ 2 * num = 2 * X + 2 * H ∧ m % 2 = 1) := by
      rcases Nat.lt_trichotomy rem half with h | h | h
      · have := hY2 h; omega
      · have := hY3 h; omega
      · have := hY1 h; omega
    simp only [c]
    split <;> rfl

/-! ## the grid -/

theorem two_pow_pos' (n : Nat) : 0 < 2 ^ n := Nat.two_pow_pos n

theorem gridU_iff (k : Nat) : GridU k ↔ (bitLen k ≤ 53 ∨ 2 ^ (bitLen k - 53) ∣ k) := by
  constructor
  · rintro ⟨m, e, hm, rfl⟩
    by_cases hm0 : m = 0
    · subst hm0; left; simp [bitLen]
    · right
      rw [bitLen_mul_pow m e hm0]
      have : bitLen m ≤ 53 := bitLen_le_of_lt m 53 hm
      exact Nat.dvd_trans (Nat.pow_dvd_pow 2 (by omega)) (Nat.dvd_mul_left _ _)
  · rintro (h | h)
    · exact ⟨k, 0, (bitLen_le_iff _ _).mp h, by simp⟩
    · by_cases hL : bitLen k ≤ 53
      · exact ⟨k, 0, (bitLen_le_iff _ _).mp hL, by simp⟩
      · have hk : k < 2 ^ bitLen k := (bitLen_le_iff _ _).mp (Nat.le_refl _)
        have e : 2 ^ bitLen k = 2 ^ (bitLen k - 53) * 2 ^ 53 := by
          rw [← Nat.pow_add]; congr 1; omega
        rw [e] at hk
        generalize bitLen k - 53 = sh at *
        obtain ⟨c, hc⟩ := h
        refine ⟨c, sh, ?_, by rw [hc, Nat.mul_comm]⟩
        rw [hc] at hk
        exact Nat.lt_of_mul_lt_mul_left (a := 2 ^ sh) hk

/-- the finite doubles are the unbounded-exponent grid cut at `2^1024` -/
theorem onGrid_iff (k : Nat) : OnGrid k ↔ GridU k ∧ k < OVF := by
  unfold OnGrid; rw [gridU_iff]; exact And.comm

theorem gridU_lo (m sh : Nat) (hm : m < 2 ^ 53) : GridU (m * 2 ^ sh) := ⟨m, sh, hm, rfl⟩

theorem gridU_hi (m sh : Nat) (hm : m < 2 ^ 53) : GridU ((m + 1) * 2 ^ sh) := by
  by_cases h : m + 1 < 2 ^ 53
  · exact ⟨m + 1, sh, h, rfl⟩
  · have : m + 1 = 2 ^ 53 := by omega
    refine ⟨2 ^ 52, sh + 1, by decide, ?_⟩
    rw [this, ← Nat.pow_add, ← Nat.pow_add]
    congr 1; omega

/-- consecutive grid points: nothing representable lies strictly between `m·2^sh` and `(m+1)·2^sh`
when `m·2^sh` is in canonical form (`sh = 0`, or the significand `m` has its top bit set) -/
theorem no_grid_between (m sh g : Nat) (hc : sh = 0 ∨ 2 ^ 52 ≤ m) (hg : GridU g) :
    g ≤ m * 2 ^ sh ∨ (m + 1) * 2 ^ sh ≤ g := by
  by_cases hs : sh = 0
  · subst hs; simp only [Nat.pow_zero, Nat.mul_one]; omega
  · have hm : 2 ^ 52 ≤ m := by rcases hc with h | h; exact absurd h hs; exact h
    apply Classical.byContradiction
    intro hcon
    have h1 : m * 2 ^ sh < g := by omega
    have h2 : g < (m + 1) * 2 ^ sh := by omega
    obtain ⟨m', e', hm', rfl⟩ := hg
    have h3 : 2 ^ 52 * 2 ^ sh ≤ m * 2 ^ sh := Nat.mul_le_mul_right _ hm
    have h4 : m' * 2 ^ e' < 2 ^ 53 * 2 ^ e' := Nat.mul_lt_mul_of_pos_right hm' (Nat.two_pow_pos _)
    rw [← Nat.pow_add] at h3 h4
    have h5 : 2 ^ (52 + sh) < 2 ^ (53 + e') := by omega
    have h6 : 52 + sh < 53 + e' := (Nat.pow_lt_pow_iff_right (by decide)).mp h5
    obtain ⟨d, rfl⟩ : ∃ d, e' = sh + d := ⟨e' - sh, by omega⟩
    rw [Nat.pow_add, ← Nat.mul_assoc, Nat.mul_comm m' (2 ^ sh), Nat.mul_assoc] at h1 h2
    rw [Nat.mul_comm m (2 ^ sh)] at h1
    rw [Nat.mul_comm (m + 1) (2 ^ sh)] at h2
    have h7 := Nat.lt_of_mul_lt_mul_left h1
    have h8 := Nat.lt_of_mul_lt_mul_left h2
    omega

/-! ## `ulp`, significand, parity -/

/-- canonical form: the ulp of `m·2^sh` is `2^sh` -/
theorem ulp_canon (m sh : Nat) (hm : m < 2 ^ 53) (hc : sh = 0 ∨ 2 ^ 52 ≤ m) : ulp (m * 2 ^ sh) = 2 ^ sh := by
  unfold ulp
  by_cases hs : sh = 0
  · subst hs
    have : bitLen m ≤ 53 := bitLen_le_of_lt m 53 hm
    simp only [Nat.pow_zero, Nat.mul_one, this, if_true]
  · have hm1 : 2 ^ 52 ≤ m := by rcases hc with h | h; exact absurd h hs; exact h
    have hb : bitLen m = 53 := bitLen_unique m 52 hm1 hm
    have hm0 : m ≠ 0 := by omega
    rw [bitLen_mul_pow m sh hm0, hb]
    have : ¬ (53 + sh ≤ 53) := by omega
    simp only [this, if_false]
    congr 1; omega

theorem sig_canon (m sh : Nat) (hm : m < 2 ^ 53) (hc : sh = 0 ∨ 2 ^ 52 ≤ m) : sig (m * 2 ^ sh) = m := by
  unfold sig
  rw [ulp_canon m sh hm hc]
  exact Nat.mul_div_cancel _ (Nat.two_pow_pos sh)

theorem sig_top (sh : Nat) : sig (2 ^ 53 * 2 ^ sh) = 2 ^ 52 := by
  have e : 2 ^ 53 * 2 ^ sh = 2 ^ 52 * 2 ^ (sh + 1) := by
    rw [← Nat.pow_add, ← Nat.pow_add]; congr 1; omega
  rw [e]
  exact sig_canon (2 ^ 52) (sh + 1) (by decide) (Or.inr (Nat.le_refl _))

theorem sigEven_lo (m sh : Nat) (hm : m < 2 ^ 53) (hc : sh = 0 ∨ 2 ^ 52 ≤ m) :
    sigEven (m * 2 ^ sh) ↔ m % 2 = 0 := by
  unfold sigEven; rw [sig_canon m sh hm hc]

theorem sigEven_hi (m sh : Nat) (hm : m < 2 ^ 53) (hc : sh = 0 ∨ 2 ^ 52 ≤ m) :
    sigEven ((m + 1) * 2 ^ sh) ↔ m % 2 = 1 := by
  unfold sigEven
  by_cases h : m + 1 < 2 ^ 53
  · rw [sig_canon (m + 1) sh h (by omega)]; omega
  · have : m + 1 = 2 ^ 53 := by omega
    rw [this, sig_top]
    have : m = 2 ^ 53 - 1 := by omega
    subst this
    decide

/-! ## nearest-even from a bracket of two consecutive grid points -/

theorem nearestEven_of_bracket (num den lo hi k : Nat)
    (hlo : GridU lo) (hhi : GridU hi) (hgap : ∀ g, GridU g → g ≤ lo ∨ hi ≤ g)
    (h1 : lo * den ≤ num) (h2 : num < hi * den)
    (hpar : sigEven hi ↔ ¬ sigEven lo)
    (hk : k = if 2 * num > lo * den + hi * den ∨ (2 * num = lo * den + hi * den ∧ ¬ sigEven lo) then hi else lo) :
    IsNearestEven num den k ∧ ∀ k', IsNearestEven num den k' → k' = k := by
  have hmono : ∀ g, g ≤ lo → g * den ≤ lo * den := fun g h => Nat.mul_le_mul_right den h
  have hmono' : ∀ g, hi ≤ g → hi * den ≤ g * den := fun g h => Nat.mul_le_mul_right den h
  have hlohi : lo ≠ hi := by intro h; rw [h] at h1; omega
  have hd : 0 < den := by
    apply Nat.pos_of_ne_zero; intro h; subst h; simp at h2
  have hlt : ∀ g, g < lo → g * den + den ≤ lo * den := by
    intro g h
    have := Nat.mul_le_mul_right den (show g + 1 ≤ lo from h)
    rwa [Nat.add_mul, Nat.one_mul] at this
  have hlt' : ∀ g, hi < g → hi * den + den ≤ g * den := by
    intro g h
    have := Nat.mul_le_mul_right den (show hi + 1 ≤ g from h)
    rwa [Nat.add_mul, Nat.one_mul] at this
  constructor
  · split at hk
    · rename_i hup
      subst hk
      refine ⟨hhi, ?_, ?_⟩
      · intro g hg
        unfold err absDiff
        rcases hgap g hg with h | h
        · have := hmono g h; omega
        · have := hmono' g h; omega
      · intro g hg hne he
        unfold err absDiff at he
        rcases hgap g hg with h | h
        · have := hmono g h
          have : 2 * num = lo * den + k * den ∧ ¬ sigEven lo := by
            rcases hup with h' | h'
            · omega
            · exact h'
          exact hpar.mpr this.2
        · have := hlt' g (by omega); omega
    · rename_i hup
      subst hk
      refine ⟨hlo, ?_, ?_⟩
      · intro g hg
        unfold err absDiff
        rcases hgap g hg with h | h
        · have := hmono g h; omega
        · have := hmono' g h; omega
      · intro g hg hne he
        unfold err absDiff at he
        rcases hgap g hg with h | h
        · have := hlt g (by omega); omega
        · have := hmono' g h
          have h3 : 2 * num = k * den + hi * den := by omega
          apply Classical.byContradiction
          intro hodd
          exact hup (Or.inr ⟨h3, hodd⟩)
  · intro k' hk'
    have n1 := hk'.nearest lo hlo
    have n2 := hk'.nearest hi hhi
    unfold err absDiff at n1 n2
    have hk'lohi : k' = lo ∨ k' = hi := by
      rcases hgap k' hk'.grid with h | h
      · left
        apply Classical.byContradiction
        intro hne
        have := hlt k' (by omega); omega
      · right
        apply Classical.byContradiction
        intro hne
        have := hlt' k' (by omega); omega
    split at hk
    · rename_i hup
      subst hk
      rcases hk'lohi with h | h
      · subst h
        have htie : 2 * num = k' * den + k * den := by
          rcases hup with h' | h'
          · omega
          · exact h'.1
        have hodd : ¬ sigEven k' := by
          rcases hup with h' | h'
          · omega
          · exact h'.2
        exact absurd (hk'.tieEven k hhi (Ne.symm hlohi) (by unfold err absDiff; omega)) hodd
      · exact h
    · rename_i hup
      subst hk
      rcases hk'lohi with h | h
      · exact h
      · subst h
        have htie : 2 * num = k * den + k' * den := by omega
        have hev : sigEven k := by
          apply Classical.byContradiction
          intro hodd
          exact hup (Or.inr ⟨htie, hodd⟩)
        have := hk'.tieEven k hlo hlohi (by unfold err absDiff; omega)
        exact absurd this (fun h => (hpar.mp h) hev)

/-! ## `roundK` is the unique nearest-even grid point -/

theorem roundK_nearest_unique (num den : Nat) (hd : 0 < den) :
    IsNearestEven num den (roundK num den) ∧ ∀ k', IsNearestEven num den k' → k' = roundK num den := by
  obtain ⟨m, sh, hm, hc, h1, h2, hk⟩ := roundK_struct num den hd
  refine nearestEven_of_bracket num den (m * 2 ^ sh) ((m + 1) * 2 ^ sh) _ (gridU_lo m sh hm) (gridU_hi m sh hm)
    (fun g hg => no_grid_between m sh g hc hg) h1 h2 ?_ ?_
  · rw [sigEven_hi m sh hm hc, sigEven_lo m sh hm hc]; omega
  · rw [hk]
    have e : (2 * m + 1) * 2 ^ sh * den = m * 2 ^ sh * den + (m + 1) * 2 ^ sh * den := by grind
    have e2 : (m % 2 = 1) ↔ ¬ sigEven (m * 2 ^ sh) := by rw [sigEven_lo m sh hm hc]; omega
    simp only [e, e2]

theorem roundK_nearest (num den : Nat) (hd : 0 < den) : IsNearestEven num den (roundK num den) :=
  (roundK_nearest_unique num den hd).1

theorem nearestEven_iff (num den k : Nat) (hd : 0 < den) : IsNearestEven num den k ↔ k = roundK num den :=
  ⟨(roundK_nearest_unique num den hd).2 k, fun h => h ▸ roundK_nearest num den hd⟩

theorem nearestEven_unique (num den k k' : Nat) (hd : 0 < den)
    (h : IsNearestEven num den k) (h' : IsNearestEven num den k') : k = k' := by
  rw [(nearestEven_iff num den k hd).mp h, (nearestEven_iff num den k' hd).mp h']

theorem rounds_iff (neg : Bool) (num den : Nat) (hd : 0 < den) (r : F64) :
    Rounds neg num den r ↔ r = roundUnits neg num den := by
  rw [roundUnits_eq]
  constructor
  · rintro ⟨k, hk, hr⟩
    rw [hr, (nearestEven_iff num den k hd).mp hk]
  · intro h
    exact ⟨roundK num den, roundK_nearest num den hd, h⟩

/-! ## the rounding depends only on the rational `num/den`, and is monotone in it -/

theorem err_scale (num den num' den' g : Nat) (h : num * den' = num' * den) :
    err num den g * den' = err num' den' g * den := by
  unfold err absDiff
  rw [Nat.add_mul, Nat.add_mul, Nat.sub_mul, Nat.sub_mul, Nat.sub_mul, Nat.sub_mul, h]
  have e : g * den * den' = g * den' * den := by grind
  rw [e]

theorem isNearestEven_congr (num den num' den' k : Nat) (hd : 0 < den) (hd' : 0 < den')
    (h : num * den' = num' * den) (hk : IsNearestEven num den k) : IsNearestEven num' den' k := by
  refine ⟨hk.grid, ?_, ?_⟩
  · intro g hg
    have := Nat.mul_le_mul_right den' (hk.nearest g hg)
    rw [err_scale num den num' den' k h, err_scale num den num' den' g h] at this
    exact Nat.le_of_mul_le_mul_right this hd
  · intro g hg hne he
    apply hk.tieEven g hg hne
    have : err num den g * den' = err num den k * den' := by
      rw [err_scale num den num' den' k h, err_scale num den num' den' g h, he]
    exact Nat.eq_of_mul_eq_mul_right hd' this

theorem roundK_congr (num den num' den' : Nat) (hd : 0 < den) (hd' : 0 < den')
    (h : num * den' = num' * den) : roundK num den = roundK num' den' :=
  (nearestEven_iff num' den' _ hd').mp (isNearestEven_congr num den num' den' _ hd hd' h (roundK_nearest num den hd))

theorem roundUnits_congr (neg : Bool) (num den num' den' : Nat) (hd : 0 < den) (hd' : 0 < den')
    (h : num * den' = num' * den) : roundUnits neg num den = roundUnits neg num' den' := by
  rw [roundUnits_eq, roundUnits_eq, roundK_congr num den num' den' hd hd' h]

theorem roundK_mono (num den num' den' : Nat) (hd : 0 < den) (hd' : 0 < den')
    (h : num * den' ≤ num' * den) : roundK num den ≤ roundK num' den' := by
  apply Nat.le_of_not_lt
  intro hlt
  have hk := roundK_nearest num den hd
  have hk' := roundK_nearest num' den' hd'
  generalize roundK num den = k at *
  generalize roundK num' den' = k' at *
  have n1 := hk.nearest k' hk'.grid
  have n2 := hk'.nearest k hk.grid
  unfold err absDiff at n1 n2
  have l1 : k' * den + den ≤ k * den := by
    have := Nat.mul_le_mul_right den (show k' + 1 ≤ k from hlt)
    rwa [Nat.add_mul, Nat.one_mul] at this
  have l2 : k' * den' + den' ≤ k * den' := by
    have := Nat.mul_le_mul_right den' (show k' + 1 ≤ k from hlt)
    rwa [Nat.add_mul, Nat.one_mul] at this
  have m1 : k * den + k' * den ≤ 2 * num := by omega
  have m2 : 2 * num' ≤ k * den' + k' * den' := by omega
  have p1 := Nat.mul_le_mul_right den' m1
  have p2 := Nat.mul_le_mul_right den m2
  have e : (k * den + k' * den) * den' = (k * den' + k' * den') * den := by grind
  have e1 : 2 * num * den' = 2 * (num * den') := Nat.mul_assoc _ _ _
  have e2 : 2 * num' * den = 2 * (num' * den) := Nat.mul_assoc _ _ _
  have heq : num * den' = num' * den := by omega
  have := nearestEven_unique num' den' k k' hd' (isNearestEven_congr num den num' den' k hd hd' heq hk) hk'
  omega

/-! ## half-ulp error bound -/

theorem roundK_half_ulp (num den : Nat) (hd : 0 < den) :
    2 * err num den (roundK num den) ≤ ulp (roundK num den) * den := by
  obtain ⟨m, sh, hm, hc, h1, h2, hk⟩ := roundK_struct num den hd
  have e : (2 * m + 1) * 2 ^ sh * den = 2 * (m * 2 ^ sh * den) + 2 ^ sh * den := by grind
  have e' : (m + 1) * 2 ^ sh * den = m * 2 ^ sh * den + 2 ^ sh * den := by grind
  rw [e] at hk
  unfold err absDiff
  split at hk
  · rename_i hup
    rw [hk, e']
    have hu : 2 ^ sh * den ≤ ulp ((m + 1) * 2 ^ sh) * den := by
      apply Nat.mul_le_mul_right
      by_cases h : m + 1 < 2 ^ 53
      · rw [ulp_canon (m + 1) sh h (by omega)]; exact Nat.le_refl _
      · have h' : m + 1 = 2 ^ 53 := by omega
        have e3 : 2 ^ 53 * 2 ^ sh = 2 ^ 52 * 2 ^ (sh + 1) := by
          rw [← Nat.pow_add, ← Nat.pow_add]; congr 1; omega
        rw [h', e3, ulp_canon (2 ^ 52) (sh + 1) (by decide) (Or.inr (Nat.le_refl _))]
        exact Nat.pow_le_pow_right (by decide) (by omega)
    rw [e'] at h2
    omega
  · rename_i hup
    rw [hk, ulp_canon m sh hm hc]
    omega

/-! ## overflow: the rounded magnitude reaches `2^1024` iff the exact value is at least `2^1024 - 2^970` -/

set_option exponentiation.threshold 4096

theorem OVF_eq : OVF = 2 ^ 2098 := rfl

/-- largest finite magnitude `(2^53 - 1)·2^971`, in units -/
theorem maxfin_eq : (2 ^ 53 - 1) * 2 ^ 2045 = OVF - 2 * 2 ^ 2044 := by
  rw [OVF_eq, Nat.sub_mul, ← Nat.pow_add, Nat.one_mul]

theorem nearestEven_ovf_iff (num den k : Nat) (hd : 0 < den) (hk : IsNearestEven num den k) :
    OVF ≤ k ↔ (OVF - 2 ^ 2044) * den ≤ num := by
  have hgap := no_grid_between (2 ^ 53 - 1) 2045 k (Or.inr (by decide)) hk.grid
  have e1 : (2 ^ 53 - 1 + 1) * 2 ^ 2045 = OVF := by
    rw [show (2 ^ 53 - 1 + 1 : Nat) = 2 ^ 53 from by decide, OVF_eq, ← Nat.pow_add]
  rw [e1, maxfin_eq] at hgap
  have hM : GridU (OVF - 2 * 2 ^ 2044) := maxfin_eq ▸ gridU_lo (2 ^ 53 - 1) 2045 (by decide)
  have hO : GridU OVF := ⟨1, 2098, by decide, by rw [OVF_eq, Nat.one_mul]⟩
  have hodd : ¬ sigEven (OVF - 2 * 2 ^ 2044) := by
    rw [← maxfin_eq, sigEven_lo _ _ (by decide) (Or.inr (by decide))]; decide
  have hOP : OVF = 2 ^ 54 * 2 ^ 2044 := by rw [OVF_eq, ← Nat.pow_add]
  have n1 := hk.nearest _ hM
  have n2 := hk.nearest _ hO
  have t2 := hk.tieEven _ hO
  unfold err absDiff at n1 n2 t2
  rw [Nat.sub_mul] at n1 ⊢
  rw [Nat.mul_assoc] at n1
  have hOPd : OVF * den = 2 ^ 54 * (2 ^ 2044 * den) := by rw [hOP, Nat.mul_assoc]
  generalize hP : 2 ^ 2044 * den = P at *
  have hPpos : 0 < P := by rw [← hP]; exact Nat.mul_pos (Nat.two_pow_pos _) hd
  constructor
  · intro hge
    have : OVF * den ≤ k * den := Nat.mul_le_mul_right den hge
    generalize OVF * den = O at *
    generalize k * den = K at *
    omega
  · intro hnum
    apply Classical.byContradiction
    intro hlt
    have hkM : k ≤ OVF - 2 * 2 ^ 2044 := by omega
    have hkd : k * den ≤ (OVF - 2 * 2 ^ 2044) * den := Nat.mul_le_mul_right den hkM
    rw [Nat.sub_mul, Nat.mul_assoc, hP] at hkd
    have hne : OVF ≠ k := by omega
    by_cases htie : num = OVF * den - P ∧ k * den = OVF * den - 2 * P
    · have hkeq : k = OVF - 2 * 2 ^ 2044 := by
        apply Nat.eq_of_mul_eq_mul_right hd
        rw [Nat.sub_mul, Nat.mul_assoc, hP]; exact htie.2
      have := t2 hne (by
        generalize OVF * den = O at *
        generalize k * den = K at *
        omega)
      rw [hkeq] at this
      exact hodd this
    · generalize OVF * den = O at *
      generalize k * den = K at *
      omega

theorem roundUnits_inf_iff (neg : Bool) (num den : Nat) (hd : 0 < den) :
    roundUnits neg num den = F64.inf neg ↔ (OVF - 2 ^ 2044) * den ≤ num := by
  rw [← nearestEven_ovf_iff num den _ hd (roundK_nearest num den hd), roundUnits_eq]
  constructor
  · intro h
    split at h
    · assumption
    · cases h
  · intro h
    rw [if_pos h]

/-! ## underflow to zero, and decimal → double -/

theorem OVF_pos : 0 < OVF := by rw [OVF_eq]; exact Nat.two_pow_pos _

/-- anything below half a unit rounds to zero -/
theorem roundUnits_tiny (neg : Bool) (num den : Nat) (h : 2 * num < den) : roundUnits neg num den = fin neg 0 := by
  have hd : 0 < den := by omega
  have hk : IsNearestEven num den 0 := by
    have herr : ∀ g, g ≠ 0 → err num den 0 < err num den g := by
      intro g hg
      have := Nat.mul_le_mul_right den (show 1 ≤ g by omega)
      unfold err absDiff
      omega
    refine ⟨⟨0, 0, by decide, by simp⟩, ?_, ?_⟩
    · intro g _
      by_cases hg : g = 0
      · subst hg; exact Nat.le_refl _
      · exact Nat.le_of_lt (herr g hg)
    · intro g _ hne he
      have := herr g hne
      omega
  rw [roundUnits_eq, ← (nearestEven_iff num den 0 hd).mp hk, if_neg (by have := OVF_pos; omega)]

theorem S_eq : S = 2 ^ 1074 := rfl

theorem ofDecimal_eq_roundUnits (neg : Bool) (d : Nat) (e10 : Int) :
    ofDecimal neg d e10 = roundUnits neg (d * 10 ^ e10.toNat * S) (10 ^ (-e10).toNat) := by
  have hden : 0 < 10 ^ (-e10).toNat := Nat.pow_pos (by decide)
  unfold ofDecimal
  split
  · rename_i h
    have : d = 0 := by simpa using h
    subst this
    have := roundUnits_exact neg 0 _ hden onGrid_zero
    rw [Nat.zero_mul] at this
    rw [Nat.zero_mul, Nat.zero_mul, this]
  · rename_i hd0
    have hd1 : 1 ≤ d := by
      have : d ≠ 0 := by simpa using hd0
      omega
    simp only []
    split
    · -- overflow clamp
      rename_i hbig
      symm
      have e0 : (-e10).toNat = 0 := by omega
      rw [e0, roundUnits_inf_iff neg _ _ (by decide)]
      have h1 : 10 ^ 401 ≤ 10 ^ e10.toNat := Nat.pow_le_pow_right (by decide) (by omega)
      have h2 : 2 ^ 1024 ≤ 10 ^ 401 := by decide
      have h3 : 2 ^ 1024 ≤ d * 10 ^ e10.toNat := by
        have := Nat.mul_le_mul hd1 h1
        omega
      have h4 := Nat.mul_le_mul_right S h3
      have h5 : 2 ^ 1024 * S = OVF := by rw [S_eq, OVF_eq, ← Nat.pow_add]
      simp only [Nat.pow_zero, Nat.mul_one]
      omega
    · split
      · -- underflow clamp
        rename_i hnb hsmall
        symm
        have e0 : e10.toNat = 0 := by omega
        rw [e0, Nat.pow_zero, Nat.mul_one]
        apply roundUnits_tiny
        have hdlt : d < 10 ^ (natToStr d).length :=
          (Nat.length_toDigits_le_iff (b := 10) (n := d) (by decide) Nat.length_toDigits_pos).mp (Nat.le_refl _)
        generalize (natToStr d).length = nd at *
        have hn : nd + 401 ≤ (-e10).toNat := by omega
        have h1 : 10 ^ (nd + 401) ≤ 10 ^ (-e10).toNat := Nat.pow_le_pow_right (by decide) hn
        have h2 : 2 * S < 10 ^ 401 := by rw [S_eq]; decide
        have h3 : d * (2 * S) < 10 ^ nd * 10 ^ 401 := by
          calc d * (2 * S) < 10 ^ nd * (2 * S) := Nat.mul_lt_mul_of_pos_right hdlt (by rw [S_eq]; decide)
            _ ≤ 10 ^ nd * 10 ^ 401 := Nat.mul_le_mul_left _ (Nat.le_of_lt h2)
        rw [← Nat.pow_add] at h3
        have e : 2 * (d * S) = d * (2 * S) := by grind
        omega
      · split
        · rename_i h
          have e0 : (-e10).toNat = 0 := by omega
          rw [e0, Nat.pow_zero]
        · rename_i h
          have e0 : e10.toNat = 0 := by omega
          rw [e0, Nat.pow_zero, Nat.mul_one]

end JL.Lemmas.IEEE
