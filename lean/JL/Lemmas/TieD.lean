import JL.Rs
import JL.Lemmas.Monad
/-!
# Helper lemmas for the tie theorems of `JL/Tie` about code in the outcome monad `M`

General facts about `Rs.settled`, `Rs.foldM`, `Rs.strict`, `Rs.try_` (translated `Result`-valued folds), stated for an
arbitrary (settled or unsettled) accumulator.
-/
namespace JL.Lemmas.TieD
open JL

/-! ## `M.bind` / `>>=` -/

theorem bind_eq {α β} (x : M α) (f : α → M β) : M.bind x f = (x >>= f) := rfl

@[simp] theorem mbind_ok {α β} (l : List Json) (a : α) (f : α → M β) :
    M.bind (⟨l, .ok a⟩ : M α) f = ⟨l ++ (f a).logs, (f a).out⟩ := rfl
@[simp] theorem mbind_err {α β} (l : List Json) (f : α → M β) :
    M.bind (⟨l, .err⟩ : M α) f = ⟨l, .err⟩ := rfl
@[simp] theorem mbind_panic {α β} (l : List Json) (f : α → M β) :
    M.bind (⟨l, .panic⟩ : M α) f = ⟨l, .panic⟩ := rfl

@[simp] theorem eta {α} (x : M α) : (⟨x.logs, x.out⟩ : M α) = x := rfl
@[simp] theorem nil_eta {α} (x : M α) : (⟨[] ++ x.logs, x.out⟩ : M α) = x := rfl

/-- prefixing log lines commutes with `bind` -/
theorem prefix_bind {α β} (l : List Json) (x : M α) (f : α → M β) :
    (⟨l ++ (x >>= f).logs, (x >>= f).out⟩ : M β) = ((⟨l ++ x.logs, x.out⟩ : M α) >>= f) := by
  cases x with | mk lx o => cases o <;> simp [List.append_assoc]

/-- `Functor.map` on `M` (what `Rs.map` is on a `Result`) -/
theorem map_eq_bind {α β} (g : α → β) (x : M α) : (g <$> x) = (x >>= fun a => (pure (g a) : M β)) := rfl

/-! ## `settled` -/

@[simp] theorem settled_mk {α} (l : List Json) (o : Out α) : Rs.settled (⟨l, o⟩ : M α) = ⟨[], o⟩ := rfl
@[simp] theorem settled_logs {α} (x : M α) : (Rs.settled x).logs = [] := rfl
@[simp] theorem settled_out {α} (x : M α) : (Rs.settled x).out = x.out := rfl
theorem settled_pure {α} (a : α) : Rs.settled (pure a : M α) = pure a := rfl
theorem settled_idem {α} (x : M α) : Rs.settled (Rs.settled x) = Rs.settled x := rfl

/-- the log lines of a computation, then the continuation on its settled outcome: the continuation is a `bind` -/
theorem strict_bind {α β} (x : M α) (f : α → M β) :
    (⟨x.logs ++ (Rs.settled x >>= f).logs, (Rs.settled x >>= f).out⟩ : M β) = (x >>= f) := by
  cases x with | mk l o => cases o <;> simp

/-! ## `foldM` -/

@[simp] theorem foldM_nil {α β} (acc : M β) (f : M β → α → M β) : Rs.foldM [] acc f = acc := rfl
theorem foldM_cons {α β} (x : α) (xs : List α) (acc : M β) (f : M β → α → M β) :
    Rs.foldM (x :: xs) acc f =
      ⟨acc.logs ++ (Rs.foldM xs (f (Rs.settled acc) x) f).logs, (Rs.foldM xs (f (Rs.settled acc) x) f).out⟩ := rfl

/-- the monadic left fold: the state is threaded with `>>=` (the first failing step ends the fold) -/
def foldBind {α σ : Type} (g : σ → α → M σ) : List α → σ → M σ
  | [], s => pure s
  | x :: xs, s => g s x >>= foldBind g xs

@[simp] theorem foldBind_nil {α σ} (g : σ → α → M σ) (s : σ) : foldBind g [] s = pure s := rfl
@[simp] theorem foldBind_cons {α σ} (g : σ → α → M σ) (x : α) (xs : List α) (s : σ) :
    foldBind g (x :: xs) s = (g s x >>= foldBind g xs) := rfl

/-- a `fold` whose step starts with `let s = acc?;` is the monadic left fold, from any accumulator -/
theorem foldM_bind {α σ : Type} (f : M σ → α → M σ) (g : σ → α → M σ)
    (hf : ∀ (a : M σ) (x : α), f a x = (a >>= fun s => g s x)) :
    ∀ (xs : List α) (acc : M σ), Rs.foldM xs acc f = (acc >>= foldBind g xs)
  | [], acc => by
      show acc = (acc >>= fun s => (pure s : M σ))
      exact (M.bind_pure acc).symm
  | x :: xs, acc => by
      rw [foldM_cons, foldM_bind f g hf xs, hf]
      cases acc with | mk l o =>
      cases o with
      | ok s => simp
      | err => simp
      | panic => simp

/-- the same for a step that is an `and_then`/`?` on the accumulator, given as `M.bind` -/
theorem foldM_bind' {α σ : Type} (f : M σ → α → M σ) (g : σ → α → M σ)
    (hf : ∀ (a : M σ) (x : α), f a x = M.bind a (fun s => g s x)) (xs : List α) (acc : M σ) :
    Rs.foldM xs acc f = M.bind acc (foldBind g xs) :=
  foldM_bind f g hf xs acc

/-- two step functions that agree give the same monadic fold -/
theorem foldBind_congr {α σ : Type} (g g' : σ → α → M σ) (h : ∀ s x, g s x = g' s x) (xs : List α) (s : σ) :
    foldBind g xs s = foldBind g' xs s := by
  have : g = g' := by funext s x; exact h s x
  rw [this]

/-- `enumerate` from a start index -/
theorem enumerate_eq {α} (xs : List α) : Rs.enumerate xs = (xs.zipIdx 0).map (fun p => (p.2, p.1)) := rfl

end JL.Lemmas.TieD
