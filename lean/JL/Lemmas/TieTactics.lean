import Lean
/-!
# A tactic for the tie theorems: unfolding translated *auxiliaries* without naming them

The translator turns a helper function that has no tie theorem of its own (a function nested in another one, or a small
top-level function that only serves one caller) into an auxiliary definition `JL.Gen.<something>`; its name follows the Rust
source (`Gen.number_eq.as_int` for a nested `fn as_int`, `Gen.aux_number_as_int` once it is hoisted and renamed). A proof
that spells that name stops compiling when a maintainer moves or renames the helper. `unfold_gen_aux` unfolds, in the goal,
every definition of the namespace `JL.Gen` that

* has no tie theorem `JL.Tie.<same name>` (those are rewritten with their tie, never unfolded), and
* is not a pattern-matching auxiliary, not a fuel-indexed recursion `….go`, not a type or a constructor,

repeatedly (an auxiliary may call another one). It fails if there is nothing to unfold (use `try`).
-/
namespace JL.Lemmas.TieTactics
open Lean Elab Tactic Meta

/-- the auxiliaries of translated code that occur in `e` -/
def genAuxConsts (env : Environment) (e : Expr) : Array Name :=
  e.getUsedConstants.filter fun c =>
    (`JL.Gen).isPrefixOf c
      && (match env.find? c with
          | some (.defnInfo _) => true
          | _ => false)
      && !(env.contains (`JL.Tie ++ (c.replacePrefix `JL.Gen .anonymous)))
      && !(c.isInternal)
      && !(match c with
           | .str _ s => s == "go" || s.startsWith "match_" || s.startsWith "_"
           | _ => true)
      && (Lean.Meta.Match.Extension.getMatcherInfo? env c).isNone

elab "unfold_gen_aux" : tactic => do
  let mut progress := false
  for _ in [0:8] do
    let g ← getMainGoal
    let t ← instantiateMVars (← g.getType)
    let cs := genAuxConsts (← getEnv) t
    if cs.isEmpty then break
    let mut stepped := false
    for c in cs do
      try
        evalTactic (← `(tactic| unfold $(mkIdent c):ident))
        stepped := true
      catch _ => pure ()
    if stepped then progress := true else break
  unless progress do
    throwError "unfold_gen_aux: no auxiliary definition of `JL.Gen` occurs in the goal"

end JL.Lemmas.TieTactics
