import JL.Lemmas.C01
import JL.Lemmas.C10
/-!
# Lemmas for C01 (well-formedness half): evaluation only ever builds well-formed JSON values

`Sat P x` : if the computation `x` yields a value, the value satisfies `P`; and every line it logged is a
well-formed value (also when it ends in an error). The file proves, bottom-up,

* sub-values of well-formed values are well-formed (`lookup_wf`, `get_mem`, `step_wf`, `walk_wf`, `getKey_wf`);
* every eager operator maps well-formed operands to a well-formed result and well-formed log lines
  (`execEager_sat`), every data operator likewise on well-formed data (`execData_sat`);
* the data loops of the lazy operators preserve the invariant if the closure does (`mapData_sat`, …),
  the `reduce` context object is well-formed (`reduceCtx_wf`);
* `run_sat`: the `run`-level induction (strong induction on `sizeOf r`, the shape of `run_noPanic`).
  No `check` hypothesis is needed: an outcome that is not a value satisfies the invariant trivially.
-/
namespace JL.Lemmas.C01Wf
open JL Json M

/-- the invariant: a produced value satisfies `P`, every logged line is well-formed -/
def Sat {α : Type} (P : α → Prop) (x : M α) : Prop :=
  (∀ a, x.out = .ok a → P a) ∧ ∀ l ∈ x.logs, l.wf = true

/-- a well-formed value -/
abbrev WfV (v : Json) : Prop := v.wf = true
/-- a list of well-formed values -/
abbrev WfL (vs : List Json) : Prop := wfList vs = true

/-! ## the monad -/

theorem sat_pure {α} {P : α → Prop} {a : α} (h : P a) : Sat P (Pure.pure a : M α) := by
  refine ⟨fun b hb => ?_, by simp⟩
  simp at hb; exact hb ▸ h

theorem sat_err {α} {P : α → Prop} : Sat P (M.err : M α) := by simp [Sat]
theorem sat_panic {α} {P : α → Prop} : Sat P (M.panic : M α) := by simp [Sat]

theorem sat_mono {α} {P Q : α → Prop} {x : M α} (h : ∀ a, P a → Q a) (hx : Sat P x) : Sat Q x :=
  ⟨fun a ha => h a (hx.1 a ha), hx.2⟩

theorem sat_bind {α β} {P : α → Prop} {Q : β → Prop} {x : M α} {f : α → M β} (hx : Sat P x)
    (hf : ∀ a, P a → Sat Q (f a)) : Sat Q (x >>= f) := by
  cases x with | mk l o =>
  cases o with
  | ok a =>
    have hfa := hf a (hx.1 a rfl)
    simp only [bind_ok]
    refine ⟨hfa.1, fun l' hl' => ?_⟩
    rcases List.mem_append.mp hl' with h | h
    · exact hx.2 _ h
    · exact hfa.2 _ h
  | err => simp only [bind_err]; exact ⟨by simp, hx.2⟩
  | panic => simp only [bind_panic]; exact ⟨by simp, hx.2⟩

theorem sat_ite {α} {P : α → Prop} {c : Prop} [Decidable c] {x y : M α} (hx : Sat P x) (hy : Sat P y) :
    Sat P (if c then x else y) := by
  split
  · exact hx
  · exact hy

theorem sat_ofOption {α} {P : α → Prop} (o : Option α) (h : ∀ a, o = some a → P a) : Sat P (M.ofOption o) := by
  cases o with
  | none => simp [Sat]
  | some a => simp only [ofOption_some]; exact ⟨fun b hb => by simp at hb; exact hb ▸ h a rfl, by simp⟩

/-! ## sub-values of well-formed values -/

theorem wfList_iff : ∀ xs : List Json, wfList xs = true ↔ ∀ x ∈ xs, x.wf = true
  | [] => by simp [wfList]
  | x :: xs => by simp [wfList, wfList_iff xs]

theorem wfList_append (xs ys : List Json) : wfList (xs ++ ys) = (wfList xs && wfList ys) := by
  induction xs with
  | nil => simp [wfList]
  | cons x xs ih => simp [wfList, ih, Bool.and_assoc]

theorem wf_arr (xs : List Json) : (Json.arr xs).wf = wfList xs := by simp [Json.wf]
theorem wf_str (s : Str) : (Json.str s).wf = true := by simp [Json.wf]
theorem wf_bool (b : Bool) : (Json.bool b).wf = true := by simp [Json.wf]
theorem wf_null : Json.null.wf = true := by simp [Json.wf]

/-- the operand of an operation `{k: v}` -/
theorem wf_single (k : Str) (v : Json) : (Json.obj [(k, v)]).wf = v.wf := by
  simp [Json.wf, wfKvs, keysSorted]

theorem wf_obj_kvs {kvs : List (Str × Json)} (h : (Json.obj kvs).wf = true) : wfKvs kvs = true := by
  simp [Json.wf] at h; exact h.1

theorem mem_wf {x : Json} {xs : List Json} (h : (Json.arr xs).wf = true) (hx : x ∈ xs) : x.wf = true :=
  (wfList_iff xs).mp (by rw [← wf_arr]; exact h) x hx

theorem lookup_wf (k : Str) : ∀ (kvs : List (Str × Json)) (v : Json), wfKvs kvs = true →
    lookup k kvs = some v → v.wf = true
  | [], v, _, h => by simp [lookup] at h
  | (k', w) :: rest, v, hw, h => by
    simp only [wfKvs, Bool.and_eq_true] at hw
    unfold lookup at h
    split at h
    · cases h; exact hw.1
    · exact lookup_wf k rest v hw.2 h

theorem get_mem {α : Type} (xs : List α) (i : Int) (v : α) (h : Data.get xs i = some v) : v ∈ xs := by
  unfold Data.get at h
  split at h
  · exact List.mem_of_getElem? h
  · split at h
    · exact List.mem_of_getElem? h
    · cases h

theorem chars_wf (s : Str) : wfList (s.map (fun c => Json.str [c])) = true := by
  rw [wfList_iff]
  intro x hx
  obtain ⟨c, -, rfl⟩ := List.mem_map.mp hx
  exact wf_str _

theorem step_wf (acc : Json) (seg : Str) (v : Json) (ha : acc.wf = true) (h : Data.step acc seg = some v) :
    v.wf = true := by
  unfold Data.step at h
  split at h
  · exact lookup_wf _ _ _ (wf_obj_kvs ha) h
  · split at h
    · exact mem_wf ha (get_mem _ _ _ h)
    · cases h
  · split at h
    · simp only [Option.map_eq_some_iff] at h
      obtain ⟨c, -, rfl⟩ := h
      exact wf_str _
    · cases h
  · cases h

theorem walk_wf : ∀ (segs : List Str) (acc v : Json), acc.wf = true → Data.walk segs acc = some v → v.wf = true
  | [], acc, v, ha, h => by simp [Data.walk] at h; exact h ▸ ha
  | seg :: rest, acc, v, ha, h => by
    unfold Data.walk at h
    split at h
    · rename_i w hw
      exact walk_wf rest w v (step_wf acc seg w ha hw) h
    · cases h

theorem getStrKey_wf (d : Json) (k : Str) (v : Json) (hd : d.wf = true) (h : Data.getStrKey d k = some v) :
    v.wf = true := by
  unfold Data.getStrKey at h
  split at h
  · cases h; exact hd
  · split at h
    · exact walk_wf _ _ _ hd h
    · exact walk_wf _ _ _ hd h
    · exact walk_wf _ _ _ hd h
    · cases h

/-- `var` lookups return a sub-value of the data, or a one-character string -/
theorem getKey_wf (d : Json) (key : Data.Key) (v : Json) (hd : d.wf = true) (h : Data.getKey d key = some v) :
    v.wf = true := by
  unfold Data.getKey at h
  split at h
  · cases h; exact hd
  · exact getStrKey_wf _ _ _ hd h
  · split at h
    · exact getStrKey_wf _ _ _ hd h
    · exact mem_wf hd (get_mem _ _ _ h)
    · simp only [Option.map_eq_some_iff] at h
      obtain ⟨c, -, rfl⟩ := h
      exact wf_str _
    · cases h

/-! ## data operators -/

theorem var_sat (d : Json) (hd : d.wf = true) (items : List Json) (hi : wfList items = true) :
    Sat WfV (var d items) := by
  unfold var
  split
  · exact sat_pure hd
  · rename_i k rest
    split
    · exact sat_err
    · split
      · rename_i v hv
        exact sat_pure (getKey_wf _ _ _ hd hv)
      · apply sat_pure
        simp only [wfList, Bool.and_eq_true] at hi
        split
        · exact wf_null
        · simp only [wfList, Bool.and_eq_true] at hi; exact hi.2.1

theorem missingFold_sat (d : Json) : ∀ (args acc : List Json), wfList args = true → wfList acc = true →
    Sat WfL (missingFold d args acc)
  | [], acc, _, hacc => by simp only [missingFold]; exact sat_pure hacc
  | arg :: rest, acc, hargs, hacc => by
    simp only [wfList, Bool.and_eq_true] at hargs
    unfold missingFold
    split
    · exact sat_err
    · exact missingFold_sat d rest acc hargs.2 hacc
    · split
      · refine missingFold_sat d rest _ hargs.2 ?_
        rw [wfList_append]; simp [wfList, hacc, hargs.1]
      · exact missingFold_sat d rest acc hargs.2 hacc

theorem missing_sat (d : Json) (items : List Json) (hi : wfList items = true) : Sat WfV (missing d items) := by
  unfold missing
  refine sat_bind (P := WfL) (missingFold_sat d _ _ ?_ rfl) fun ks hks => sat_pure (by rw [WfV, wf_arr]; exact hks)
  split
  · rename_i vals rest
    simp only [wfList, Bool.and_eq_true] at hi
    rw [← wf_arr]; exact hi.1
  · exact hi

theorem missingSomeFold_sat (d : Json) (t : Nat) : ∀ (keys : List Json) (st : Nat × List Json),
    wfList keys = true → wfList st.2 = true → Sat (fun st' => wfList st'.2 = true) (missingSomeFold d t keys st)
  | [], st, _, hst => by simp only [missingSomeFold]; exact sat_pure hst
  | key :: rest, (count, miss), hk, hst => by
    simp only [wfList, Bool.and_eq_true] at hk
    unfold missingSomeFold
    split
    · exact missingSomeFold_sat d t rest _ hk.2 hst
    · split
      · exact sat_err
      · exact missingSomeFold_sat d t rest _ hk.2 hst
      · split
        · refine missingSomeFold_sat d t rest _ hk.2 ?_
          show wfList (if Json.contains miss key = true then miss else miss ++ [key]) = true
          split
          · exact hst
          · rw [wfList_append]; simp [wfList, hk.1]; exact hst
        · exact missingSomeFold_sat d t rest _ hk.2 hst

theorem missingSome_sat (d : Json) (items : List Json) (hi : wfList items = true) :
    Sat WfV (missingSome d items) := by
  unfold missingSome
  split
  · rename_i thr keysArg rest
    simp only [wfList, Bool.and_eq_true] at hi
    split
    · exact sat_err
    · split
      · rename_i keys
        refine sat_bind (missingSomeFold_sat d _ keys (0, []) (by rw [← wf_arr]; exact hi.2.1) rfl) ?_
        rintro ⟨count, miss⟩ hm
        apply sat_pure
        rw [WfV, wf_arr]
        split
        · rfl
        · exact hm
      · exact sat_err
  · exact sat_panic

/-- **data operators**: on well-formed data and operands, a result is well-formed (nothing is logged) -/
theorem execData_sat (k : Str) (d : Json) (hd : d.wf = true) (items : List Json) (hi : wfList items = true) :
    Sat WfV (execData k d items) := by
  unfold execData
  split
  · exact var_sat d hd items hi
  · split
    · exact missing_sat d items hi
    · split
      · exact missingSome_sat d items hi
      · exact sat_err

/-! ## eager operators -/

theorem numResult_sat (r : Option F64) (hr : ∀ x, r = some x → F64.WF x) : Sat WfV (numResult r) := by
  refine ⟨fun v h => Lemmas.C01.numResult_wf r hr v h, ?_⟩
  unfold numResult
  cases r with
  | none => simp
  | some x => cases h : toNumberValue x <;> simp [h]

theorem compare_sat (f : Json → Json → Bool) (items : List Json) : Sat WfV (compare f items) := by
  unfold compare
  split
  · exact sat_pure (wf_bool _)
  · exact sat_pure (wf_bool _)
  · exact sat_panic

/-- a fold in `Option` keeps an invariant that each step keeps for the elements of the list -/
theorem foldlM_inv_mem {α β : Type} (P : β → Prop) (f : β → α → Option β) :
    ∀ (l : List α), (∀ a ∈ l, ∀ b b', P b → f b a = some b' → P b') →
      ∀ b b', P b → l.foldlM f b = some b' → P b'
  | [], _, b, b', hb, h => by simp at h; exact h ▸ hb
  | a :: l, hf, b, b', hb, h => by
    rw [List.foldlM_cons] at h
    cases hfa : f b a with
    | none => simp [hfa] at h
    | some c =>
      simp [hfa] at h
      exact foldlM_inv_mem P f l (fun a' ha' => hf a' (List.mem_cons_of_mem _ ha')) c b'
        (hf a List.mem_cons_self b c hb hfa) h

theorem abstractMod_WF (a b : Json) (ha : a.wf = true) (hb : b.wf = true) (x : F64)
    (h : JsOp.abstractMod a b = some x) : F64.WF x := by
  unfold JsOp.abstractMod at h
  split at h
  · rename_i p q hp hq
    cases h
    exact F64.rem_WF _ _ (JsOp.toNumber_WF a ha p hp) (JsOp.toNumber_WF b hb q hq)
  · cases h

/-- `max` returns one of the converted operands (or the initial `-∞`) -/
theorem abstractMax_WF (items : List Json) (hi : wfList items = true) (x : F64)
    (h : JsOp.abstractMax items = some x) : F64.WF x := by
  unfold JsOp.abstractMax at h
  refine foldlM_inv_mem F64.WF _ items ?_ _ x (F64.WF_inf _) h
  intro a ha b b' hb hs
  split at hs
  · rename_i n hn
    cases hs
    split
    · exact JsOp.toNumber_WF a ((wfList_iff items).mp hi a ha) n hn
    · exact hb
  · cases hs

/-- `min` returns one of the converted operands (or the initial `+∞`) -/
theorem abstractMin_WF (items : List Json) (hi : wfList items = true) (x : F64)
    (h : JsOp.abstractMin items = some x) : F64.WF x := by
  unfold JsOp.abstractMin at h
  refine foldlM_inv_mem F64.WF _ items ?_ _ x (F64.WF_inf _) h
  intro a ha b b' hb hs
  split at hs
  · rename_i n hn
    cases hs
    split
    · exact JsOp.toNumber_WF a ((wfList_iff items).mp hi a ha) n hn
    · exact hb
  · cases hs

/-- `merge`: the concatenation of well-formed arrays and singletons -/
theorem merge_wf (items : List Json) (h : wfList items = true) : wfList (ArrOp.merge items) = true := by
  rw [wfList_iff] at h ⊢
  intro x hx
  unfold ArrOp.merge at hx
  obtain ⟨i, hi, hxi⟩ := List.mem_flatMap.mp hx
  have hiw := h i hi
  split at hxi
  · exact mem_wf hiw hxi
  · simp at hxi; subst hxi; exact hiw

theorem substr_wf (s i : Json) (l : Option Json) (v : Json) (h : StrOp.substr s i l = some v) : v.wf = true := by
  unfold StrOp.substr at h
  repeat' split at h
  all_goals first
    | (cases h; done)
    | (simp only [Option.some.injEq] at h; subst h; exact wf_str _)

/-- **eager operators**: on well-formed operands, a result is well-formed and so is every logged line -/
theorem execEager_sat (k : Str) (items : List Json) (hi : wfList items = true) : Sat WfV (execEager k items) := by
  unfold execEager
  repeat' (refine sat_ite ?_ ?_)
  all_goals repeat' split
  all_goals first
    | exact sat_pure (wf_bool _)
    | exact sat_pure (wf_str _)
    | exact sat_panic
    | exact sat_err
    | exact compare_sat _ _
    | exact numResult_sat _ (fun x hx => Lemmas.C01.parseFloatAdd_wf _ x hx)
    | exact numResult_sat _ (fun x hx => Lemmas.C01.parseFloatMul_wf _ x hx)
    | exact numResult_sat _ (fun x hx => Lemmas.C01.toNegative_wf _ x hx)
    | exact numResult_sat _ (fun x hx => Lemmas.C01.abstractMinus_wf _ _ x hx)
    | exact numResult_sat _ (fun x hx => Lemmas.C01.abstractDiv_wf _ _ x hx)
    | exact numResult_sat _ (fun x hx => abstractMax_WF _ hi x hx)
    | exact numResult_sat _ (fun x hx => abstractMin_WF _ hi x hx)
    | exact sat_pure (by rw [WfV, wf_arr]; exact merge_wf _ hi)
    | exact sat_ofOption _ (fun v hv => substr_wf _ _ _ v hv)
    | (simp only [wfList, Bool.and_eq_true] at hi
       exact numResult_sat _ (fun x hx => abstractMod_WF _ _ hi.1 hi.2.1 x hx))
    | (simp only [wfList, Bool.and_eq_true] at hi
       refine sat_bind (P := fun _ => True) ⟨fun _ _ => trivial, ?_⟩ fun _ _ => sat_pure hi.1
       simp [M.log, hi.1])

/-! ## the loops of the lazy operators over data: the closure receives well-formed values only -/

theorem mapData_sat {f : Json → M Json} (hf : ∀ x, x.wf = true → Sat WfV (f x)) :
    ∀ xs, wfList xs = true → Sat WfL (mapData f xs)
  | [], _ => by simp only [mapData]; exact sat_pure (by simp [WfL, wfList])
  | x :: xs, h => by
    simp only [wfList, Bool.and_eq_true] at h
    unfold mapData
    exact sat_bind (hf x h.1) fun y hy => sat_bind (mapData_sat hf xs h.2) fun ys hys =>
      sat_pure (by simp only [WfL, wfList, Bool.and_eq_true]; exact ⟨hy, hys⟩)

theorem filterData_sat {f : Json → M Json} (hf : ∀ x, x.wf = true → Sat WfV (f x)) :
    ∀ xs, wfList xs = true → Sat WfL (filterData f xs)
  | [], _ => by simp only [filterData]; exact sat_pure (by simp [WfL, wfList])
  | x :: xs, h => by
    simp only [wfList, Bool.and_eq_true] at h
    unfold filterData
    refine sat_bind (hf x h.1) fun y _ => sat_bind (filterData_sat hf xs h.2) fun ys hys => sat_pure ?_
    show wfList (if truthy y = true then x :: ys else ys) = true
    split
    · simp only [wfList, Bool.and_eq_true]; exact ⟨h.1, hys⟩
    · exact hys

/-- the context object of `reduce` is a well-formed object: its two keys are sorted and distinct -/
theorem reduceCtx_wf (acc cur : Json) (ha : acc.wf = true) (hc : cur.wf = true) : (reduceCtx acc cur).wf = true := by
  have hk : strLt "accumulator".toList "current".toList = true := by decide
  simp only [reduceCtx, Json.wf, wfKvs, keysSorted, ha, hc, hk, Bool.and_self]

theorem reduceData_sat {f : Json → M Json} (hf : ∀ x, x.wf = true → Sat WfV (f x)) :
    ∀ xs acc, wfList xs = true → acc.wf = true → Sat WfV (reduceData f xs acc)
  | [], acc, _, ha => by simp only [reduceData]; exact sat_pure ha
  | x :: xs, acc, h, ha => by
    simp only [wfList, Bool.and_eq_true] at h
    unfold reduceData
    exact sat_bind (hf _ (reduceCtx_wf acc x ha h.1)) fun acc' ha' => reduceData_sat hf xs acc' h.2 ha'

theorem quantData_sat (isAll : Bool) {p : Json → M Json} (hp : ∀ x, x.wf = true → Sat WfV (p x)) :
    ∀ xs res, wfList xs = true → Sat (fun _ => True) (quantData isAll p xs res)
  | [], res, _ => by simp only [quantData]; exact sat_pure trivial
  | x :: xs, res, h => by
    simp only [wfList, Bool.and_eq_true] at h
    unfold quantData
    split
    · exact quantData_sat isAll hp xs res h.2
    · exact sat_bind (hp x h.1) fun _ _ => quantData_sat isAll hp xs _ h.2

/-- the items of `all`/`some` over a value: its elements, or its characters as one-character strings -/
theorem quantItems_wf (coll : Json) (hc : coll.wf = true) (items : List Json) (h : quantItems coll = some items) :
    wfList items = true := by
  unfold quantItems at h
  split at h
  · cases h; rw [← wf_arr]; exact hc
  · cases h; exact chars_wf _
  · cases h; simp [wfList]
  · cases h

theorem quantValue_sat (isAll : Bool) (coll : Json) (hc : coll.wf = true) (predOk : Bool) {p : Json → M Json}
    (hp : ∀ x, x.wf = true → Sat WfV (p x)) : Sat WfV (quantValue isAll coll predOk p) := by
  unfold quantValue
  split
  · exact sat_err
  · rename_i items hitems
    refine sat_ite (sat_pure (wf_bool _)) (sat_ite sat_err ?_)
    exact sat_bind (quantData_sat isAll hp items isAll (quantItems_wf coll hc items hitems)) fun _ _ =>
      sat_pure (wf_bool _)

/-! ## the folds over rule text, given the statement for the elements -/

/-- the statement of the main theorem for one rule (the induction hypothesis) -/
def Good (r : Json) : Prop := r.wf = true → ∀ d, d.wf = true → Sat WfV (run r d)

theorem guard_sat {x : Json} (hx : Good x) (hw : x.wf = true) (d : Json) (hd : d.wf = true) :
    Sat WfV (if check x = true then run x d else M.err) :=
  sat_ite (hx hw d hd) sat_err

theorem runList_sat : ∀ (xs : List Json), (∀ x ∈ xs, Good x) → wfList xs = true →
    ∀ d, d.wf = true → Sat WfL (runList xs d)
  | [], _, _, d, _ => by simp only [runList]; exact sat_pure (by simp [WfL, wfList])
  | x :: xs, ih, hw, d, hd => by
    simp only [wfList, Bool.and_eq_true] at hw
    unfold runList
    exact sat_bind (ih x List.mem_cons_self hw.1 d hd) fun v hv =>
      sat_bind (runList_sat xs (fun y hy => ih y (List.mem_cons_of_mem _ hy)) hw.2 d hd) fun vs hvs =>
        sat_pure (by simp only [WfL, wfList, Bool.and_eq_true]; exact ⟨hv, hvs⟩)

theorem runIf_sat : ∀ (xs : List Json), (∀ x ∈ xs, Good x) → wfList xs = true →
    ∀ (i : Nat) (st : Json × Bool × Bool) (d : Json), st.1.wf = true → d.wf = true → Sat WfV (runIf xs i st d)
  | [], _, _, i, st, d, hst, _ => by simp only [runIf]; exact sat_pure hst
  | x :: xs, ih, hw, i, (last, wasTruthy, shouldReturn), d, hst, hd => by
    simp only [wfList, Bool.and_eq_true] at hw
    have ihx := ih x List.mem_cons_self hw.1 d hd
    have ihxs : ∀ y ∈ xs, Good y := fun y hy => ih y (List.mem_cons_of_mem _ hy)
    unfold runIf
    split
    · exact runIf_sat xs ihxs hw.2 _ _ d hst hd
    · split
      · split
        · exact sat_bind ihx fun e he => runIf_sat xs ihxs hw.2 _ _ d he hd
        · exact sat_err
      · split
        · split
          · exact sat_bind ihx fun e he => runIf_sat xs ihxs hw.2 _ _ d he hd
          · exact sat_err
        · exact runIf_sat xs ihxs hw.2 _ _ d wf_null hd

/-- the state of the `or`/`and` folds holds a well-formed value, if any -/
def OrWf : OrState → Prop
  | .uninit => True
  | .decided v => v.wf = true
  | .current v => v.wf = true

theorem runOrAnd_sat (isOr : Bool) : ∀ (xs : List Json), (∀ x ∈ xs, Good x) → wfList xs = true →
    ∀ (st : OrState) (d : Json), OrWf st → d.wf = true → Sat OrWf (runOrAnd isOr xs st d)
  | [], _, _, st, d, hst, _ => by simp only [runOrAnd]; exact sat_pure hst
  | x :: xs, ih, hw, st, d, hst, hd => by
    simp only [wfList, Bool.and_eq_true] at hw
    have ihx := ih x List.mem_cons_self hw.1 d hd
    have ihxs : ∀ y ∈ xs, Good y := fun y hy => ih y (List.mem_cons_of_mem _ hy)
    unfold runOrAnd
    split
    · exact runOrAnd_sat isOr xs ihxs hw.2 _ d hst hd
    · split
      · refine sat_bind ihx fun e he => runOrAnd_sat isOr xs ihxs hw.2 _ d ?_ hd
        split
        · exact he
        · exact he
      · exact sat_err

theorem orState_sat (st : OrState) : OrWf st →
    Sat WfV (match st with
      | .decided r => (Pure.pure r : M Json)
      | .current r => Pure.pure r
      | .uninit => M.err) := by
  intro hst
  cases st with
  | uninit => exact sat_err
  | decided r => exact sat_pure hst
  | current r => exact sat_pure hst

theorem runQuantLit_sat (isAll : Bool) {p : Json → M Json} (hp : ∀ x, x.wf = true → Sat WfV (p x)) :
    ∀ (xs : List Json), (∀ x ∈ xs, Good x) → wfList xs = true →
      ∀ (d : Json) (res : Bool), d.wf = true → Sat (fun _ => True) (runQuantLit isAll xs p d res)
  | [], _, _, d, res, _ => by simp only [runQuantLit]; exact sat_pure trivial
  | x :: xs, ih, hw, d, res, hd => by
    simp only [wfList, Bool.and_eq_true] at hw
    have ihx := ih x List.mem_cons_self hw.1 d hd
    have ihxs : ∀ y ∈ xs, Good y := fun y hy => ih y (List.mem_cons_of_mem _ hy)
    unfold runQuantLit
    split
    · exact runQuantLit_sat isAll hp xs ihxs hw.2 d res hd
    · split
      · exact sat_err
      · exact sat_bind ihx fun iv hiv => sat_bind (hp iv hiv) fun _ _ =>
          runQuantLit_sat isAll hp xs ihxs hw.2 d _ hd

/-! ## one lemma per kind of operation; `ih` is the statement for every strictly smaller rule -/

/-- the induction hypothesis for the elements of a literal operand array -/
theorem good_elems {v : Json} (ih : ∀ y, sizeOf y < sizeOf v → Good y) {xs : List Json} (hxs : v = .arr xs) :
    ∀ x ∈ xs, Good x := by
  intro x hx
  subst hxs
  exact ih x (Lemmas.C01.sizeOf_lt_arr hx)

theorem run_eager_sat (k : Str) (v d : Json) (ar : Arity) (h : lookupOp k = some (.eager, ar))
    (hv : v.wf = true) (hd : d.wf = true) (ihv : Good v) (ih : ∀ y, sizeOf y < sizeOf v → Good y) :
    Sat WfV (run (.obj [(k, v)]) d) := by
  unfold run
  simp only [h]
  refine sat_bind (P := WfL) ?_ fun items hi => execEager_sat k items hi
  split
  · exact runList_sat _ (good_elems ih rfl) (by rw [← wf_arr]; exact hv) d hd
  · exact sat_bind (ihv hv d hd) fun r hr =>
      sat_pure (by simp only [WfL, wfList, Bool.and_true]; exact hr)

theorem run_data_sat (k : Str) (v d : Json) (ar : Arity) (h : lookupOp k = some (.data, ar))
    (hv : v.wf = true) (hd : d.wf = true) (ihv : Good v) (ih : ∀ y, sizeOf y < sizeOf v → Good y) :
    Sat WfV (run (.obj [(k, v)]) d) := by
  unfold run
  simp only [h]
  refine sat_bind (P := WfL) ?_ fun items hi => execData_sat k d hd items hi
  split
  · exact runList_sat _ (good_elems ih rfl) (by rw [← wf_arr]; exact hv) d hd
  · exact sat_bind (ihv hv d hd) fun r hr =>
      sat_pure (by simp only [WfL, wfList, Bool.and_true]; exact hr)

theorem run_if_sat (k : Str) (hk : k = "if".toList ∨ k = "?:".toList) (v d : Json)
    (hv : v.wf = true) (hd : d.wf = true) (ihv : Good v) (ih : ∀ y, sizeOf y < sizeOf v → Good y) :
    Sat WfV (run (.obj [(k, v)]) d) := by
  have hl : lookupOp k = some (.lazy, .any) := by rcases hk with h | h <;> subst h <;> decide
  have hb : (k = "if".toList || k = "?:".toList) = true := by rcases hk with h | h <;> subst h <;> decide
  unfold run
  simp only [hl, hb, if_true]
  split
  · exact sat_pure wf_null
  · exact guard_sat (good_elems ih rfl _ (by simp)) (mem_wf hv (by simp)) d hd
  · exact runIf_sat _ (good_elems ih rfl) (by rw [← wf_arr]; exact hv) _ _ d wf_null hd
  · exact guard_sat ihv hv d hd

theorem run_or_sat (v d : Json)
    (hv : v.wf = true) (hd : d.wf = true) (ihv : Good v) (ih : ∀ y, sizeOf y < sizeOf v → Good y) :
    Sat WfV (run (.obj [("or".toList, v)]) d) := by
  have hl : lookupOp "or".toList = some (.lazy, .atLeast 1) := by decide
  unfold run
  simp (decide := true) only [hl, if_true, if_false]
  split
  · exact sat_bind (runOrAnd_sat true _ (good_elems ih rfl) (by rw [← wf_arr]; exact hv) _ d trivial hd)
      orState_sat
  · exact guard_sat ihv hv d hd

theorem run_and_sat (v d : Json)
    (hv : v.wf = true) (hd : d.wf = true) (ihv : Good v) (ih : ∀ y, sizeOf y < sizeOf v → Good y) :
    Sat WfV (run (.obj [("and".toList, v)]) d) := by
  have hl : lookupOp "and".toList = some (.lazy, .atLeast 1) := by decide
  unfold run
  simp (decide := true) only [hl, if_true, if_false]
  split
  · exact sat_bind (runOrAnd_sat false _ (good_elems ih rfl) (by rw [← wf_arr]; exact hv) _ d trivial hd)
      orState_sat
  · exact guard_sat ihv hv d hd

/-- the collection operand of `map`/`filter`/`reduce` once evaluated: an array's elements, or none for `null` -/
theorem coll_wf (cv : Json) (items : List Json)
    (h : (match cv with | .arr items => some items | .null => some [] | _ => none) = some items)
    (hcv : cv.wf = true) : wfList items = true := by
  split at h
  · cases h; rw [← wf_arr]; exact hcv
  · cases h; simp [wfList]
  · cases h

theorem run_map_sat (v d : Json)
    (hv : v.wf = true) (hd : d.wf = true) (ih : ∀ y, sizeOf y < sizeOf v → Good y) :
    Sat WfV (run (.obj [("map".toList, v)]) d) := by
  have hl : lookupOp "map".toList = some (.lazy, .exactly 2) := by decide
  unfold run
  simp (decide := true) only [hl, if_true, if_false]
  split
  · rename_i c e rest
    have ihc : Good c := good_elems ih rfl c (by simp)
    have ihe : Good e := good_elems ih rfl e (by simp)
    have hc : c.wf = true := mem_wf hv (by simp)
    have he : e.wf = true := mem_wf hv (by simp)
    refine sat_ite sat_err (sat_bind (ihc hc d hd) fun cv hcv => ?_)
    split
    · exact sat_err
    · rename_i items hitems
      refine sat_ite sat_err ?_
      exact sat_bind (mapData_sat (fun x hx => ihe he x hx) items (coll_wf cv items hitems hcv)) fun rs hrs =>
        sat_pure (by rw [WfV, wf_arr]; exact hrs)
  · exact sat_panic
  · exact sat_panic

theorem run_filter_sat (v d : Json)
    (hv : v.wf = true) (hd : d.wf = true) (ih : ∀ y, sizeOf y < sizeOf v → Good y) :
    Sat WfV (run (.obj [("filter".toList, v)]) d) := by
  have hl : lookupOp "filter".toList = some (.lazy, .exactly 2) := by decide
  unfold run
  simp (decide := true) only [hl, if_true, if_false]
  split
  · rename_i c e rest
    have ihc : Good c := good_elems ih rfl c (by simp)
    have ihe : Good e := good_elems ih rfl e (by simp)
    have hc : c.wf = true := mem_wf hv (by simp)
    have he : e.wf = true := mem_wf hv (by simp)
    refine sat_ite sat_err (sat_bind (ihc hc d hd) fun cv hcv => ?_)
    split
    · exact sat_err
    · rename_i items hitems
      refine sat_ite sat_err ?_
      exact sat_bind (filterData_sat (fun x hx => ihe he x hx) items (coll_wf cv items hitems hcv)) fun rs hrs =>
        sat_pure (by rw [WfV, wf_arr]; exact hrs)
  · exact sat_panic
  · exact sat_panic

theorem run_reduce_sat (v d : Json)
    (hv : v.wf = true) (hd : d.wf = true) (ih : ∀ y, sizeOf y < sizeOf v → Good y) :
    Sat WfV (run (.obj [("reduce".toList, v)]) d) := by
  have hl : lookupOp "reduce".toList = some (.lazy, .exactly 3) := by decide
  unfold run
  simp (decide := true) only [hl, if_true, if_false]
  split
  · rename_i c e i rest
    have ihc : Good c := good_elems ih rfl c (by simp)
    have ihe : Good e := good_elems ih rfl e (by simp)
    have ihi : Good i := good_elems ih rfl i (by simp)
    have hc : c.wf = true := mem_wf hv (by simp)
    have he : e.wf = true := mem_wf hv (by simp)
    have hi : i.wf = true := mem_wf hv (by simp)
    refine sat_ite sat_err (sat_bind (ihc hc d hd) fun cv hcv => ?_)
    refine sat_ite sat_err (sat_bind (ihi hi d hd) fun iv hiv => ?_)
    split
    · exact sat_err
    · rename_i items hitems
      refine sat_ite sat_err ?_
      exact reduceData_sat (fun x hx => ihe he x hx) items iv (coll_wf cv items hitems hcv) hiv
  · exact sat_panic
  · exact sat_panic

/-- `all` / `some` / `none`: the elements of a literal first operand are rule text two levels down -/
theorem run_quant_sat (k : Str) (hk : k = "all".toList ∨ k = "some".toList ∨ k = "none".toList)
    (v d : Json) (hv : v.wf = true) (hd : d.wf = true) (ih : ∀ y, sizeOf y < sizeOf v → Good y) :
    Sat WfV (run (.obj [(k, v)]) d) := by
  have hl : lookupOp k = some (.lazy, .exactly 2) := by rcases hk with h | h | h <;> subst h <;> decide
  have h1 : (k = "if".toList || k = "?:".toList) = false := by rcases hk with h | h | h <;> subst h <;> decide
  have h2 : (k = "or".toList) = False := by rcases hk with h | h | h <;> subst h <;> decide
  have h3 : (k = "and".toList) = False := by rcases hk with h | h | h <;> subst h <;> decide
  have h4 : (k = "map".toList) = False := by rcases hk with h | h | h <;> subst h <;> decide
  have h5 : (k = "filter".toList) = False := by rcases hk with h | h | h <;> subst h <;> decide
  have h6 : (k = "reduce".toList) = False := by rcases hk with h | h | h <;> subst h <;> decide
  have h7 : (k = "all".toList || k = "some".toList || k = "none".toList) = true := by
    rcases hk with h | h | h <;> subst h <;> decide
  unfold run
  simp only [hl, h1, h2, h3, h4, h5, h6, h7, if_true, if_false, Bool.false_eq_true]
  split
  · rename_i c p rest
    have ihc : Good c := good_elems ih rfl c (by simp)
    have ihp : Good p := good_elems ih rfl p (by simp)
    have hc : c.wf = true := mem_wf hv (by simp)
    have hp : p.wf = true := mem_wf hv (by simp)
    have ihcx : ∀ xs, c = .arr xs → ∀ x ∈ xs, Good x := by
      intro xs hxs x hx
      subst hxs
      exact ih x (Nat.lt_trans (Lemmas.C01.sizeOf_lt_arr hx) (Lemmas.C01.sizeOf_lt_arr (by simp)))
    have hpx : ∀ x, x.wf = true → Sat WfV (run p x) := fun x hx => ihp hp x hx
    have inner : ∀ isAll : Bool, Sat WfV (match (generalizing := false) c with
        | .arr xs =>
          if xs.isEmpty = true then (Pure.pure (Json.bool false) : M Json)
          else
            if (!check p) = true then M.err
            else do
              let b ← runQuantLit isAll xs (fun x => run p x) d isAll
              Pure.pure (Json.bool b)
        | other =>
          if isObj other = true then
            if (!check other) = true then M.err
            else do
              let cv ← run other d
              quantValue isAll cv (check p) fun x => run p x
          else quantValue isAll other (check p) fun x => run p x) := by
      intro isAll
      split
      · refine sat_ite (sat_pure (wf_bool _)) (sat_ite sat_err ?_)
        exact sat_bind (runQuantLit_sat isAll hpx _ (ihcx _ rfl) (by rw [← wf_arr]; exact hc) d _ hd)
          fun _ _ => sat_pure (wf_bool _)
      · refine sat_ite (sat_ite sat_err ?_) ?_
        · exact sat_bind (ihc hc d hd) fun cv hcv => quantValue_sat isAll cv hcv _ hpx
        · exact quantValue_sat isAll _ hc _ hpx
    split
    · refine sat_bind (inner _) fun rv _ => ?_
      split
      · exact sat_pure (wf_bool _)
      · exact sat_err
    · exact inner _
  · exact sat_panic
  · exact sat_panic

/-! ## the main theorem -/

theorem run_sat_lt : ∀ (n : Nat) (r : Json), sizeOf r < n → Good r := by
  intro n
  induction n with
  | zero => intro r h; omega
  | succ n ih =>
    intro r hr hw d hd
    by_cases hshape : ∃ k v, r = .obj [(k, v)]
    · obtain ⟨k, v, rfl⟩ := hshape
      have hv : sizeOf v < n := by
        simp only [Json.obj.sizeOf_spec, List.cons.sizeOf_spec, List.nil.sizeOf_spec, Prod.mk.sizeOf_spec] at hr
        omega
      have hvw : v.wf = true := by rw [← wf_single k v]; exact hw
      have ihv : Good v := ih v hv
      have ihlt : ∀ y, sizeOf y < sizeOf v → Good y := fun y hy => ih y (Nat.lt_trans hy hv)
      cases hl : lookupOp k with
      | none =>
        unfold run
        simp only [hl]
        exact sat_pure hw
      | some p =>
        obtain ⟨kind, ar⟩ := p
        cases kind with
        | eager => exact run_eager_sat k v d ar hl hvw hd ihv ihlt
        | data => exact run_data_sat k v d ar hl hvw hd ihv ihlt
        | lazy =>
          obtain ⟨e, he, hk, -⟩ := Lemmas.C01.lookupOp_lazy hl
          subst hk
          simp only [Tables.lazy, List.mem_cons, List.not_mem_nil, or_false] at he
          rcases he with rfl | rfl | rfl | rfl | rfl | rfl | rfl | rfl | rfl | rfl
          · exact run_if_sat _ (Or.inr rfl) v d hvw hd ihv ihlt
          · exact run_quant_sat _ (Or.inl rfl) v d hvw hd ihlt
          · exact run_and_sat v d hvw hd ihv ihlt
          · exact run_filter_sat v d hvw hd ihlt
          · exact run_if_sat _ (Or.inl rfl) v d hvw hd ihv ihlt
          · exact run_map_sat v d hvw hd ihlt
          · exact run_quant_sat _ (Or.inr (Or.inr rfl)) v d hvw hd ihlt
          · exact run_or_sat v d hvw hd ihv ihlt
          · exact run_reduce_sat v d hvw hd ihlt
          · exact run_quant_sat _ (Or.inr (Or.inl rfl)) v d hvw hd ihlt
    · unfold run
      split
      · exact absurd ⟨_, _, rfl⟩ hshape
      · exact sat_pure hw

/-- **Well-formed results.** On a well-formed rule and well-formed data, a value produced by `run` is
well-formed, and so is every line logged on the way (whatever the outcome). -/
theorem run_sat (r d : Json) (hr : r.wf = true) (hd : d.wf = true) : Sat WfV (run r d) :=
  run_sat_lt (sizeOf r + 1) r (Nat.lt_succ_self _) hr d hd

theorem apply_sat (r d : Json) (hr : r.wf = true) (hd : d.wf = true) : Sat WfV (apply r d) := by
  unfold apply
  exact sat_ite (run_sat r d hr hd) sat_err

end JL.Lemmas.C01Wf
