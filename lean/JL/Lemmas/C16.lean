import JL.StrArr
import JL.Spec.Substr
/-!
# Lemmas for C16 — the `usize` index arithmetic of `substr` against the character-level specification
-/
namespace JL.Lemmas.C16
open JL Json StrOp JL.Spec

/-- two counts that agree once clamped to what is left of the list take the same slice -/
theorem take_drop_congr {α} (s : List α) (st c c' : Nat) (h : min c (s.length - st) = min c' (s.length - st)) :
    (s.drop st).take c = (s.drop st).take c' := by
  rw [List.take_eq_take_iff, List.length_drop]; exact h

/-- start index of the code = start of the specification (no hypothesis at all: any integer) -/
theorem substrBounds_fst (len : Nat) (i : Int) (lim : Option Int) :
    (substrBounds len i lim).1 = substrStart len i := by
  unfold substrBounds substrStart
  simp only
  by_cases h : i < 0
  · have h' : ¬ (0 ≤ i) := by omega
    simp only [h, h', if_true, if_false]
    split <;> omega
  · have h' : 0 ≤ i := by omega
    simp only [h, h', if_true, if_false]
    omega

/-- the slice the code takes, without a length operand -/
theorem slice_none (s : Str) (i : Int) :
    (s.drop (substrBounds s.length i none).1).take (substrBounds s.length i none).2 = substrSpec s i none := by
  have h1 := substrBounds_fst s.length i none
  unfold substrSpec
  simp only
  rw [← h1]
  apply List.take_of_length_le
  rw [List.length_drop]
  generalize hst : (substrBounds s.length i none).1 = st
  have h2 : (substrBounds s.length i none).2 = if st ≤ s.length then s.length - st else 0 := by
    rw [← hst]; rfl
  rw [h2]; split <;> omega

/-- the slice the code takes, with a length operand `l < 2^63` on a string shorter than `2^63` characters
(then `start + l` cannot overflow a `usize`) -/
theorem slice_some (s : Str) (i l : Int) (hs : s.length < 2 ^ 63) (hl : l < 2 ^ 63) :
    (s.drop (substrBounds s.length i (some l)).1).take (substrBounds s.length i (some l)).2
      = substrSpec s i (some l) := by
  have h1 := substrBounds_fst s.length i (some l)
  have hst : substrStart s.length i ≤ s.length := by unfold substrStart; split <;> omega
  generalize substrStart s.length i = st at h1 hst
  have h2 : (substrBounds s.length i (some l)).2 =
      (let e := if l < 0 then (if l.natAbs ≤ s.length then s.length - l.natAbs else 0)
                else min s.length (if st + l.natAbs < 2 ^ 64 then st + l.natAbs else s.length)
       if st ≤ e then e - st else 0) := by
    rw [← h1]; rfl
  unfold substrSpec
  simp only
  rw [h1, h2]
  have h3 : substrStart s.length i = st := by rw [← h1]; exact (substrBounds_fst _ _ _).symm
  rw [h3]
  by_cases hneg : l < 0
  · have : ¬ (0 ≤ l) := by omega
    simp only [hneg, this, if_true, if_false]
    rw [List.drop_take]
    apply take_drop_congr
    split <;> split <;> omega
  · have : 0 ≤ l := by omega
    simp only [hneg, this, if_true, if_false]
    apply take_drop_congr
    split <;> split <;> omega

end JL.Lemmas.C16
