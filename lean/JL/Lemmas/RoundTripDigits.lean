import JL.Lemmas.StrNum
/-!
# Round trips, part 1 — the decimal text of a natural number (`natToStr = Nat.toDigits 10`)

All digits, value `digitsVal` = the number, length = number of decimal digits; `digitsVal` of
concatenations and of runs of zeros.
-/
namespace JL.Lemmas.RoundTrip
open JL JL.JsOp

theorem natToStr_lt (n : Nat) (h : n < 10) : natToStr n = [Nat.digitChar n] := by
  unfold natToStr; rw [Nat.toDigits_eq_if (by decide), if_pos h]

theorem natToStr_step (n : Nat) (h : 10 ≤ n) :
    natToStr n = natToStr (n / 10) ++ [Nat.digitChar (n % 10)] := by
  unfold natToStr; rw [Nat.toDigits_eq_if (b := 10) (n := n) (by decide), if_neg (by omega)]

theorem digitChar_facts : ∀ d, d < 10 → isDigit (Nat.digitChar d) = true ∧ digitVal (Nat.digitChar d) = d := by
  decide

theorem natToStr_ne_nil (n : Nat) : natToStr n ≠ [] := Nat.toDigits_ne_nil

theorem natToStr_length_pos (n : Nat) : 0 < (natToStr n).length := Nat.length_toDigits_pos

/-- every character of the decimal text of a natural number is an ASCII digit -/
theorem natToStr_digits (n : Nat) : ∀ c ∈ natToStr n, isDigit c = true := by
  induction n using Nat.strongRecOn with
  | _ n ih =>
    by_cases h : n < 10
    · rw [natToStr_lt n h]
      intro c hc
      simp only [List.mem_singleton] at hc
      subst hc
      exact (digitChar_facts n h).1
    · rw [natToStr_step n (by omega)]
      intro c hc
      rcases List.mem_append.mp hc with hc | hc
      · exact ih (n / 10) (by omega) c hc
      · simp only [List.mem_singleton] at hc
        subst hc
        exact (digitChar_facts (n % 10) (by omega)).1

theorem digitsVal_foldl (cs : Str) (a : Nat) :
    cs.foldl (fun acc c => acc * 10 + digitVal c) a = a * 10 ^ cs.length + digitsVal cs := by
  unfold digitsVal
  induction cs generalizing a with
  | nil => simp
  | cons c cs ih =>
    simp only [List.foldl_cons, List.length_cons]
    rw [ih, ih (0 * 10 + digitVal c)]
    simp [Nat.pow_succ, Nat.add_mul, Nat.mul_assoc, Nat.add_assoc, Nat.mul_comm 10]

theorem digitsVal_append (a b : Str) : digitsVal (a ++ b) = digitsVal a * 10 ^ b.length + digitsVal b := by
  show List.foldl _ 0 (a ++ b) = _
  rw [List.foldl_append, digitsVal_foldl]
  rfl

theorem digitsVal_nil : digitsVal [] = 0 := rfl

theorem digitsVal_single (c : Char) : digitsVal [c] = digitVal c := by simp [digitsVal]

theorem digitsVal_zeros (j : Nat) : digitsVal (List.replicate j '0') = 0 := by
  induction j with
  | zero => rfl
  | succ j ih =>
    rw [List.replicate_succ']
    rw [digitsVal_append, ih]
    decide

/-- the decimal text of `n` reads back as `n` -/
theorem digitsVal_natToStr (n : Nat) : digitsVal (natToStr n) = n := by
  induction n using Nat.strongRecOn with
  | _ n ih =>
    by_cases h : n < 10
    · rw [natToStr_lt n h, digitsVal_single]
      exact (digitChar_facts n h).2
    · rw [natToStr_step n (by omega), digitsVal_append, ih (n / 10) (by omega), digitsVal_single,
        (digitChar_facts (n % 10) (by omega)).2]
      simp only [List.length_singleton, Nat.pow_one]
      omega

/-- `n` has at most as many digits as its text is long -/
theorem lt_pow_length (n : Nat) : n < 10 ^ (natToStr n).length :=
  (Nat.length_toDigits_le_iff (b := 10) (n := n) (by decide) (natToStr_length_pos n)).mp (Nat.le_refl _)

/-- … and not fewer (no leading zero) -/
theorem pow_length_le (n : Nat) (hn : n ≠ 0) : 10 ^ ((natToStr n).length - 1) ≤ n := by
  by_cases h1 : (natToStr n).length - 1 = 0
  · rw [h1]; simp; omega
  · apply Nat.le_of_not_lt
    intro hlt
    have := (Nat.length_toDigits_le_iff (b := 10) (n := n) (k := (natToStr n).length - 1) (by decide) (by omega)).mpr hlt
    unfold natToStr at *
    omega

theorem digitsVal_take_drop (s : Str) (i : Nat) :
    digitsVal (s.take i ++ s.drop i) = digitsVal s := by rw [List.take_append_drop]

end JL.Lemmas.RoundTrip
