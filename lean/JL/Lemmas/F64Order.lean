import JL.F64
/-!
# Order lemmas for the double model (`F64.lt/le/eq/gt/ge`) and for the code-point string order `strLt`

Nothing here mentions the evaluator: these are facts about IEEE-754 comparison (NaN unordered,
`-0 = +0`, `≤` is `<` or `=`) and about lexicographic order on `List Char`.
-/
namespace JL.Lemmas.F64Order
open JL

/-- close a goal of linear arithmetic, possibly stated between `decide`d Booleans -/
local macro "bomega" : tactic =>
  `(tactic| first | omega | (rw [Bool.eq_iff_iff]; simp; omega) | (rw [Bool.eq_iff_iff]; simp))

/-! ## doubles -/

/-- `x <= y` is exactly `x < y || x == y` (IEEE-754 `compareQuietLessEqual`) -/
theorem le_eq_lt_or_eq (x y : F64) : F64.le x y = (F64.lt x y || F64.eq x y) := by
  cases x with
  | nan => simp [F64.le, F64.lt, F64.eq]
  | inf a =>
    cases y with
    | nan => simp [F64.le, F64.lt, F64.eq]
    | inf b => cases a <;> cases b <;> simp [F64.le, F64.lt, F64.eq]
    | fin b k => simp [F64.le, F64.lt, F64.eq]
  | fin a j =>
    cases y with
    | nan => simp [F64.le, F64.lt, F64.eq]
    | inf b => simp [F64.le, F64.lt, F64.eq]
    | fin b k =>
      cases a <;> cases b <;> simp [F64.le, F64.lt, F64.eq] <;> bomega

theorem lt_irrefl (x : F64) : F64.lt x x = false := by
  cases x with
  | nan => simp [F64.lt]
  | inf a => cases a <;> simp [F64.lt]
  | fin a k => simp [F64.lt]

theorem lt_asymm (x y : F64) (h : F64.lt x y = true) : F64.lt y x = false := by
  cases x with
  | nan => simp [F64.lt] at h
  | inf a =>
    cases y with
    | nan => simp [F64.lt] at h
    | inf b => cases a <;> cases b <;> simp_all [F64.lt]
    | fin b k => simp_all [F64.lt]
  | fin a j =>
    cases y with
    | nan => simp [F64.lt] at h
    | inf b => simp_all [F64.lt]
    | fin b k => cases a <;> cases b <;> simp_all [F64.lt] <;> omega

theorem lt_trans (x y z : F64) (h1 : F64.lt x y = true) (h2 : F64.lt y z = true) : F64.lt x z = true := by
  cases x with
  | nan => simp [F64.lt] at h1
  | inf a =>
    cases y with
    | nan => simp [F64.lt] at h1
    | inf b => cases z <;> cases a <;> cases b <;> simp_all [F64.lt]
    | fin b k => cases z <;> simp_all [F64.lt]
  | fin a j =>
    cases y with
    | nan => simp [F64.lt] at h1
    | inf b => cases z <;> simp_all [F64.lt]
    | fin b k =>
      cases z with
      | nan => simp [F64.lt] at h2
      | inf c => simp_all [F64.lt]
      | fin c l => cases a <;> cases b <;> cases c <;> simp_all [F64.lt] <;> omega

theorem eq_symm (x y : F64) : F64.eq x y = F64.eq y x := by
  cases x <;> cases y <;> simp [F64.eq] <;> grind

/-- `==` is reflexive on everything except NaN -/
theorem eq_refl_iff (x : F64) : F64.eq x x = !x.isNaN := by
  cases x <;> simp [F64.eq, F64.isNaN]

theorem eq_trans (x y z : F64) (h1 : F64.eq x y = true) (h2 : F64.eq y z = true) : F64.eq x z = true := by
  cases x <;> cases y <;> cases z <;> simp_all [F64.eq] <;> grind

/-- `<` and `==` exclude each other -/
theorem lt_not_eq (x y : F64) (h : F64.lt x y = true) : F64.eq x y = false := by
  cases x with
  | nan => simp [F64.lt] at h
  | inf a => cases y <;> simp_all [F64.lt, F64.eq]
  | fin a j =>
    cases y with
    | nan => simp [F64.lt] at h
    | inf b => simp [F64.eq]
    | fin b k => cases a <;> cases b <;> simp_all [F64.lt, F64.eq] <;> omega

/-- NaN makes every comparison false -/
theorem nan_left (y : F64) : F64.lt .nan y = false ∧ F64.le .nan y = false ∧ F64.eq .nan y = false ∧
    F64.gt .nan y = false ∧ F64.ge .nan y = false := by
  cases y <;> simp [F64.lt, F64.le, F64.eq, F64.gt, F64.ge]
theorem nan_right (x : F64) : F64.lt x .nan = false ∧ F64.le x .nan = false ∧ F64.eq x .nan = false ∧
    F64.gt x .nan = false ∧ F64.ge x .nan = false := by
  cases x <;> simp [F64.lt, F64.le, F64.eq, F64.gt, F64.ge]

/-- any true comparison has two non-NaN operands -/
theorem not_nan_of_le (x y : F64) (h : F64.le x y = true) : x.isNaN = false ∧ y.isNaN = false := by
  cases x <;> cases y <;> simp_all [F64.le, F64.isNaN]

theorem le_of_eq (x y : F64) (e : F64.eq x y = true) : F64.le x y = true := by simp [le_eq_lt_or_eq, e]
theorem le_of_lt (x y : F64) (e : F64.lt x y = true) : F64.le x y = true := by simp [le_eq_lt_or_eq, e]

theorem gt_eq_lt (x y : F64) : F64.gt x y = F64.lt y x := rfl
theorem ge_eq_le (x y : F64) : F64.ge x y = F64.le y x := rfl

/-- on non-NaN operands the order is total: `x <= y` or `y < x`, never both -/
theorem le_eq_not_lt (x y : F64) (hx : x.isNaN = false) (hy : y.isNaN = false) : F64.le x y = !F64.lt y x := by
  cases x with
  | nan => simp [F64.isNaN] at hx
  | inf a =>
    cases y with
    | nan => simp [F64.isNaN] at hy
    | inf b => cases a <;> cases b <;> simp [F64.le, F64.lt]
    | fin b k => simp [F64.le, F64.lt]
  | fin a j =>
    cases y with
    | nan => simp [F64.isNaN] at hy
    | inf b => simp [F64.le, F64.lt]
    | fin b k => cases a <;> cases b <;> simp [F64.le, F64.lt] <;> bomega

/-- with a NaN operand `<=` and `!(y < x)` differ: this is why `<=` is not coded as the negation -/
example : F64.le .nan F64.zero = false ∧ (!F64.lt F64.zero .nan) = true := by decide

theorem le_refl_iff (x : F64) : F64.le x x = !x.isNaN := by
  cases x with
  | nan => simp [F64.le, F64.isNaN]
  | inf a => cases a <;> simp [F64.le, F64.isNaN]
  | fin a k => simp [F64.le, F64.isNaN]

/-- `-0` and `+0` are equal and neither is below the other -/
theorem zeros (a b : Bool) : F64.eq (.fin a 0) (.fin b 0) = true ∧ F64.lt (.fin a 0) (.fin b 0) = false ∧
    F64.le (.fin a 0) (.fin b 0) = true := by
  cases a <;> cases b <;> simp [F64.eq, F64.lt, F64.le]

/-! ## strings: `strLt` is the strict lexicographic order by code point -/

/-- the definition with the comparison of code points stated on `Nat` -/
theorem strLt_cons (a b : Char) (as bs : Str) :
    strLt (a :: as) (b :: bs) = if a.toNat < b.toNat then true else if b.toNat < a.toNat then false else strLt as bs := by
  simp only [strLt, UInt32.lt_iff_toNat_lt, Char.toNat]

theorem char_eq_of_toNat {a b : Char} (h : a.toNat = b.toNat) : a = b :=
  Char.ext (UInt32.toNat_inj.mp h)

theorem strLt_irrefl : ∀ a : Str, strLt a a = false
  | [] => rfl
  | c :: cs => by simp [strLt_cons, strLt_irrefl cs]

theorem strLt_asymm : ∀ a b : Str, strLt a b = true → strLt b a = false
  | [], [] => by simp [strLt]
  | [], _ :: _ => by simp [strLt]
  | _ :: _, [] => by simp [strLt]
  | a :: as, b :: bs => by
      have ih := strLt_asymm as bs
      simp only [strLt_cons]
      split <;> split <;> simp_all <;> omega

theorem strLt_trans : ∀ a b c : Str, strLt a b = true → strLt b c = true → strLt a c = true
  | [], [], _ => by simp [strLt]
  | [], _ :: _, [] => by simp [strLt]
  | [], _ :: _, _ :: _ => by simp [strLt]
  | _ :: _, [], _ => by simp [strLt]
  | _ :: _, _ :: _, [] => by simp [strLt]
  | a :: as, b :: bs, c :: cs => by
      have ih := strLt_trans as bs cs
      simp only [strLt_cons]
      intro h1 h2
      by_cases hab : a.toNat < b.toNat
      · by_cases hbc : b.toNat < c.toNat
        · have : a.toNat < c.toNat := by omega
          simp [this]
        · by_cases hcb : c.toNat < b.toNat
          · simp [hbc, hcb] at h2
          · have : a.toNat < c.toNat := by omega
            simp [this]
      · by_cases hba : b.toNat < a.toNat
        · simp [hab, hba] at h1
        · simp only [hab, hba, if_false] at h1
          by_cases hbc : b.toNat < c.toNat
          · have : a.toNat < c.toNat := by omega
            simp [this]
          · by_cases hcb : c.toNat < b.toNat
            · simp [hbc, hcb] at h2
            · simp only [hbc, hcb, if_false] at h2
              have h3 : ¬ a.toNat < c.toNat := by omega
              have h4 : ¬ c.toNat < a.toNat := by omega
              simp only [h3, h4, if_false]
              exact ih h1 h2

/-- trichotomy: one of `a < b`, `a = b`, `b < a` (exclusive by `strLt_asymm`, `strLt_irrefl`) -/
theorem strLt_total : ∀ a b : Str, strLt a b = true ∨ a = b ∨ strLt b a = true
  | [], [] => by simp
  | [], _ :: _ => by simp [strLt]
  | _ :: _, [] => by simp [strLt]
  | a :: as, b :: bs => by
      have ih := strLt_total as bs
      simp only [strLt_cons]
      by_cases hab : a.toNat < b.toNat
      · simp [hab]
      · by_cases hba : b.toNat < a.toNat
        · simp [hba]
        · have : a = b := char_eq_of_toNat (by omega)
          subst this
          simpa [hab] using ih

theorem strLt_ne (a b : Str) (h : strLt a b = true) : a ≠ b := by
  intro e; subst e; simp [strLt_irrefl] at h

/-- `strLe a b` (defined as `!strLt b a`) is `a < b ∨ a = b` -/
theorem strLe_iff (a b : Str) : strLe a b = true ↔ (strLt a b = true ∨ a = b) := by
  unfold strLe
  constructor
  · intro h
    rcases strLt_total a b with h1 | h1 | h1
    · exact .inl h1
    · exact .inr h1
    · simp [h1] at h
  · rintro (h | rfl)
    · simp [strLt_asymm a b h]
    · simp [strLt_irrefl]

theorem strLe_refl (a : Str) : strLe a a = true := by simp [strLe, strLt_irrefl]

/-- `strLt` is Lean's own lexicographic `<` on `List Char` (`Char` ordered by code point) -/
theorem strLt_iff_lt : ∀ a b : Str, strLt a b = true ↔ a < b
  | [], [] => by simp [strLt]
  | [], _ :: _ => by simp [strLt]
  | _ :: _, [] => by simp [strLt]
  | a :: as, b :: bs => by
      have ih := strLt_iff_lt as bs
      have hlt : ∀ x y : Char, x < y ↔ x.toNat < y.toNat := fun x y => by
        rw [Char.lt_def, UInt32.lt_iff_toNat_lt]; rfl
      simp only [strLt_cons, List.cons_lt_cons_iff, hlt]
      by_cases hab : a.toNat < b.toNat
      · simp [hab]
      · by_cases hba : b.toNat < a.toNat
        · have hne : a ≠ b := by intro e; subst e; omega
          simp [hab, hba, hne]
        · have : a = b := char_eq_of_toNat (by omega)
          subst this
          simp [hab, ih]

end JL.Lemmas.F64Order
