import Lean
import JL.Rs
import JL.Lemmas.TieAttr
/-!
# Automation for the tie theorems of `JL/Tie` (translated Rust code = model)

The generated definitions change shape whenever a maintainer rewrites a Rust function without changing what it computes
(`.map(..).unwrap_or(..)` ↔ `match`, `if let` ↔ `match`, arms merged or reordered, a local `let` introduced, a helper
extracted, `a > b` ↔ `b < a`, `x == false` ↔ `!x`, early `return` ↔ expression, `fold` ↔ `for`, …). The tools here let a tie
proof be written without reference to that shape:

* `tie_cases f g …` case-splits on every value of the (model) functions `f g …` that occurs in the goal, wherever it occurs,
  and goes on doing so for the occurrences that the splits uncover;
* `tie_close [lemmas]` closes all goals by normalisation (`simp_all` with the prelude's unfolding set `rs`, the set `tie`
  below and the given lemmas), splitting the `match`es and `if`s that remain, in whatever order they come;
  `tie_close [lemmas] splitting f g …` interleaves `tie_cases f g …`. In the lemma list, `?c` stands for the constant `c` if it
  exists and for nothing otherwise, `↓l` makes `l` a pre-rule (see below), `-l` removes `l`;
* the simp set `tie`: facts about the prelude's combinators, the float comparisons, emptiness tests and loops in the forms that
  `simp [rs]` leaves, for operands that are not (yet) constructor terms; simprocs that keep `if`s healthy under `simp [rs]`;
* `for_opt`: a `for` loop with `?` in its body is a `List.foldlM` (companion of `TieB.fold_opt_tie` for the `fold` spelling).

Nothing in this file is specific to one translated function.

## How a tie is written so that it survives rewrites of the code
1. Split on the *inputs* the way the *model* does (`cases v`, `cases a <;> cases b`, `by_cases c = '-'`), never on the shape of the
   generated term. For a recursive generated function, `unfold Gen.f` once after that split.
2. Hand everything else to `tie_close [Gen.f, Model.f, ties of the callees, unfoldings of the model's callees] splitting <model
   functions whose values decide the outcome>`: the generated definition (and any extracted helper `Gen.aux_…`, which is in
   `rs`) is unfolded, every `Gen.g` is replaced by the model's `g` through the callee ties, and the case analysis is on
   model-side values (`JsOp.strToNumber s`, `JsOp.toPrimitiveNumber v`, …), which no rewrite of the code can change.
   Callee ties are given generously (also those the current code does not call: a rewrite may call them), sibling
   definitions that may be used in either direction (`abstract_gt` ↔ `abstract_lt`) as `?Gen.sibling`.
3. Facts that are stated on a library call itself (`Rs.eq (Rs.fract x) F64.zero = x.fractIsZero`, `Rs.to_f64 n = F64.ofNat n`) are
   given as pre-rules `↓l`: they must fire before `rs` unfolds the call's operands. Never let `rs` unfold a cast or product of
   floats on a symbolic operand (see `TieC`): `to_f64_nat`, `mul_f64`, … are pre-rules of `tie` for that reason.
4. Loops: bring the loop to the model's recursion by a lemma that is stated for an *arbitrary* body with the step equation as
   hypothesis (`for_opt`, `TieB.fold_opt_tie`, `TieC.for_radixLoop`), and close the step equation with `tie_close`.
5. No `rename_i`, no bullets that depend on the order of goals produced by `simp`/`split`, no `rw` with a generated subterm.
-/
namespace JL.Lemmas.TieAuto
open Lean Elab Tactic Meta

/-! ## `tie_cases` -/

/-- number of leading `∀`s of a constant's type -/
private def arityOf (n : Name) : MetaM Nat := do
  let rec go : Expr → Nat → Nat
    | .forallE _ _ b _, k => go b (k + 1)
    | .mdata _ b, k => go b k
    | _, k => k
  return go (← getConstInfo n).type 0

/-- a closed subterm that is a saturated application of one of the given constants -/
private def findCall (fns : Array (Name × Nat)) (e : Expr) : Option Expr :=
  e.find? fun t =>
    !t.hasLooseBVars && t.isApp &&
      (match t.getAppFn with
       | .const n _ => fns.any fun (m, k) => m == n && t.getAppNumArgs == k
       | _ => false)

/-- one round: in every goal that mentions a value of one of the functions, case-split on (the first) one. Fails when no goal does. -/
private def casesRound (fns : Array (Name × Nat)) : TacticM Unit := do
  let gs ← getUnsolvedGoals
  let mut out : Array MVarId := #[]
  let mut progressed := false
  for g in gs do
    let tgt ← instantiateMVars (← g.getType)
    match findCall fns tgt with
    | none => out := out.push g
    | some t =>
      let s ← saveState
      try
        setGoals [g]
        g.withContext do
          let stx ← Term.exprToSyntax t
          evalTactic (← `(tactic| cases $stx:term))
        out := out ++ (← getUnsolvedGoals).toArray
        progressed := true
      catch _ =>
        s.restore
        out := out.push g
  setGoals out.toList
  unless progressed do throwError "tie_cases: no value of the given functions (that can be split) occurs in the goals"

/-- `tie_cases_step f g …`: one round of `tie_cases` (fails when there is nothing to split) -/
syntax (name := tieCasesStep) "tie_cases_step" (ppSpace colGt ident)* : tactic
/-- `tie_cases f g …`: case-split on every value `f …`, `g …` occurring in the goals, until none is left -/
syntax (name := tieCases) "tie_cases" (ppSpace colGt ident)+ : tactic

private def resolveFns (ids : Array Syntax) : TacticM (Array (Name × Nat)) :=
  ids.mapM fun i => do
    let n ← realizeGlobalConstNoOverloadWithInfo i
    return (n, ← arityOf n)

@[tactic tieCasesStep] def evalTieCasesStep : Tactic := fun stx => do
  let fns ← resolveFns stx[1].getArgs
  if fns.isEmpty then throwError "tie_cases_step: nothing to split on"
  casesRound fns

@[tactic tieCases] def evalTieCases : Tactic := fun stx => do
  let fns ← resolveFns stx[1].getArgs
  -- nothing to split is not an error: the rewrite at hand may have removed the call
  let mut fuel := 64
  while fuel > 0 do
    fuel := fuel - 1
    try casesRound fns catch _ => break

/-! ## the simp set `tie`

### `Decidable` instances left behind by definitional unfolding
`simp [rs]` unfolds the library calls in the *condition* of an `if` (these are `rfl` lemmas, applied by `dsimp`), but not inside the
`Decidable` instance of that `if`, which is not visited. The term is still type correct, but `split`, `rw` and the simp lemmas
about `ite` no longer apply to it. The following simprocs put the instance that belongs to the rewritten condition back. -/

/-- `@c … p inst …` with `inst : Decidable p₀`, `p₀` definitionally but not syntactically `p`: use the instance found for `p` -/
private def fixInst (e : Expr) (propIdx instIdx : Nat) : Simp.SimpM Simp.Step := do
  let args := e.getAppArgs
  if args.size ≤ max propIdx instIdx then return .continue
  let c := args[propIdx]!
  let inst := args[instIdx]!
  let want := mkApp (mkConst ``Decidable) c
  let instType ← instantiateMVars (← inferType inst)
  if instType == want then return .continue
  let some inst' ← synthInstance? want | return .continue
  if inst' == inst then return .continue
  let e' := mkAppN e.getAppFn (args.set! instIdx inst')
  let eType ← inferType e
  let u ← getLevel eType
  let motive ← withLocalDeclD `i want fun i => mkLambdaFVars #[i] (mkAppN e.getAppFn (args.set! instIdx i))
  let sub ← synthInstance (mkApp (mkConst ``Subsingleton [Level.one]) want)
  let h := mkApp4 (mkConst ``Subsingleton.elim [Level.one]) want sub inst inst'
  let pr := mkApp6 (mkConst ``congrArg [Level.one, u]) want eType inst inst' motive h
  return .visit { expr := e', proof? := some pr }

simproc [tie] iteInst (@ite _ _ _ _ _) := fun e => fixInst e 1 2
simproc [tie] decideInst (@Decidable.decide _ _) := fun e => fixInst e 0 1

/-! ### string constants under an `if`
`simp` evaluates `"abc".toList` to `['a', 'b', 'c']` where it meets it - in the condition of an `if`, but not in the `Decidable`
instance of that `if`. It then compares the two instance types up to definitional equality, which makes the elaborator evaluate
`String.toList` on the literal (through the byte array: tens of thousands of unfoldings, a timeout). The following simprocs run
*before* `simp` descends into an `if`/`decide` and evaluate the string constants in the whole term, instance included; the
kernel checks the step by evaluation, which is immediate there. -/

private def evalStrLits (e : Expr) : Expr :=
  e.replace fun t =>
    match t with
    | .app (.const ``String.toList _) (.lit (.strVal s)) => some (toExpr s.toList)
    | _ => none

private def litsPre (e : Expr) : Simp.SimpM Simp.Step := do
  let e' := evalStrLits e
  if e' == e then return .continue
  return .visit { expr := e' }

simproc ↓ [tie] iteLits (@ite _ _ _ _ _) := litsPre
simproc ↓ [tie] diteLits (@dite _ _ _ _ _) := litsPre
simproc ↓ [tie] decideLits (@Decidable.decide _ _) := litsPre

/-! ### float comparisons: `>` and `>=` are `<` and `<=` with the operands exchanged (on both sides of a tie) -/
attribute [tie] F64.gt F64.ge

/-! ### emptiness tests: `v == ""`, `v.len() == 0`, `v.is_empty()` -/
@[tie] theorem decide_eq_nil {α : Type} (l : List α) (inst : Decidable (l = [])) : @decide (l = []) inst = l.isEmpty := by
  cases l <;> simp
@[tie] theorem decide_nil_eq {α : Type} (l : List α) (inst : Decidable ([] = l)) : @decide ([] = l) inst = l.isEmpty := by
  cases l <;> simp
@[tie] theorem decide_length_eq_zero {α : Type} (l : List α) (inst : Decidable (l.length = 0)) :
    @decide (l.length = 0) inst = l.isEmpty := by
  cases l <;> simp
@[tie] theorem length_beq_zero {α : Type} (l : List α) : (l.length == 0) = l.isEmpty := by
  cases l <;> simp
@[tie] theorem beq_nil {α : Type} [BEq α] (l : List α) : (l == []) = l.isEmpty := by
  cases l <;> rfl
@[tie] theorem nil_beq {α : Type} [BEq α] (l : List α) : (([] : List α) == l) = l.isEmpty := by
  cases l <;> rfl
@[tie] theorem decide_length_pos {α : Type} (l : List α) (inst : Decidable (0 < l.length)) :
    @decide (0 < l.length) inst = !l.isEmpty := by
  cases l <;> simp
@[tie] theorem decide_length_ne_zero {α : Type} (l : List α) (inst : Decidable (l.length ≠ 0)) :
    @decide (l.length ≠ 0) inst = !l.isEmpty := by
  cases l <;> simp
@[tie] theorem decide_ne_nil {α : Type} (l : List α) (inst : Decidable (l ≠ [])) : @decide (l ≠ []) inst = !l.isEmpty := by
  cases l <;> simp
theorem utf8Len_pos (c : Char) : 0 < Rs.utf8Len c := by
  unfold Rs.utf8Len; split <;> (try split) <;> (try split) <;> omega
/-- `str::len() == 0` (bytes) -/
@[tie] theorem byteLen_beq_zero (s : Str) : ((s.map Rs.utf8Len).sum == 0) = s.isEmpty := by
  cases s with
  | nil => rfl
  | cons c s => have := utf8Len_pos c; simp; omega
@[tie] theorem decide_byteLen_eq_zero (s : Str) (inst : Decidable ((s.map Rs.utf8Len).sum = 0)) :
    @decide ((s.map Rs.utf8Len).sum = 0) inst = s.isEmpty := by
  cases s with
  | nil => simp
  | cons c s => have := utf8Len_pos c; simp; omega

@[tie] theorem decide_byteLen_pos (s : Str) (inst : Decidable (0 < (s.map Rs.utf8Len).sum)) :
    @decide (0 < (s.map Rs.utf8Len).sum) inst = !s.isEmpty := by
  cases s with
  | nil => simp
  | cons c s => have := utf8Len_pos c; simp; omega

/-! ### `!=` -/
@[tie] theorem not_beq_eq_bne {α : Type} [BEq α] (a b : α) : (!(a == b)) = (a != b) := rfl

/-! ### loops: a `for` loop without `break`/`return` is a left fold; pushing `f x` for every item is `map f` -/
@[tie] theorem for_next {α σ ρ : Type} (xs : List α) (s : σ) (g : σ → α → σ) :
    Rs.for_ xs s (fun s x => (Rs.Flow.next (g s x) : Rs.Flow σ ρ)) = Rs.LoopOut.done (xs.foldl g s) := by
  induction xs generalizing s with
  | nil => rfl
  | cons x xs ih => simp [Rs.for_, ih]
@[tie] theorem foldl_push {α β : Type} (xs : List α) (init : List β) (f : α → β) :
    xs.foldl (fun acc x => acc ++ [f x]) init = init ++ xs.map f := by
  induction xs generalizing init with
  | nil => simp
  | cons x xs ih => simp [ih]
@[tie] theorem foldl_extend {α β : Type} (xs : List α) (init : List β) (f : α → List β) :
    xs.foldl (fun acc x => acc ++ f x) init = init ++ (xs.map f).flatten := by
  induction xs generalizing init with
  | nil => simp
  | cons x xs ih => simp [ih]
/-- a `for` loop that leaves the function with `None`/`Err` as soon as a step fails (`let x = step?;`) is a monadic left fold;
the body is arbitrary, provided it performs one step `m` (hypothesis `hf`, to be closed by `tie_close`) -/
theorem for_opt {α σ τ : Type} (m : σ → α → Option σ) (f : σ → α → Rs.Flow σ (Option τ))
    (hf : ∀ s x, f s x = match m s x with | some s' => Rs.Flow.next s' | none => Rs.Flow.ret none) :
    ∀ (xs : List α) (s : σ),
      Rs.for_ xs s f = match xs.foldlM m s with | some s' => Rs.LoopOut.done s' | none => Rs.LoopOut.ret none
  | [], s => by simp [Rs.for_]
  | x :: xs, s => by
      have ih := for_opt m f hf xs
      simp only [Rs.for_, hf, List.foldlM_cons]
      cases m s x with
      | none => simp
      | some s' => simp [ih]
/-- `Iterator::map` on a vector (rendered with the `Functor` instance of lists) -/
@[tie] theorem list_fmap {α β : Type} (f : α → β) (xs : List α) : f <$> xs = List.map f xs := rfl

/-! ### `Option` combinators on an operand that is not (yet) a constructor term -/
@[tie] theorem getD_fmap {α β : Type} (o : Option α) (f : α → β) (d : β) :
    (f <$> o).getD d = match o with | some x => f x | none => d := by cases o <;> rfl
@[tie] theorem getD_map {α β : Type} (o : Option α) (f : α → β) (d : β) :
    (o.map f).getD d = match o with | some x => f x | none => d := by cases o <;> rfl

/-! ## `tie_close` -/

/-- the loop of `tie_close` -/
syntax "tie_close_core" " [" (Lean.Parser.Tactic.simpErase <|> Lean.Parser.Tactic.simpLemma),* "]" (" splitting" (ppSpace colGt ident)+)? : tactic
macro_rules
  | `(tactic| tie_close_core [$ls,*]) =>
      `(tactic| all_goals (repeat' (first
          | with_reducible rfl
          | simp_all [rs, tie, $ls,*]
          | split
          | with_reducible_and_instances rfl)))
  | `(tactic| tie_close_core [$ls,*] splitting $fs*) =>
      `(tactic| all_goals (repeat' (first
          | with_reducible rfl
          | simp_all [rs, tie, $ls,*]
          | tie_cases_step $fs*
          | split
          | with_reducible_and_instances rfl)))

/-- `?c` in the lemma list of `tie_close`: the constant `c` if there is one of that name, nothing otherwise. For the generated
definitions of *other* functions that the function at hand may or may not be written in terms of (`?Gen.abstract_lt` in the
tie of `abstract_gt`): a function that the translator does not render at the moment has no `Gen.` definition, and that must
not break the ties of its siblings. -/
syntax tieOptLemma := "?" ident

/-- the closing tactic of the tie theorems; see the header -/
syntax (name := tieClose) "tie_close"
  (" [" (tieOptLemma <|> Lean.Parser.Tactic.simpErase <|> Lean.Parser.Tactic.simpLemma),* "]")?
  (" splitting" (ppSpace colGt ident)+)? : tactic

@[tactic tieClose] def evalTieClose : Tactic := fun stx => do
  -- stx[1]: optional `[ … ]`, stx[2]: optional `splitting …`
  let mut keep : Array Syntax := #[]
  if stx[1].getNumArgs > 0 then
    for a in stx[1][1].getSepArgs do
      if a.getKind == ``tieOptLemma then
        let id := a[1]
        let cands ← try resolveGlobalName id.getId catch _ => pure []
        if cands.any fun (_, fields) => fields.isEmpty then
          keep := keep.push (← `(Lean.Parser.Tactic.simpLemma| $(⟨id⟩):ident))
      else
        keep := keep.push a
  let ls : Syntax.TSepArray [``Lean.Parser.Tactic.simpErase, ``Lean.Parser.Tactic.simpLemma] "," :=
    ⟨(Syntax.mkSep keep (mkAtom ",")).getArgs⟩
  if stx[2].getNumArgs > 0 then
    let fs : TSyntaxArray `ident := stx[2][1].getArgs.map (⟨·⟩)
    evalTactic (← `(tactic| tie_close_core [$ls,*] splitting $fs*))
  else
    evalTactic (← `(tactic| tie_close_core [$ls,*]))

end JL.Lemmas.TieAuto
