import JL.Rs
import JL.Lemmas.Monad
import JL.Lemmas.TieD
/-!
# Helper lemmas for the tie theorems about folds whose closure re-binds captured variables (`Rs.foldMS`)

* `foldMS_tryS`: a step that starts with `let a = acc?;` makes the fold a recursion over the *value* of the accumulator
  (`foldS`), entered through `?` on the initial accumulator - for any (logging, failing, panicking) step;
* `foldMS_model`: when every step from a good accumulator either yields a good value and a new state, or fails, and a failed
  accumulator is handed on, the fold followed by "`?` on the outcome, then return a function of value and state" is any model
  recursion that takes the same decisions (`missingFold`, `missingSomeFold`).
-/
namespace JL.Lemmas.TieG
open JL JL.Lemmas.TieD

@[simp] theorem foldMS_nil {α β σ} (acc : M β) (s : σ) (f : M β → σ → α → M β × σ) :
    Rs.foldMS [] acc s f = (acc, s) := rfl
theorem foldMS_cons {α β σ} (x : α) (xs : List α) (acc : M β) (s : σ) (f : M β → σ → α → M β × σ) :
    Rs.foldMS (x :: xs) acc s f =
      (⟨acc.logs ++ (Rs.foldMS xs (f (Rs.settled acc) s x).1 (f (Rs.settled acc) s x).2 f).1.logs,
        (Rs.foldMS xs (f (Rs.settled acc) s x).1 (f (Rs.settled acc) s x).2 f).1.out⟩,
       (Rs.foldMS xs (f (Rs.settled acc) s x).1 (f (Rs.settled acc) s x).2 f).2) := rfl

/-- `?` on an `M` value inside a closure with threaded state, by cases -/
theorem tryS_ok {α β σ} (l : List Json) (a : α) (s : σ) (k : α → M β × σ) :
    Rs.tryS (⟨l, .ok a⟩ : M α) s k = (⟨l ++ (k a).1.logs, (k a).1.out⟩, (k a).2) := rfl
theorem tryS_err {α β σ} (l : List Json) (s : σ) (k : α → M β × σ) :
    Rs.tryS (⟨l, .err⟩ : M α) s k = (⟨l, .err⟩, s) := rfl
theorem tryS_panic {α β σ} (l : List Json) (s : σ) (k : α → M β × σ) :
    Rs.tryS (⟨l, .panic⟩ : M α) s k = (⟨l, .panic⟩, s) := rfl
theorem tryS_pure {α β σ} (a : α) (s : σ) (k : α → M β × σ) :
    Rs.tryS (pure a : M α) s k = k a := rfl
theorem tryS_some {α β σ} (a : α) (s : σ) (k : α → M β × σ) : Rs.tryS (some a) s k = k a := rfl
theorem tryS_none {α β σ} (s : σ) (k : α → M β × σ) : Rs.tryS (none : Option α) s k = (M.err, s) := rfl

/-- `?` on a `Result` in logging code is `>>=`; `Option::ok_or` on the two constructors -/
theorem try_M {α β} (x : M α) (k : α → M β) : Rs.try_ x k = x >>= k := rfl
theorem ok_or_some {α} (a : α) : Rs.ok_or (some a) = pure a := rfl
theorem ok_or_none {α} : Rs.ok_or (none : Option α) = M.err := rfl

/-- `KeyType::try_from(&Value)` is the model's `Data.keyOf` -/
theorem try_into_key (x : Json) : Rs.try_into x = Data.keyOf x := rfl

/-- the fold over accumulator *values*: a failing step ends it and keeps the state the step left -/
def foldS {α β σ : Type} (g : β → σ → α → M β × σ) : List α → β → σ → M β × σ
  | [], b, s => (pure b, s)
  | x :: xs, b, s => Rs.tryS (g b s x).1 (g b s x).2 (fun b' => foldS g xs b' (g b s x).2)

@[simp] theorem foldS_nil {α β σ} (g : β → σ → α → M β × σ) (b : β) (s : σ) : foldS g [] b s = (pure b, s) := rfl
theorem foldS_cons {α β σ} (g : β → σ → α → M β × σ) (x : α) (xs : List α) (b : β) (s : σ) :
    foldS g (x :: xs) b s = Rs.tryS (g b s x).1 (g b s x).2 (fun b' => foldS g xs b' (g b s x).2) := rfl

/-- a `fold` whose closure starts with `let a = acc?;` and re-binds captured variables: from any accumulator -/
theorem foldMS_tryS {α β σ : Type} (f : M β → σ → α → M β × σ) (g : β → σ → α → M β × σ)
    (hf : ∀ (acc : M β) (s : σ) (x : α), f acc s x = Rs.tryS acc s (fun a => g a s x)) :
    ∀ (xs : List α) (acc : M β) (s : σ), Rs.foldMS xs acc s f = Rs.tryS acc s (fun a => foldS g xs a s)
  | [], acc, s => by
      cases acc with | mk l o =>
      cases o <;> simp [tryS_ok, tryS_err, tryS_panic]
  | x :: xs, acc, s => by
      rw [foldMS_cons, foldMS_tryS f g hf xs, hf]
      cases acc with | mk l o =>
      cases o with
      | ok a =>
          simp only [settled_mk, tryS_ok, foldS_cons, List.nil_append]
      | err => simp [tryS_err]
      | panic => simp [tryS_panic]

/-- a failed accumulator that every step hands on stays as it is -/
theorem foldMS_err {α β σ : Type} (f : M β → σ → α → M β × σ)
    (herr : ∀ (s : σ) (x : α), f ⟨[], .err⟩ s x = (⟨[], .err⟩, s)) :
    ∀ (xs : List α) (l : List Json) (s : σ), Rs.foldMS xs ⟨l, .err⟩ s f = (⟨l, .err⟩, s)
  | [], _, _ => rfl
  | x :: xs, l, s => by
      rw [foldMS_cons, settled_mk, herr, foldMS_err f herr xs]
      simp

/-- A fold whose steps do not log: from a good accumulator each step either gives a good accumulator and a state, and the model
recursion `Fm` goes on with them, or fails, and so does `Fm`; a failed accumulator is handed on. Then `?` on the fold's outcome
followed by any continuation `k value state` is `Fm`, when `Fm` ends with `k`. -/
theorem foldMS_model {α β σ δ : Type} (f : M β → σ → α → M β × σ) (Fm : List α → β → σ → M δ) (k : β → σ → M δ)
    (hnil : ∀ b s, Fm [] b s = k b s)
    (herr : ∀ (s : σ) (x : α), f ⟨[], .err⟩ s x = (⟨[], .err⟩, s))
    (hstep : ∀ (x : α) (xs : List α) (b : β) (s : σ),
      (∃ b' s', f ⟨[], .ok b⟩ s x = (⟨[], .ok b'⟩, s') ∧ Fm (x :: xs) b s = Fm xs b' s') ∨
      (∃ s', f ⟨[], .ok b⟩ s x = (⟨[], .err⟩, s') ∧ Fm (x :: xs) b s = ⟨[], .err⟩)) :
    ∀ (xs : List α) (b : β) (s : σ),
      ((Rs.foldMS xs ⟨[], .ok b⟩ s f).1 >>= fun b' => k b' (Rs.foldMS xs ⟨[], .ok b⟩ s f).2) = Fm xs b s
  | [], b, s => by simp [hnil]
  | x :: xs, b, s => by
      rw [foldMS_cons, settled_mk]
      rcases hstep x xs b s with ⟨b', s', h1, h2⟩ | ⟨s', h1, h2⟩
      · rw [h1, h2, ← foldMS_model f Fm k hnil herr hstep xs b' s']
        simp
      · rw [h1, h2, foldMS_err f herr xs]
        simp

/-- what one step from a good accumulator does, as a proposition by cases on its (computed) result: a good value and a state,
a plain error, or anything else (which a tie to a model recursion excludes) -/
def StepCases {β σ : Type} (p : M β × σ) (good : β → σ → Prop) (bad : Prop) : Prop :=
  match p with
  | (⟨[], .ok b'⟩, s') => good b' s'
  | (⟨[], .err⟩, _) => bad
  | _ => False

@[simp] theorem stepCases_ok {β σ} (b' : β) (s' : σ) (good : β → σ → Prop) (bad : Prop) :
    StepCases (⟨[], .ok b'⟩, s') good bad = good b' s' := rfl
@[simp] theorem stepCases_err {β σ} (s' : σ) (good : β → σ → Prop) (bad : Prop) :
    StepCases ((⟨[], .err⟩ : M β), s') good bad = bad := rfl
@[simp] theorem stepCases_pure {β σ} (b' : β) (s' : σ) (good : β → σ → Prop) (bad : Prop) :
    StepCases ((pure b' : M β), s') good bad = good b' s' := rfl
@[simp] theorem stepCases_merr {β σ} (s' : σ) (good : β → σ → Prop) (bad : Prop) :
    StepCases ((M.err : M β), s') good bad = bad := rfl

theorem stepCases_elim {β σ} {p : M β × σ} {good : β → σ → Prop} {bad : Prop} (h : StepCases p good bad) :
    (∃ b' s', p = (⟨[], .ok b'⟩, s') ∧ good b' s') ∨ (∃ s', p = (⟨[], .err⟩, s') ∧ bad) := by
  rcases p with ⟨⟨l, o⟩, s'⟩
  cases l with
  | nil =>
      cases o with
      | ok b' => exact Or.inl ⟨b', s', rfl, h⟩
      | err => exact Or.inr ⟨s', rfl, h⟩
      | panic => exact h.elim
  | cons _ _ => exact h.elim

/-- `foldMS_model` with the step hypothesis in the form that `simp` decides once the step has been computed:
`StepCases (f (pure b) s x) (fun b' s' => Fm (x :: xs) b s = Fm xs b' s') (Fm (x :: xs) b s = M.err)` -/
theorem foldMS_model_cases {α β σ δ : Type} (f : M β → σ → α → M β × σ) (Fm : List α → β → σ → M δ) (k : β → σ → M δ)
    (hnil : ∀ b s, Fm [] b s = k b s)
    (herr : ∀ (s : σ) (x : α), f ⟨[], .err⟩ s x = (⟨[], .err⟩, s))
    (hstep : ∀ (x : α) (xs : List α) (b : β) (s : σ),
      StepCases (f ⟨[], .ok b⟩ s x) (fun b' s' => Fm (x :: xs) b s = Fm xs b' s') (Fm (x :: xs) b s = ⟨[], .err⟩))
    (xs : List α) (b : β) (s : σ) :
      ((Rs.foldMS xs ⟨[], .ok b⟩ s f).1 >>= fun b' => k b' (Rs.foldMS xs ⟨[], .ok b⟩ s f).2) = Fm xs b s :=
  foldMS_model f Fm k hnil herr (fun x xs b s => stepCases_elim (hstep x xs b s)) xs b s

/-- The same when the model recursion returns the pair (value, state): the fold's result is a good value and the state, both the
model's, or a plain error (with some state), and then the model fails too. Use after `generalize hp : Rs.foldMS _ _ _ _ = p`. -/
theorem foldMS_pair_cases {α β σ : Type} {f : M β → σ → α → M β × σ} {Fm : List α → β → σ → M (β × σ)}
    (hnil : ∀ b s, Fm [] b s = pure (b, s))
    (herr : ∀ (s : σ) (x : α), f ⟨[], .err⟩ s x = (⟨[], .err⟩, s))
    (hstep : ∀ (x : α) (xs : List α) (b : β) (s : σ),
      StepCases (f ⟨[], .ok b⟩ s x) (fun b' s' => Fm (x :: xs) b s = Fm xs b' s') (Fm (x :: xs) b s = ⟨[], .err⟩)) :
    ∀ {xs : List α} {b : β} {s : σ} {p : M β × σ} (_ : Rs.foldMS xs ⟨[], .ok b⟩ s f = p),
      (∃ b' s', p = (⟨[], .ok b'⟩, s') ∧ Fm xs b s = ⟨[], .ok (b', s')⟩) ∨ (∃ s', p = (⟨[], .err⟩, s') ∧ Fm xs b s = ⟨[], .err⟩)
  | [], b, s, p, hp => Or.inl ⟨b, s, hp.symm, hnil b s⟩
  | x :: xs, b, s, p, hp => by
      rw [foldMS_cons, settled_mk] at hp
      rcases stepCases_elim (hstep x xs b s) with ⟨b', s', h1, h2⟩ | ⟨s', h1, h2⟩
      · rw [h1] at hp
        rcases foldMS_pair_cases hnil herr hstep (xs := xs) (b := b') (s := s') rfl with ⟨b2, s2, h3, h4⟩ | ⟨s2, h3, h4⟩
        · rw [h3] at hp
          exact Or.inl ⟨b2, s2, hp.symm, h2.trans h4⟩
        · rw [h3] at hp
          exact Or.inr ⟨s2, hp.symm, h2.trans h4⟩
      · rw [h1, foldMS_err f herr xs] at hp
        exact Or.inr ⟨s', hp.symm, h2⟩

end JL.Lemmas.TieG
