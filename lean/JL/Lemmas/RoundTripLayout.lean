import JL.Lemmas.RoundTripShortest
import JL.Lemmas.RoundTripParse
set_option linter.unusedSimpArgs false
/-!
# Round trips, part 5 — the layout of `format` (trailing zeros stripped, fixed or exponent notation) is a decimal
literal denoting the same value, so `str_to_number` / `parse_float` read the printed text back as the same double
-/
namespace JL.Lemmas.RoundTrip
open JL JL.F64 JL.JsOp JL.Lemmas.StrNum

/-- the trailing-zero loop of `format`, verbatim -/
def stripLoop (c0 : Nat) (p0 : Int) : Nat × Int := Id.run do
  let mut c := c0; let mut p := p0
  for _ in [0:20] do
    if c % 10 == 0 && c != 0 then c := c / 10; p := p + 1
  return (c, p)

/-- the layout stage of `format`, verbatim -/
def layout (n : Bool) (c : Nat) (p : Int) : Str :=
      let sgn : Str := if n then ['-'] else []
      let ds := natToStr c
      let len := ds.length
      let decExp : Int := p + (len : Int) - 1
      if -5 ≤ decExp && decExp ≤ 15 then
        if (len : Int) - 1 ≤ decExp then
          sgn ++ ds ++ List.replicate (decExp.toNat + 1 - len) '0' ++ ['.', '0']
        else if 0 ≤ decExp then
          sgn ++ ds.take (decExp.toNat + 1) ++ ['.'] ++ ds.drop (decExp.toNat + 1)
        else
          sgn ++ ['0', '.'] ++ List.replicate ((-decExp).toNat - 1) '0' ++ ds
      else
        let mant : Str := if len == 1 then ds else ds.take 1 ++ ['.'] ++ ds.drop 1
        let es : Str := if decExp ≥ 0 then ['e', '+'] ++ natToStr decExp.toNat else ['e', '-'] ++ natToStr (-decExp).toNat
        sgn ++ mant ++ es

/-- `format` of a finite double is `shortest`, then `stripLoop`, then `layout` (definitional) -/
theorem format_fin (n : Bool) (k : Nat) :
    format (fin n k) =
      if k == 0 then (if n then ['-'] else []) ++ ['0', '.', '0']
      else layout n (stripLoop (shortest k).1 (shortest k).2).1 (stripLoop (shortest k).1 (shortest k).2).2 := rfl

/-! ## equal decimals are in the same intervals -/

/-- membership of `d·10^e` in the interval of `k`, after scaling by any `10^N` that clears the denominator -/
theorem decIn_iff (k d : Nat) (e : Int) (N : Nat) (hN : 0 ≤ e + N) :
    DecIn k d e ↔ InIv k (d * 10 ^ (e + N).toNat * S) (10 ^ N) := by
  unfold DecIn InIv decNum decDen
  generalize S = s
  by_cases he : e ≥ 0
  · simp only [he, if_true, Nat.mul_one]
    have hx : (e + N).toNat = e.toNat + N := by omega
    have hp : 0 < 10 ^ N := Nat.pow_pos (by decide)
    have e1 : 2 * (d * 10 ^ (e + (N : Int)).toNat * s) = 2 * (d * 10 ^ e.toNat * s) * 10 ^ N := by
      rw [hx, Nat.pow_add]; ac_rfl
    rw [e1, ← Nat.mul_assoc]
    simp only [Nat.mul_le_mul_right_iff hp, Nat.mul_lt_mul_right hp]
  · simp only [he, if_false]
    obtain ⟨j, hj⟩ : ∃ j : Nat, (N : Int) = (-e).toNat + j := ⟨(e + N).toNat, by omega⟩
    have hx : (e + N).toNat = j := by omega
    have hN' : N = (-e).toNat + j := by omega
    have hp : 0 < 10 ^ j := Nat.pow_pos (by decide)
    have e1 : 2 * (d * 10 ^ (e + (N : Int)).toNat * s) = 2 * (d * s) * 10 ^ j := by
      rw [hx]; ac_rfl
    rw [e1, hN', Nat.pow_add]
    simp only [← Nat.mul_assoc]
    simp only [Nat.mul_le_mul_right_iff hp, Nat.mul_lt_mul_right hp]

/-- two spellings of the same decimal value -/
theorem decIn_congr (k d d' : Nat) (e e' : Int) (N : Nat) (hN : 0 ≤ e + N) (hN' : 0 ≤ e' + N)
    (hv : d * 10 ^ (e + N).toNat = d' * 10 ^ (e' + N).toNat) : DecIn k d e ↔ DecIn k d' e' := by
  rw [decIn_iff k d e N hN, decIn_iff k d' e' N hN', hv]

/-- dropping one trailing zero -/
theorem decIn_strip (k c : Nat) (p : Int) (h10 : c % 10 = 0) (h : DecIn k c p) : DecIn k (c / 10) (p + 1) := by
  refine (decIn_congr k c (c / 10) p (p + 1) (-p).toNat (by omega) (by omega) ?_).mp h
  have hx : (p + 1 + ((-p).toNat : Int)).toNat = (p + ((-p).toNat : Int)).toNat + 1 := by omega
  rw [hx, Nat.pow_succ]
  have : c = c / 10 * 10 := by omega
  calc c * 10 ^ (p + ((-p).toNat : Int)).toNat
      = c / 10 * 10 * 10 ^ (p + ((-p).toNat : Int)).toNat := by rw [← this]
    _ = _ := by ac_rfl

/-- appending zeros -/
theorem decIn_pad (k c : Nat) (p : Int) (hp : 0 ≤ p) (h : DecIn k c p) : DecIn k (c * 10 ^ (p.toNat + 1)) (-1) := by
  have hv : c * 10 ^ (p + ((1 : Nat) : Int)).toNat = c * 10 ^ (p.toNat + 1) * 10 ^ (-1 + ((1 : Nat) : Int)).toNat := by
    have hx : (p + ((1 : Nat) : Int)).toNat = p.toNat + 1 := by omega
    have hy : (-1 + ((1 : Nat) : Int)).toNat = 0 := by omega
    rw [hx, hy, Nat.pow_zero, Nat.mul_one]
  exact (decIn_congr k c (c * 10 ^ (p.toNat + 1)) p (-1) 1 (by omega) (by omega) hv).mp h

/-- induction principle for the trailing-zero loop -/
theorem stripLoop_ind (Q : Nat → Int → Prop)
    (hstep : ∀ c p, c % 10 = 0 → c ≠ 0 → Q c p → Q (c / 10) (p + 1)) (c0 : Nat) (p0 : Int) (h : Q c0 p0) :
    Q (stripLoop c0 p0).1 (stripLoop c0 p0).2 := by
  unfold stripLoop
  rw [Id.run_bind, Std.Legacy.Range.forIn_eq_forIn_range']
  refine forIn_list_inv _ _ (fun st => Q st.1 st.2) (c0, p0) h ?_
  intro a _ b hb
  extract_lets c p
  split
  · rename_i hcond
    simp only [Bool.and_eq_true, beq_iff_eq, bne_iff_ne] at hcond
    simp only [Id.run_pure, ForInStep.value]
    exact hstep c p hcond.1 hcond.2 hb
  · simpa [Id.run_pure, ForInStep.value] using hb

theorem stripLoop_inv (k c0 : Nat) (p0 : Int) (h : DecIn k c0 p0) (h0 : c0 ≠ 0) :
    DecIn k (stripLoop c0 p0).1 (stripLoop c0 p0).2 ∧ (stripLoop c0 p0).1 ≠ 0 := by
  refine stripLoop_ind (fun c p => DecIn k c p ∧ c ≠ 0) ?_ c0 p0 ⟨h, h0⟩
  intro c p h10 hc0 hq
  exact ⟨decIn_strip k c p h10 hq.1, by omega⟩

/-! ## the four layouts -/

/-- what a reader needs to know about a printed number -/
structure LitOf (n : Bool) (c : Nat) (p : Int) (t : Str) : Prop where
  ex : ∃ I F dot X ev, t = litText n I F dot X ∧ (∀ x ∈ I, isDigit x = true) ∧ (∀ x ∈ F, isDigit x = true) ∧
    I ≠ [] ∧ (dot = false → F = []) ∧ ExpLit X ev ∧ digitsVal (I ++ F) ≠ 0 ∧
    ∀ k, DecIn k c p → DecIn k (digitsVal (I ++ F)) (ev - (F.length : Int))

theorem zeros_digits (j : Nat) : ∀ x ∈ List.replicate j '0', isDigit x = true := by
  intro x hx
  rw [List.mem_replicate] at hx
  rw [hx.2]; decide

theorem digitsVal_zeros_append (j : Nat) (s : Str) : digitsVal (List.replicate j '0' ++ s) = digitsVal s := by
  rw [digitsVal_append, digitsVal_zeros]; simp

theorem layout_fixed_int (n : Bool) (c : Nat) (p : Int) (hc : c ≠ 0) (hp : 0 ≤ p) :
    LitOf n c p ((if n then ['-'] else []) ++ natToStr c ++ List.replicate p.toNat '0' ++ ['.', '0']) := by
  refine ⟨natToStr c ++ List.replicate p.toNat '0', ['0'], true, [], 0, ?_, ?_, ?_, ?_, ?_, Or.inl ⟨rfl, rfl⟩, ?_, ?_⟩
  · simp [litText]
  · intro x hx
    rcases List.mem_append.mp hx with hx | hx
    · exact natToStr_digits c x hx
    · exact zeros_digits _ x hx
  · intro x hx; simp at hx; subst hx; decide
  · have := natToStr_ne_nil c; simp [this]
  · intro h; cases h
  · have hv : digitsVal ((natToStr c ++ List.replicate p.toNat '0') ++ ['0']) = c * 10 ^ (p.toNat + 1) := by
      rw [digitsVal_append, digitsVal_append, digitsVal_natToStr, digitsVal_zeros, digitsVal_single]
      simp [digitVal, Nat.pow_succ, Nat.mul_assoc]
    rw [hv]
    exact Nat.mul_ne_zero hc (Nat.ne_of_gt (Nat.pow_pos (by decide)))
  · intro k hk
    have hv : digitsVal ((natToStr c ++ List.replicate p.toNat '0') ++ ['0']) = c * 10 ^ (p.toNat + 1) := by
      rw [digitsVal_append, digitsVal_append, digitsVal_natToStr, digitsVal_zeros, digitsVal_single]
      simp [digitVal, Nat.pow_succ, Nat.mul_assoc]
    rw [hv]
    exact decIn_pad k c p hp hk

theorem layout_fixed_frac (n : Bool) (c : Nat) (p : Int) (hc : c ≠ 0) (i : Nat) (hi : 1 ≤ i)
    (hil : i < (natToStr c).length) (hp : p = (i : Int) - ((natToStr c).length : Int)) :
    LitOf n c p ((if n then ['-'] else []) ++ (natToStr c).take i ++ ['.'] ++ (natToStr c).drop i) := by
  have hv : digitsVal ((natToStr c).take i ++ (natToStr c).drop i) = c := by
    rw [List.take_append_drop, digitsVal_natToStr]
  have he : (0 : Int) - (((natToStr c).drop i).length : Int) = p := by
    have hl : ((natToStr c).drop i).length = (natToStr c).length - i := List.length_drop
    rw [hl, hp]; omega
  refine ⟨(natToStr c).take i, (natToStr c).drop i, true, [], 0, ?_, ?_, ?_, ?_, ?_, Or.inl ⟨rfl, rfl⟩, ?_, ?_⟩
  · simp [litText]
  · intro x hx; exact natToStr_digits c x (List.mem_of_mem_take hx)
  · intro x hx; exact natToStr_digits c x (List.mem_of_mem_drop hx)
  · intro h
    have := congrArg List.length h
    simp only [List.length_take, List.length_nil] at this
    omega
  · intro h; cases h
  · rw [hv]; exact hc
  · intro k hk; rw [hv, he]; exact hk

theorem layout_fixed_small (n : Bool) (c : Nat) (p : Int) (hc : c ≠ 0) (z : Nat)
    (hp : p = -((z : Int) + ((natToStr c).length : Int))) :
    LitOf n c p ((if n then ['-'] else []) ++ ['0', '.'] ++ List.replicate z '0' ++ natToStr c) := by
  have hv : digitsVal (['0'] ++ (List.replicate z '0' ++ natToStr c)) = c := by
    rw [digitsVal_append, digitsVal_zeros_append, digitsVal_natToStr, digitsVal_single]
    simp [digitVal]
  have he : (0 : Int) - ((List.replicate z '0' ++ natToStr c).length : Int) = p := by
    rw [List.length_append, List.length_replicate, hp]; omega
  refine ⟨['0'], List.replicate z '0' ++ natToStr c, true, [], 0, ?_, ?_, ?_, ?_, ?_, Or.inl ⟨rfl, rfl⟩, ?_, ?_⟩
  · simp [litText]
  · intro x hx; simp at hx; subst hx; decide
  · intro x hx
    rcases List.mem_append.mp hx with hx | hx
    · exact zeros_digits _ x hx
    · exact natToStr_digits c x hx
  · simp
  · intro h; cases h
  · rw [hv]; exact hc
  · intro k hk; rw [hv, he]; exact hk

theorem expLit_es (E : Int) :
    ExpLit (if E ≥ 0 then ['e', '+'] ++ natToStr E.toNat else ['e', '-'] ++ natToStr (-E).toNat) E := by
  right
  by_cases h : E ≥ 0
  · refine ⟨'e', ['+'], false, natToStr E.toNat, ?_, Or.inl rfl, Or.inr (Or.inl ⟨rfl, rfl⟩), natToStr_ne_nil _,
      natToStr_digits _, ?_⟩
    · simp [h]
    · simp only [digitsVal_natToStr, Bool.false_eq_true, if_false]; omega
  · refine ⟨'e', ['-'], true, natToStr (-E).toNat, ?_, Or.inl rfl, Or.inr (Or.inr ⟨rfl, rfl⟩), natToStr_ne_nil _,
      natToStr_digits _, ?_⟩
    · simp [h]
    · simp only [digitsVal_natToStr, if_true]; omega

theorem layout_exp (n : Bool) (c : Nat) (p : Int) (hc : c ≠ 0) (X : Str) (E : Int) (hX : ExpLit X E)
    (hE : E = p + ((natToStr c).length : Int) - 1) :
    LitOf n c p ((if n then ['-'] else []) ++
      (if ((natToStr c).length == 1) = true then natToStr c
        else (natToStr c).take 1 ++ ['.'] ++ (natToStr c).drop 1) ++ X) := by
  by_cases h1 : (natToStr c).length = 1
  · have h1' : ((natToStr c).length == 1) = true := by simp [h1]
    rw [h1', if_pos rfl]
    refine ⟨natToStr c, [], false, X, E, ?_, natToStr_digits c, ?_, natToStr_ne_nil c, fun _ => rfl, hX, ?_, ?_⟩
    · simp [litText]
    · simp
    · rw [List.append_nil, digitsVal_natToStr]; exact hc
    · intro k hk
      rw [List.append_nil, digitsVal_natToStr]
      have : E - (([] : Str).length : Int) = p := by rw [hE, h1]; simp
      rw [this]; exact hk
  · have h1' : ((natToStr c).length == 1) = false := by simp [h1]
    rw [h1']
    simp only [Bool.false_eq_true, if_false]
    have hlen := natToStr_length_pos c
    have hv : digitsVal ((natToStr c).take 1 ++ (natToStr c).drop 1) = c := by
      rw [List.take_append_drop, digitsVal_natToStr]
    have he : E - (((natToStr c).drop 1).length : Int) = p := by
      have hl : ((natToStr c).drop 1).length = (natToStr c).length - 1 := List.length_drop
      rw [hl, hE]; omega
    refine ⟨(natToStr c).take 1, (natToStr c).drop 1, true, X, E, ?_, ?_, ?_, ?_, ?_, hX, ?_, ?_⟩
    · simp [litText]
    · intro x hx; exact natToStr_digits c x (List.mem_of_mem_take hx)
    · intro x hx; exact natToStr_digits c x (List.mem_of_mem_drop hx)
    · intro h
      have := congrArg List.length h
      simp only [List.length_take, List.length_nil] at this
      omega
    · intro h; cases h
    · rw [hv]; exact hc
    · intro k hk; rw [hv, he]; exact hk

/-- **layout**: whatever branch `format` takes, the text is a decimal literal with a non-empty integer part whose
value is the decimal `c · 10^p` it was laid out from -/
theorem layout_lit (n : Bool) (c : Nat) (p : Int) (hc : c ≠ 0) : LitOf n c p (layout n c p) := by
  unfold layout
  dsimp only
  have hlen : 0 < (natToStr c).length := natToStr_length_pos c
  split
  · split
    · rename_i h1
      have : (p + ((natToStr c).length : Int) - 1).toNat + 1 - (natToStr c).length = p.toNat := by omega
      rw [this]
      exact layout_fixed_int n c p hc (by omega)
    · split
      · rename_i h1 h2
        exact layout_fixed_frac n c p hc _ (by omega) (by omega) (by omega)
      · rename_i h1 h2
        exact layout_fixed_small n c p hc _ (by omega)
  · exact layout_exp n c p hc _ _ (expLit_es _) rfl


/-! ## reading the printed text back -/

theorem strToNumber_layout (n : Bool) (k c : Nat) (p : Int) (hk0 : k ≠ 0) (hk : OnGrid k) (hc : c ≠ 0)
    (h : DecIn k c p) : strToNumber (layout n c p) = some (fin n k) := by
  obtain ⟨I, F, dot, X, ev, ht, hI, hF, hpos, hdot, hX, hne, hin⟩ := (layout_lit n c p hc).ex
  rw [ht, strToNumber_litText n I F dot X ev hI hF hpos hdot hX,
    ofDecimal_inside n k _ _ hk0 hk hne (hin k h)]

theorem parseFloatString_layout (n : Bool) (k c : Nat) (p : Int) (hk0 : k ≠ 0) (hk : OnGrid k) (hc : c ≠ 0)
    (h : DecIn k c p) : parseFloatString (layout n c p) = some (fin n k) := by
  obtain ⟨I, F, dot, X, ev, ht, hI, hF, hpos, hdot, hX, hne, hin⟩ := (layout_lit n c p hc).ex
  rw [ht, parseFloatString_litText n I F dot X ev hI hF hpos hdot hX,
    ofDecimal_inside n k _ _ hk0 hk hne (hin k h)]

/-- the digit search of `shortest` succeeds on `k` (it returns `(0, 0)` only by falling through all 17 lengths) -/
def ShortestOK (k : Nat) : Prop := k = 0 ∨ (shortest k).1 ≠ 0

instance (k : Nat) : Decidable (ShortestOK k) := by unfold ShortestOK; exact inferInstance

theorem format_zero (n : Bool) : format (fin n 0) = (if n then ['-'] else []) ++ ['0', '.', '0'] := rfl

theorem format_decIn (n : Bool) (k : Nat) (hk0 : k ≠ 0) (hs : ShortestOK k) :
    ∃ c p, c ≠ 0 ∧ DecIn k c p ∧ format (fin n k) = layout n c p := by
  have hs' : (shortest k).1 ≠ 0 := by
    rcases hs with h | h
    · exact absurd h hk0
    · exact h
  have h1 := shortest_decIn k (shortest k).1 (shortest k).2 rfl hs'
  obtain ⟨h2, h3⟩ := stripLoop_inv k _ _ h1 hs'
  refine ⟨_, _, h3, h2, ?_⟩
  rw [format_fin]
  have : (k == 0) = false := by simpa using hk0
  rw [this]
  rfl

/-- **text → number round trip for floats**: JS `Number(text)` of the printed form of a finite double is that double -/
theorem strToNumber_format (n : Bool) (k : Nat) (hk : OnGrid k) (hs : ShortestOK k) :
    strToNumber (format (fin n k)) = some (fin n k) := by
  by_cases hk0 : k = 0
  · subst hk0
    cases n <;> decide +kernel
  · obtain ⟨c, p, hc, hin, hf⟩ := format_decIn n k hk0 hs
    rw [hf]
    exact strToNumber_layout n k c p hk0 hk hc hin

theorem parseFloatString_format (n : Bool) (k : Nat) (hk : OnGrid k) (hs : ShortestOK k) :
    parseFloatString (format (fin n k)) = some (fin n k) := by
  by_cases hk0 : k = 0
  · subst hk0
    cases n <;> decide +kernel
  · obtain ⟨c, p, hc, hin, hf⟩ := format_decIn n k hk0 hs
    rw [hf]
    exact parseFloatString_layout n k c p hk0 hk hc hin

end JL.Lemmas.RoundTrip
