import JL.JsOp
import JL.Spec.ESNum
/-!
# Lemmas relating the scanners of `JL/JsOp.lean` to the grammar reading in `JL/Spec/ESNum.lean`
-/
namespace JL.Lemmas.StrNum
open JL JL.JsOp JL.Spec

/-! ## characters -/

theorem ws_eq (c : Char) : ES.isStrWhiteSpaceChar c = isJsWhitespace c := by
  rw [Bool.eq_iff_iff]
  simp [ES.isStrWhiteSpaceChar, isJsWhitespace, ES.strWhiteSpaceCodePoints]
  omega

theorem skipWS_eq (s : Str) : ES.skipWhiteSpace s = trimStart s := by
  induction s with
  | nil => rfl
  | cons c cs ih => simp [ES.skipWhiteSpace, trimStart, List.dropWhile_cons, ws_eq, ih]

theorem strip_eq (s : Str) : ES.strip s = trimBoth s := by
  simp [ES.strip, trimBoth, trimEnd, skipWS_eq, trimStart]

theorem char_lt_128 (P : Char → Prop) (c : Char) (h : c.toNat < 128)
    (hP : ∀ n, n < 128 → P (Char.ofNat n)) : P c := by
  have := hP c.toNat h
  simpa using this

theorem isDigit_iff (c : Char) : isDigit c = true ↔ 48 ≤ c.toNat ∧ c.toNat ≤ 57 := by
  simp [isDigit, Char.le_def, UInt32.le_iff_toNat_le]

theorem dd_small : ∀ n, n < 128 → ES.decimalDigit? (Char.ofNat n) =
    if isDigit (Char.ofNat n) then some (digitVal (Char.ofNat n)) else none := by
  decide +kernel

theorem decimalDigit_eq (c : Char) :
    ES.decimalDigit? c = if isDigit c then some (digitVal c) else none := by
  by_cases h : c.toNat < 128
  · exact char_lt_128 (fun c => ES.decimalDigit? c = if isDigit c then some (digitVal c) else none) c h dd_small
  · have hd : isDigit c = false := by
      have := isDigit_iff c
      cases hh : isDigit c <;> simp_all
      omega
    rw [hd]
    unfold ES.decimalDigit?
    split <;> simp_all

theorem toDigit_big (r : Nat) (c : Char) (h : ¬ c.toNat < 128) : toDigit r c = none := by
  have h1 : ¬ (c.toNat ≤ 57) := by omega
  have h2 : ¬ (c.toNat ≤ 122) := by omega
  have h3 : ¬ (c.toNat ≤ 90) := by omega
  simp [toDigit, h1, h2, h3]

theorem hex_small : ∀ n, n < 128 → toDigit 16 (Char.ofNat n) = ES.hexDigit? (Char.ofNat n) := by decide +kernel
theorem oct_small : ∀ n, n < 128 → toDigit 8 (Char.ofNat n) = ES.octalDigit? (Char.ofNat n) := by decide +kernel
theorem bin_small : ∀ n, n < 128 → toDigit 2 (Char.ofNat n) = ES.binaryDigit? (Char.ofNat n) := by decide +kernel

theorem toDigit_hex (c : Char) : toDigit 16 c = ES.hexDigit? c := by
  by_cases h : c.toNat < 128
  · exact char_lt_128 (fun c => toDigit 16 c = ES.hexDigit? c) c h hex_small
  · rw [toDigit_big _ _ h]; unfold ES.hexDigit?; split <;> simp_all
theorem toDigit_oct (c : Char) : toDigit 8 c = ES.octalDigit? c := by
  by_cases h : c.toNat < 128
  · exact char_lt_128 (fun c => toDigit 8 c = ES.octalDigit? c) c h oct_small
  · rw [toDigit_big _ _ h]; unfold ES.octalDigit?; split <;> simp_all
theorem toDigit_bin (c : Char) : toDigit 2 c = ES.binaryDigit? c := by
  by_cases h : c.toNat < 128
  · exact char_lt_128 (fun c => toDigit 2 c = ES.binaryDigit? c) c h bin_small
  · rw [toDigit_big _ _ h]; unfold ES.binaryDigit?; split <;> simp_all

theorem toDigit_lt (r : Nat) (c : Char) (d : Nat) (h : toDigit r c = some d) : d < r := by
  simp only [toDigit] at h
  split at h
  · split at h <;> simp_all
  · simp at h

/-! ## digit runs -/

theorem decimalDigits_eq (s : Str) :
    ES.decimalDigits s = ((s.takeWhile isDigit).map digitVal, s.dropWhile isDigit) := by
  induction s with
  | nil => rfl
  | cons c cs ih =>
    simp only [ES.decimalDigits, decimalDigit_eq, ih, List.takeWhile_cons, List.dropWhile_cons]
    cases isDigit c <;> simp

theorem mv_map (cs : Str) : ES.mv 10 (cs.map digitVal) = digitsVal cs := by
  simp [ES.mv, digitsVal, List.foldl_map]

theorem mv_cons (c : Char) (cs : Str) :
    ES.mv 10 (digitVal c :: cs.map digitVal) = digitsVal (c :: cs) := mv_map (c :: cs)

theorem takeWhile_dropWhile_nil (p : Char → Bool) (s : Str) : (s.dropWhile p).takeWhile p = [] := by
  induction s with
  | nil => rfl
  | cons c cs ih =>
    simp only [List.dropWhile_cons]
    split
    · exact ih
    · simp [*]

/-! ## the model's `decimal_literal_len`, cut into mantissa and exponent scans -/

def mantScan (s : Str) : Nat × Nat :=
  match s.drop (digitsLen s) with
  | '.' :: fr =>
      if digitsLen s + digitsLen fr > 0 then (digitsLen s + digitsLen fr, digitsLen s + 1 + digitsLen fr)
      else (digitsLen s + digitsLen fr, digitsLen s)
  | _ => (digitsLen s, digitsLen s)

def expScan : Str → Nat
  | e :: rest =>
      if e == 'e' || e == 'E' then
        let p : Nat × Str :=
          match rest with
          | sgn :: r => if sgn == '+' || sgn == '-' then (1, r) else (0, rest)
          | [] => (0, rest)
        if digitsLen p.2 > 0 then 1 + p.1 + digitsLen p.2 else 0
      else 0
  | [] => 0

theorem decimalLiteralLen_eq (s : Str) :
    decimalLiteralLen s =
      if (mantScan s).1 = 0 then 0 else (mantScan s).2 + expScan (s.drop (mantScan s).2) := by
  unfold decimalLiteralLen mantScan expScan
  split <;> split <;> simp <;> split <;> simp_all
  all_goals (split <;> (try split) <;> (try split) <;> simp_all)
  all_goals ((try split) <;> (try split) <;> (try split) <;> (try simp_all) <;> (try omega))

/-! ## the grammar reading, restated on `takeWhile` / `dropWhile` -/

theorem mantissa_eq (s : Str) : ES.decimalMantissa s =
    match s.dropWhile isDigit with
    | '.' :: t =>
        if (s.takeWhile isDigit).length + (t.takeWhile isDigit).length = 0 then none
        else some (digitsVal (s.takeWhile isDigit ++ t.takeWhile isDigit), (t.takeWhile isDigit).length,
                   t.dropWhile isDigit)
    | r1 => if (s.takeWhile isDigit).length = 0 then none else some (digitsVal (s.takeWhile isDigit), 0, r1) := by
  unfold ES.decimalMantissa
  simp only [decimalDigits_eq]
  generalize s.takeWhile isDigit = I
  generalize s.dropWhile isDigit = r1
  split
  · rename_i h
    simp at h
    obtain ⟨rfl, rfl⟩ := h
    simp only []
    generalize List.takeWhile isDigit _ = F
    cases F <;> simp [mv_cons]
  · rename_i h1 h2
    simp at h2
    obtain ⟨rfl, rfl⟩ := h2
    split
    · exact absurd rfl (fun h => h1 _ h)
    · simp
  · rename_i h1 h2
    simp at h2
    obtain ⟨rfl, rfl⟩ := h2
    have hI : I ≠ [] := by intro h; subst h; exact h1 rfl
    simp only [← List.map_append, mv_map, List.length_map]
    cases I <;> simp_all
  · rename_i h1 h2 h3
    simp at h3
    obtain ⟨rfl, rfl⟩ := h3
    have hI : I ≠ [] := by intro h; subst h; exact h1 rfl
    split
    · exact absurd rfl (fun h => h2 _ h)
    · cases I <;> simp_all [mv_cons]

theorem exponentPart_eq (c : Char) (r : Str) : ES.exponentPart (c :: r) =
    if c = 'e' ∨ c = 'E' then
      if (ES.sign r).2.takeWhile isDigit = [] then none
      else some (if (ES.sign r).1 then -(digitsVal ((ES.sign r).2.takeWhile isDigit) : Int)
                  else (digitsVal ((ES.sign r).2.takeWhile isDigit) : Int), (ES.sign r).2.dropWhile isDigit)
    else none := by
  simp only [ES.exponentPart]
  split
  · rw [decimalDigits_eq]
    generalize (ES.sign r).2.takeWhile isDigit = D
    cases D <;> simp [mv_cons]
  · rfl

theorem expScan_eq (c : Char) (r : Str) : expScan (c :: r) =
    if c = 'e' ∨ c = 'E' then
      if (ES.sign r).2.takeWhile isDigit = [] then 0
      else 1 + (r.length - (ES.sign r).2.length) + ((ES.sign r).2.takeWhile isDigit).length
    else 0 := by
  simp only [expScan, digitsLen]
  rcases r with _ | ⟨x, u⟩
  · simp [ES.sign]
  · by_cases h1 : x = '+'
    · subst h1; simp [ES.sign]; generalize List.takeWhile isDigit u = D; cases D <;> simp <;> omega
    · by_cases h2 : x = '-'
      · subst h2; simp [ES.sign]; generalize List.takeWhile isDigit u = D; cases D <;> simp <;> omega
      · have : ES.sign (x :: u) = (false, x :: u) := by unfold ES.sign; split <;> simp_all
        simp [this, h1, h2]; generalize List.takeWhile isDigit (x :: u) = D; cases D <;> simp <;> omega

theorem drop_digitsLen (s : Str) : s.drop (digitsLen s) = s.dropWhile isDigit := by
  unfold digitsLen
  induction s with
  | nil => rfl
  | cons c cs ih => cases h : isDigit c <;> simp [h, ih]

theorem length_tw_dw (s : Str) : (s.takeWhile isDigit).length + (s.dropWhile isDigit).length = s.length := by
  rw [← List.length_append, List.takeWhile_append_dropWhile]

theorem mantScan_eq (s : Str) : mantScan s =
    match s.dropWhile isDigit with
    | '.' :: t =>
        if (s.takeWhile isDigit).length + (t.takeWhile isDigit).length = 0 then (0, (s.takeWhile isDigit).length)
        else ((s.takeWhile isDigit).length + (t.takeWhile isDigit).length,
              (s.takeWhile isDigit).length + 1 + (t.takeWhile isDigit).length)
    | _ => ((s.takeWhile isDigit).length, (s.takeWhile isDigit).length) := by
  unfold mantScan
  rw [drop_digitsLen]
  split <;> simp [digitsLen]
  split <;> simp_all
  intro h1 h2; simp_all

theorem mant_none (s : Str) (h : ES.decimalMantissa s = none) : (mantScan s).1 = 0 := by
  rw [mantissa_eq] at h
  rw [mantScan_eq]
  split at h <;> simp_all

theorem mant_len (s : Str) (m nf : Nat) (r : Str) (h : ES.decimalMantissa s = some (m, nf, r)) :
    (mantScan s).1 ≠ 0 ∧ s.drop (mantScan s).2 = r ∧ (mantScan s).2 + r.length = s.length := by
  rw [mantissa_eq] at h
  rw [mantScan_eq]
  have hs := List.takeWhile_append_dropWhile (p := isDigit) (l := s)
  generalize s.takeWhile isDigit = I at *
  generalize s.dropWhile isDigit = r1 at *
  subst hs
  split at h
  · rename_i t
    have hs2 := List.takeWhile_append_dropWhile (p := isDigit) (l := t)
    generalize t.takeWhile isDigit = F at *
    generalize t.dropWhile isDigit = r2 at *
    subst hs2
    split at h
    · simp at h
    · rename_i hne
      simp at h
      obtain ⟨-, -, rfl⟩ := h
      simp only [hne, if_false]
      refine ⟨hne, ?_, ?_⟩
      · have : I ++ '.' :: (F ++ r2) = (I ++ '.' :: F) ++ r2 := by simp
        rw [this]
        exact List.drop_left' (by simp; omega)
      · simp; omega
  · rename_i hnd
    split at h
    · simp at h
    · rename_i hne
      simp at h
      obtain ⟨-, -, rfl⟩ := h
      simp [hne]

theorem sign_len (r : Str) : (ES.sign r).2.length ≤ r.length := by
  unfold ES.sign; split <;> simp

theorem exp_none (r : Str) (h : ES.exponentPart r = none) : expScan r = 0 := by
  cases r with
  | nil => rfl
  | cons c r =>
    rw [exponentPart_eq] at h
    rw [expScan_eq]
    split <;> simp_all

theorem exp_len (r : Str) (e : Int) (rest : Str) (h : ES.exponentPart r = some (e, rest)) :
    expScan r + rest.length = r.length := by
  cases r with
  | nil => simp [ES.exponentPart] at h
  | cons c r =>
    rw [exponentPart_eq] at h
    rw [expScan_eq]
    have h1 := sign_len r
    have h2 := length_tw_dw (ES.sign r).2
    split at h
    · split at h
      · simp at h
      · simp at h
        obtain ⟨-, rfl⟩ := h
        simp [*]
        omega
    · simp at h

/-- `decimal_literal_len` is the number of characters the grammar reading consumes -/
theorem decimalLiteralLen_spec (s : Str) :
    decimalLiteralLen s =
      match ES.unsignedDecimalLiteral s with
      | none => 0
      | some (_, _, rest) => s.length - rest.length := by
  rw [decimalLiteralLen_eq]
  unfold ES.unsignedDecimalLiteral
  cases hm : ES.decimalMantissa s with
  | none => simp [mant_none s hm]
  | some p =>
    obtain ⟨m, nf, r⟩ := p
    obtain ⟨h1, h2, h3⟩ := mant_len s m nf r hm
    rw [if_neg h1, h2]
    simp only []
    cases he : ES.exponentPart r with
    | none =>
      have := exp_none r he
      simp only []
      omega
    | some q =>
      obtain ⟨e, rest⟩ := q
      have := exp_len r e rest he
      simp only []
      omega

/-- what is left over is a suffix, and something was consumed -/
theorem literal_rest_len (s : Str) (m : Nat) (e : Int) (rest : Str)
    (h : ES.unsignedDecimalLiteral s = some (m, e, rest)) : rest.length < s.length := by
  unfold ES.unsignedDecimalLiteral at h
  split at h
  · simp at h
  · rename_i m nf r hm
    obtain ⟨h1, h2, h3⟩ := mant_len s m nf r hm
    have h4 : 0 < (mantScan s).2 := by
      have := mantScan_eq s
      revert this
      split <;> (try split) <;> intro h <;> simp_all
      · omega
      · exact List.length_pos_iff.mpr h1
    split at h
    · rename_i e rest he
      have := exp_len r e rest he
      simp at h
      obtain ⟨-, -, rfl⟩ := h
      omega
    · simp at h
      obtain ⟨-, -, rfl⟩ := h
      omega


/-! ## explicit shape of what the grammar reading consumes -/

def SgOK (sg : Str) (neg : Bool) : Prop :=
  (sg = [] ∧ neg = false) ∨ (sg = ['+'] ∧ neg = false) ∨ (sg = ['-'] ∧ neg = true)

def ExpLit (X : Str) (ev : Int) : Prop :=
  (X = [] ∧ ev = 0) ∨
  ∃ c sg neg D, X = c :: (sg ++ D) ∧ (c = 'e' ∨ c = 'E') ∧ SgOK sg neg ∧ D ≠ [] ∧
    (∀ d ∈ D, isDigit d = true) ∧ ev = if neg then -(digitsVal D : Int) else (digitsVal D : Int)

theorem mem_takeWhile_digit (s : Str) : ∀ c ∈ s.takeWhile isDigit, isDigit c = true := by
  induction s with
  | nil => simp
  | cons a s ih =>
    intro c hc
    simp only [List.takeWhile_cons] at hc
    split at hc
    · rcases List.mem_cons.mp hc with rfl | h
      · assumption
      · exact ih c h
    · simp at hc

theorem sign_shape (r : Str) : ∃ sg, r = sg ++ (ES.sign r).2 ∧ SgOK sg (ES.sign r).1 := by
  unfold ES.sign
  split
  · exact ⟨['+'], by simp [SgOK]⟩
  · exact ⟨['-'], by simp [SgOK]⟩
  · exact ⟨[], by simp [SgOK]⟩

theorem exp_shape (r : Str) (e : Int) (rest : Str) (h : ES.exponentPart r = some (e, rest)) :
    ∃ X, r = X ++ rest ∧ ExpLit X e ∧ X ≠ [] := by
  cases r with
  | nil => simp [ES.exponentPart] at h
  | cons c r =>
    rw [exponentPart_eq] at h
    obtain ⟨sg, hr, hsg⟩ := sign_shape r
    have hD := mem_takeWhile_digit (ES.sign r).2
    have hs := List.takeWhile_append_dropWhile (p := isDigit) (l := (ES.sign r).2)
    split at h
    · rename_i hc
      split at h
      · simp at h
      · rename_i hne
        simp at h
        obtain ⟨rfl, rfl⟩ := h
        refine ⟨c :: (sg ++ (ES.sign r).2.takeWhile isDigit), ?_, ?_, by simp⟩
        · simp only [List.cons_append, List.append_assoc, hs]
          rw [← hr]
        · exact Or.inr ⟨c, sg, _, _, rfl, hc, hsg, hne, hD, rfl⟩
    · simp at h

theorem mant_shape (s : Str) (m nf : Nat) (r : Str) (h : ES.decimalMantissa s = some (m, nf, r)) :
    ∃ (I F : Str) (dot : Bool), s = I ++ ((if dot then '.' :: F else []) ++ r) ∧ (∀ c ∈ I, isDigit c = true) ∧
      (∀ c ∈ F, isDigit c = true) ∧ 0 < I.length + F.length ∧ (dot = false → F = [] ∧ ∀ t, r ≠ '.' :: t) ∧
      m = digitsVal (I ++ F) ∧ nf = F.length := by
  rw [mantissa_eq] at h
  have hs := List.takeWhile_append_dropWhile (p := isDigit) (l := s)
  have hI := mem_takeWhile_digit s
  generalize s.takeWhile isDigit = I at *
  generalize s.dropWhile isDigit = r1 at *
  subst hs
  split at h
  · rename_i t
    have hs2 := List.takeWhile_append_dropWhile (p := isDigit) (l := t)
    have hF := mem_takeWhile_digit t
    generalize t.takeWhile isDigit = F at *
    generalize t.dropWhile isDigit = r2 at *
    subst hs2
    split at h
    · simp at h
    · rename_i hne
      simp at h
      obtain ⟨rfl, rfl, rfl⟩ := h
      exact ⟨I, F, true, by simp, hI, hF, by omega, by simp, rfl, rfl⟩
  · rename_i hnd
    split at h
    · simp at h
    · rename_i hne
      simp at h
      obtain ⟨rfl, rfl, rfl⟩ := h
      exact ⟨I, [], false, by simp, hI, by simp, by simp; omega, by simpa using hnd, by simp, rfl⟩

theorem lit_shape (s : Str) (m : Nat) (e : Int) (rest : Str)
    (h : ES.unsignedDecimalLiteral s = some (m, e, rest)) :
    ∃ (I F : Str) (dot : Bool) (X : Str) (ev : Int),
      s = (I ++ ((if dot then '.' :: F else []) ++ X)) ++ rest ∧ (∀ c ∈ I, isDigit c = true) ∧
      (∀ c ∈ F, isDigit c = true) ∧ 0 < I.length + F.length ∧ (dot = false → F = []) ∧
      m = digitsVal (I ++ F) ∧ ExpLit X ev ∧ e = ev - (F.length : Int) := by
  unfold ES.unsignedDecimalLiteral at h
  cases hm : ES.decimalMantissa s with
  | none => simp [hm] at h
  | some p =>
    obtain ⟨m', nf, r⟩ := p
    obtain ⟨I, F, dot, hs, hI, hF, hpos, hdot, rfl, rfl⟩ := mant_shape s m' nf r hm
    simp only [hm] at h
    cases he : ES.exponentPart r with
    | none =>
      simp [he] at h
      obtain ⟨rfl, rfl, rfl⟩ := h
      exact ⟨I, F, dot, [], 0, by simpa using hs, hI, hF, hpos, fun h => (hdot h).1, rfl, Or.inl ⟨rfl, rfl⟩, by simp⟩
    | some q =>
      obtain ⟨ev, rest'⟩ := q
      simp [he] at h
      obtain ⟨rfl, rfl, rfl⟩ := h
      obtain ⟨X, rfl, hX, -⟩ := exp_shape r ev rest' he
      exact ⟨I, F, dot, X, ev, by simpa using hs, hI, hF, hpos, fun h => (hdot h).1, rfl, hX, rfl⟩


/-! ## Rust `f64::from_str` on a validated unsigned decimal literal -/

/-- `rustParseF64` after its sign and keyword stages -/
def rustBody (u : Str) : Option F64 :=
    let intDs := u.takeWhile isDigit
    let r1 := u.drop intDs.length
    let (fracDs, r2) : Str × Str :=
      match r1 with
      | '.' :: fr => (fr.takeWhile isDigit, fr.drop (fr.takeWhile isDigit).length)
      | _ => ([], r1)
    if intDs.length + fracDs.length == 0 then none
    else
      let mant := digitsVal (intDs ++ fracDs)
      match r2 with
      | [] => some (F64.ofDecimal false mant (-(fracDs.length : Int)))
      | e :: r3 =>
          if e == 'e' || e == 'E' then
            let (eneg, ds) : Bool × Str :=
              match r3 with
              | '-' :: r => (true, r)
              | '+' :: r => (false, r)
              | r => (false, r)
            if ds.isEmpty || !ds.all isDigit then none
            else
              let ev : Int := digitsVal ds
              some (F64.ofDecimal false mant ((if eneg then -ev else ev) - (fracDs.length : Int)))
          else none

theorem digit_facts (c : Char) (h : isDigit c = true) :
    c ≠ '+' ∧ c ≠ '-' ∧ c ≠ '.' ∧ c ≠ 'e' ∧ c ≠ 'E' ∧ lower c = c ∧ c ≠ 'i' ∧ c ≠ 'n' := by
  have h1 := (isDigit_iff c).mp h
  have hlt : c.toNat < 128 := by omega
  revert h
  exact char_lt_128 (fun c => isDigit c = true → c ≠ '+' ∧ c ≠ '-' ∧ c ≠ '.' ∧ c ≠ 'e' ∧ c ≠ 'E' ∧ lower c = c ∧ c ≠ 'i' ∧ c ≠ 'n') c hlt (by decide +kernel)

theorem rust_unsigned (c : Char) (r : Str) (h : isDigit c = true ∨ c = '.') :
    rustParseF64 (c :: r) = rustBody (c :: r) := by
  have hc : c ≠ '+' ∧ c ≠ '-' ∧ lower c = c ∧ c ≠ 'i' ∧ c ≠ 'n' := by
    rcases h with h | rfl
    · have := digit_facts c h; simp_all
    · decide
  obtain ⟨h1, h2, h3, h4, h5⟩ := hc
  unfold rustParseF64
  split
  rename_i heq
  split at heq
  · rename_i h'; simp at h'; exact absurd h'.1 h2
  · rename_i h'; simp at h'; exact absurd h'.1 h1
  · simp at heq
    obtain ⟨rfl, rfl, rfl⟩ := heq
    have k1 : (List.map lower (c :: r) == "inf".toList) = false := by simp [h3, h4]
    have k2 : (List.map lower (c :: r) == "infinity".toList) = false := by simp [h3, h4]
    have k3 : (List.map lower (c :: r) == "nan".toList) = false := by simp [h3, h5]
    simp only [k1, k2, k3]
    rfl

def rustTail (mant : Nat) (nf : Nat) (r2 : Str) : Option F64 :=
      match r2 with
      | [] => some (F64.ofDecimal false mant (-(nf : Int)))
      | e :: r3 =>
          if e == 'e' || e == 'E' then
            let (eneg, ds) : Bool × Str :=
              match r3 with
              | '-' :: r => (true, r)
              | '+' :: r => (false, r)
              | r => (false, r)
            if ds.isEmpty || !ds.all isDigit then none
            else
              let ev : Int := digitsVal ds
              some (F64.ofDecimal false mant ((if eneg then -ev else ev) - (nf : Int)))
          else none

theorem takeWhile_digits_append (I t : Str) (hI : ∀ c ∈ I, isDigit c = true) (ht : t.takeWhile isDigit = []) :
    (I ++ t).takeWhile isDigit = I := by
  rw [List.takeWhile_append_of_pos hI, ht, List.append_nil]

theorem rustBody_dot (I F X : Str) (hI : ∀ c ∈ I, isDigit c = true) (hF : ∀ c ∈ F, isDigit c = true)
    (hX : X.takeWhile isDigit = []) (hpos : 0 < I.length + F.length) :
    rustBody (I ++ '.' :: (F ++ X)) = rustTail (digitsVal (I ++ F)) F.length X := by
  unfold rustBody
  have h1 : (I ++ '.' :: (F ++ X)).takeWhile isDigit = I :=
    takeWhile_digits_append I _ hI (by simp [List.takeWhile_cons]; decide)
  have h2 : (F ++ X).takeWhile isDigit = F := takeWhile_digits_append F _ hF hX
  have h3 : (I.length + F.length == 0) = false := by rw [beq_eq_false_iff_ne]; omega
  simp only [h1, List.drop_left, h2, h3]
  rfl

theorem rustBody_nodot (I X : Str) (hI : ∀ c ∈ I, isDigit c = true)
    (hX : X.takeWhile isDigit = []) (hX2 : ∀ t, X ≠ '.' :: t) (hpos : 0 < I.length) :
    rustBody (I ++ X) = rustTail (digitsVal I) 0 X := by
  unfold rustBody
  have h1 : (I ++ X).takeWhile isDigit = I := takeWhile_digits_append I _ hI hX
  have h3 : (I.length + 0 == 0) = false := by rw [beq_eq_false_iff_ne]; omega
  simp only [h1, List.drop_left, List.length_nil, h3, List.append_nil]
  rfl


theorem expLit_head (X : Str) (ev : Int) (h : ExpLit X ev) :
    X.takeWhile isDigit = [] ∧ ∀ t, X ≠ '.' :: t := by
  rcases h with ⟨rfl, -⟩ | ⟨c, sg, neg, D, rfl, hc, -⟩
  · simp
  · rcases hc with rfl | rfl <;> simp [List.takeWhile_cons] <;> decide

theorem rustTail_lit (mant nf : Nat) (X : Str) (ev : Int) (hX : ExpLit X ev) :
    rustTail mant nf X = some (F64.ofDecimal false mant (ev - (nf : Int))) := by
  rcases hX with ⟨rfl, rfl⟩ | ⟨c, sg, neg, D, rfl, hc, hsg, hne, hD, rfl⟩
  · simp [rustTail]
  · have hc' : (c == 'e' || c == 'E') = true := by rcases hc with rfl | rfl <;> decide
    have hall : D.all isDigit = true := by simpa [List.all_eq_true] using hD
    have hemp : D.isEmpty = false := by cases D <;> simp_all
    obtain ⟨d, D', rfl⟩ : ∃ d D', D = d :: D' := by cases D <;> simp_all
    have hd := digit_facts d (hD d (by simp))
    simp only [rustTail, hc', if_true]
    rcases hsg with ⟨rfl, rfl⟩ | ⟨rfl, rfl⟩ | ⟨rfl, rfl⟩
    · simp only [List.nil_append]
      split
      · rename_i heq; simp at heq; exact absurd heq.1 hd.2.1
      · rename_i heq; simp at heq; exact absurd heq.1 hd.1
      · simp [hall, hemp]
    · simp [hall, hemp]
    · simp [hall, hemp]

/-- on the text the grammar reading consumes, Rust's `f64::from_str` returns the rounded MV -/
theorem rust_prefix (s : Str) (m : Nat) (e : Int) (rest : Str)
    (h : ES.unsignedDecimalLiteral s = some (m, e, rest)) :
    rustParseF64 (s.take (s.length - rest.length)) = some (F64.ofDecimal false m e) := by
  obtain ⟨I, F, dot, X, ev, hs, hI, hF, hpos, hdot, rfl, hX, rfl⟩ := lit_shape s m e rest h
  have htake : s.take (s.length - rest.length) = I ++ ((if dot then '.' :: F else []) ++ X) := by
    rw [hs]; exact List.take_left' (by simp; omega)
  rw [htake]
  obtain ⟨hX1, hX2⟩ := expLit_head X ev hX
  cases dot with
  | true =>
    simp only [if_true, List.cons_append]
    have : rustParseF64 (I ++ '.' :: (F ++ X)) = rustBody (I ++ '.' :: (F ++ X)) := by
      cases I with
      | nil => exact rust_unsigned _ _ (Or.inr rfl)
      | cons i I' => exact rust_unsigned _ _ (Or.inl (hI i (by simp)))
    rw [this, rustBody_dot I F X hI hF hX1 hpos, rustTail_lit _ _ X ev hX]
  | false =>
    obtain rfl := hdot rfl
    simp only [Bool.false_eq_true, if_false, List.nil_append, List.append_nil, List.length_nil] at *
    have : rustParseF64 (I ++ X) = rustBody (I ++ X) := by
      cases I with
      | nil => simp at hpos
      | cons i I' => exact rust_unsigned _ _ (Or.inl (hI i (by simp)))
    rw [this, rustBody_nodot I X hI hX1 hX2 (by omega), rustTail_lit _ _ X ev hX]


/-! ## signs, `Infinity`, negation -/

theorem splitSign_eq (s : Str) : splitSign s = ES.sign s := by
  unfold splitSign ES.sign
  split <;> split <;> simp_all

theorem isPrefix_eq (a b : Str) : isPrefix a b = a.isPrefixOf b := by
  induction a generalizing b with
  | nil => simp [isPrefix]
  | cons x xs ih => cases b <;> simp [isPrefix, List.isPrefixOf, ih]

theorem infinity_word : "Infinity".toList = ES.infinityWord := by decide

/-- the magnitude (in units of 2^-1074) `roundUnits` rounds to -/
def roundMag (num den : Nat) : Nat :=
  let q := num / den
  let r := num % den
  let L := F64.bitLen q
  if L ≤ 53 then
    let up := (2 * r > den) || (2 * r == den && q % 2 == 1)
    if up then q + 1 else q
  else
    let sh := L - 53
    let m := q >>> sh
    let rem := q % (2 ^ sh)
    let half := 2 ^ (sh - 1)
    let up := (rem > half) || (rem == half && (r != 0 || m % 2 == 1))
    (if up then m + 1 else m) <<< sh

theorem roundUnits_eq (neg : Bool) (n d : Nat) :
    F64.roundUnits neg n d = if roundMag n d ≥ F64.OVF then F64.inf neg else F64.fin neg (roundMag n d) := rfl

theorem negate_roundUnits (n d : Nat) : F64.negate (F64.roundUnits false n d) = F64.roundUnits true n d := by
  simp only [roundUnits_eq]
  split <;> rfl

theorem negate_ofDecimal (m : Nat) (e : Int) : F64.negate (F64.ofDecimal false m e) = F64.ofDecimal true m e := by
  unfold F64.ofDecimal
  simp only []
  split
  · simp [F64.negate]
  · split
    · simp [F64.negate]
    · split
      · simp [F64.negate]
      · split <;> exact negate_roundUnits _ _

theorem signed_ofDecimal (neg : Bool) (m : Nat) (e : Int) :
    (if neg then F64.negate (F64.ofDecimal false m e) else F64.ofDecimal false m e) = F64.ofDecimal neg m e := by
  cases neg <;> simp [negate_ofDecimal]

theorem rust_nil : rustParseF64 [] = none := by decide +kernel

/-! ## `parse_float_string` -/

theorem parseFloatString_eq (s : Str) : parseFloatString s = ES.parseFloat s := by
  unfold parseFloatString ES.parseFloat
  rw [splitSign_eq, skipWS_eq]
  generalize ES.sign (trimStart s) = p
  obtain ⟨neg, u⟩ := p
  simp only [isPrefix_eq, infinity_word]
  by_cases hinf : List.isPrefixOf ES.infinityWord u = true
  · cases neg <;> simp [hinf, F64.negate]
  · simp only [hinf, if_false, Bool.false_eq_true]
    rw [decimalLiteralLen_spec]
    cases h : ES.unsignedDecimalLiteral u with
    | none => simp [rust_nil]
    | some q =>
      obtain ⟨m, e, rest⟩ := q
      simp only [rust_prefix u m e rest h, signed_ofDecimal]

/-! ## the decimal branch of `str_to_number` -/

def modelDec (s : Str) : Option F64 :=
        let (negative, unsigned) := splitSign s
        let magnitude : Option F64 :=
          if unsigned == "Infinity".toList then some (F64.inf false)
          else if !unsigned.isEmpty && decimalLiteralLen unsigned == unsigned.length then rustParseF64 unsigned
          else none
        match magnitude with
        | none => none
        | some m => some (if negative then F64.negate m else m)

def specDec (t : Str) : Option F64 :=
        let (neg, u) := ES.sign t
        if u = ES.infinityWord then some (F64.inf neg)
        else
          match ES.unsignedDecimalLiteral u with
          | some (m, e, []) => some (F64.ofDecimal neg m e)
          | _ => none

theorem strToNumber_unfold (s : Str) : strToNumber s =
    if (trimBoth s).isEmpty then some F64.zero
    else match radixLiteral (trimBoth s) with
      | some rv => rv
      | none => modelDec (trimBoth s) := rfl

theorem stringToNumber_unfold (s : Str) : ES.stringToNumber s =
    if ES.strip s = [] then some (F64.fin false 0)
    else match ES.nonDecimalIntegerLiteral (ES.strip s) with
      | some n => some (F64.roundUnits false (n * F64.S) 1)
      | none => specDec (ES.strip s) := rfl

theorem modelDec_eq (t : Str) : modelDec t = specDec t := by
  unfold modelDec specDec
  rw [splitSign_eq, infinity_word]
  generalize ES.sign t = p
  obtain ⟨neg, u⟩ := p
  simp only [beq_iff_eq]
  by_cases hinf : u = ES.infinityWord
  · cases neg <;> simp [hinf, F64.negate]
  · simp only [hinf, if_false]
    rw [decimalLiteralLen_spec]
    cases h : ES.unsignedDecimalLiteral u with
    | none =>
      cases u <;> simp
    | some q =>
      obtain ⟨m, e, rest⟩ := q
      have hlen := literal_rest_len u m e rest h
      have hr := rust_prefix u m e rest h
      cases rest with
      | nil =>
        simp only [List.length_nil, Nat.sub_zero, List.take_length] at hr
        have : u ≠ [] := by intro h; subst h; simp at hlen
        simp [this, hr, signed_ofDecimal]
      | cons c r =>
        have : ¬ (u.length - (r.length + 1) = u.length) := by simp at hlen; omega
        simp [this]

end JL.Lemmas.StrNum
