import JL.Rs
import JL.Lemmas.StrNum
import JL.Lemmas.Utf8
import JL.Lemmas.TieA
/-!
# Byte-level scanning of a UTF-8 encoded string = character-level scanning, as far as the scan only crosses ASCII

`decimal_literal_len` (src/js_op.rs) scans `s.as_bytes()`; the model scans the characters. This file relates
`takeWhile` / `drop` / `[i]?` on `Spec.Utf8.encode s` with the same operations on `s`:

* an ASCII character is one byte, its code (`encode_cons_ascii`);
* the first byte of a non-ASCII character is `≥ 128` (`encode_cons_big`);
* the digit run of the bytes is as long as the digit run of the characters (`dlB_encode`);
* dropping `n` bytes is dropping `n` characters when these are ASCII (`drop_encode_ascii`, `drop_encode_digitsLen`);
* a byte-level mantissa scan `mantB` and exponent scan `expB`, written in the shape of the Rust code, agree with
  `StrNum.mantScan` and `StrNum.expScan` on encodings (`mantB_encode`, `expB_encode`, `drop_encode_mant`).
-/
namespace JL.Lemmas.TieI
open JL JL.JsOp JL.Spec.Utf8 JL.Lemmas.Utf8 JL.Lemmas.StrNum

/-! ## one character -/

theorem encodeChar_ascii (c : Char) (h : c.toNat < 128) : encodeChar c = [c.toNat] := by
  have h' : c.val.toNat < 128 := h
  simp only [encodeChar, encodeNat]
  rw [if_pos h']
  rfl

theorem encode_cons_ascii (c : Char) (s : Str) (h : c.toNat < 128) : encode (c :: s) = c.toNat :: encode s := by
  rw [encode_cons, encodeChar_ascii c h]; rfl

/-- every byte of the encoding of a non-ASCII character is `≥ 128` -/
theorem encodeChar_big (c : Char) (h : ¬ c.toNat < 128) : ∀ b ∈ encodeChar c, 128 ≤ b := by
  have h' : ¬ c.val.toNat < 128 := h
  unfold encodeChar
  rcases encodeNat_cases c.val.toNat with ⟨h1, e⟩ | ⟨h1, h2, e⟩ | ⟨h1, h2, e⟩ | ⟨h1, e⟩ <;> rw [e] <;>
    simp only [List.mem_cons, List.not_mem_nil, or_false, forall_eq_or_imp, forall_eq] <;> omega

theorem encode_cons_big (c : Char) (s : Str) (h : ¬ c.toNat < 128) :
    ∃ b r, encode (c :: s) = b :: r ∧ 128 ≤ b := by
  obtain ⟨l, cs, e, -⟩ := encodeChar_shape c
  refine ⟨l, cs ++ encode s, by rw [encode_cons, e]; rfl, ?_⟩
  exact encodeChar_big c h l (by rw [e]; exact List.mem_cons_self)

/-- a character is determined by its code -/
theorem char_of_toNat (c d : Char) (h : c.toNat = d.toNat) : c = d := by
  apply Char.ext
  apply UInt32.toNat_inj.mp
  exact h

/-! ## digit runs -/

/-- `u8::is_ascii_digit` -/
def isDigB (b : Nat) : Bool := decide (48 ≤ b) && decide (b ≤ 57)

/-- number of leading digit bytes -/
def dlB (bs : List Nat) : Nat := (bs.takeWhile isDigB).length

theorem isDigB_toNat (c : Char) : isDigB c.toNat = isDigit c := by
  have := isDigit_iff c
  cases h : isDigit c
  · simp only [isDigB, Bool.and_eq_false_iff, decide_eq_false_iff_not]
    simp only [h, Bool.false_eq_true, false_iff] at this
    omega
  · simp only [isDigB, Bool.and_eq_true, decide_eq_true_eq]
    exact this.mp h

theorem isDigB_big (b : Nat) (h : 128 ≤ b) : isDigB b = false := by
  simp only [isDigB, Bool.and_eq_false_iff, decide_eq_false_iff_not]; omega

theorem digit_ascii' (c : Char) (h : ¬ c.toNat < 128) : isDigit c = false := by
  cases h' : isDigit c
  · rfl
  · exact absurd (TieA.digit_ascii c h') h

@[simp] theorem dlB_nil : dlB [] = 0 := rfl

theorem dlB_cons_pos (b : Nat) (bs : List Nat) (h : isDigB b = true) : dlB (b :: bs) = dlB bs + 1 := by
  simp [dlB, h]

theorem dlB_cons_neg (b : Nat) (bs : List Nat) (h : isDigB b = false) : dlB (b :: bs) = 0 := by
  simp [dlB, h]

@[simp] theorem digitsLen_nil : digitsLen [] = 0 := rfl

theorem digitsLen_cons_pos (c : Char) (s : Str) (h : isDigit c = true) : digitsLen (c :: s) = digitsLen s + 1 := by
  simp [digitsLen, h]

theorem digitsLen_cons_neg (c : Char) (s : Str) (h : isDigit c = false) : digitsLen (c :: s) = 0 := by
  simp [digitsLen, h]

/-- (a) the digit run of the bytes is as long as the digit run of the characters -/
theorem dlB_encode : ∀ s : Str, dlB (encode s) = digitsLen s
  | [] => rfl
  | c :: s => by
    by_cases hc : c.toNat < 128
    · rw [encode_cons_ascii c s hc]
      cases hd : isDigit c
      · rw [dlB_cons_neg _ _ (by rw [isDigB_toNat, hd]), digitsLen_cons_neg _ _ hd]
      · rw [dlB_cons_pos _ _ (by rw [isDigB_toNat, hd]), digitsLen_cons_pos _ _ hd, dlB_encode s]
    · obtain ⟨b, r, e, hb⟩ := encode_cons_big c s hc
      rw [e, dlB_cons_neg _ _ (isDigB_big b hb), digitsLen_cons_neg _ _ (digit_ascii' c hc)]

/-! ## dropping bytes -/

/-- (b) dropping `n` bytes is dropping `n` characters when the first `n` characters are ASCII -/
theorem drop_encode_ascii : ∀ (n : Nat) (s : Str), (∀ c ∈ s.take n, c.toNat < 128) →
    (encode s).drop n = encode (s.drop n)
  | 0, _, _ => rfl
  | _ + 1, [], _ => rfl
  | n + 1, c :: s, h => by
    have hc : c.toNat < 128 := h c (by simp)
    rw [encode_cons_ascii c s hc, List.drop_succ_cons, List.drop_succ_cons]
    exact drop_encode_ascii n s (fun d hd => h d (by simp [hd]))

theorem take_digitsLen (s : Str) : s.take (digitsLen s) = s.takeWhile isDigit := by
  unfold digitsLen
  induction s with
  | nil => rfl
  | cons c cs ih => cases h : isDigit c <;> simp [h, ih]

theorem drop_encode_digitsLen (s : Str) : (encode s).drop (digitsLen s) = encode (s.drop (digitsLen s)) := by
  apply drop_encode_ascii
  rw [take_digitsLen]
  intro c hc
  exact TieA.digit_ascii c (mem_takeWhile_digit s c hc)

/-! ## the scans of `decimal_literal_len` on bytes -/

/-- mantissa scan on bytes: (number of mantissa digits, end of the mantissa) -/
def mantB (B : List Nat) : Nat × Nat :=
  if (B.drop (dlB B))[0]? = some 46 then
    if dlB B + dlB (B.drop (dlB B + 1)) > 0 then
      (dlB B + dlB (B.drop (dlB B + 1)), dlB B + 1 + dlB (B.drop (dlB B + 1)))
    else (dlB B + dlB (B.drop (dlB B + 1)), dlB B)
  else (dlB B, dlB B)

/-- exponent scan on bytes: length of the exponent part at the head of `B`, 0 if there is none -/
def expB (B : List Nat) : Nat :=
  if B[0]? = some 101 ∨ B[0]? = some 69 then
    if B[1]? = some 43 ∨ B[1]? = some 45 then
      if dlB (B.drop 2) > 0 then 2 + dlB (B.drop 2) else 0
    else
      if dlB (B.drop 1) > 0 then 1 + dlB (B.drop 1) else 0
  else 0

theorem head_ascii (c : Char) (s : Str) (h : c.toNat < 128) (b : Nat) :
    (encode (c :: s))[0]? = some b ↔ c.toNat = b := by
  rw [encode_cons_ascii c s h]; simp

theorem head_big (c : Char) (s : Str) (h : ¬ c.toNat < 128) (b : Nat) (hb : b < 128) :
    (encode (c :: s))[0]? ≠ some b := by
  obtain ⟨x, r, e, hx⟩ := encode_cons_big c s h
  rw [e]; simp; omega

/-- (c) the first byte is the ASCII code `b` exactly when the first character is that ASCII character -/
theorem head_eq_iff (t : Str) (d : Char) (hd : d.toNat < 128) :
    (encode t)[0]? = some d.toNat ↔ ∃ r, t = d :: r := by
  cases t with
  | nil => simp
  | cons c r =>
    by_cases hc : c.toNat < 128
    · rw [head_ascii c r hc]
      constructor
      · intro h; exact ⟨r, by rw [char_of_toNat c d h]⟩
      · rintro ⟨r', h⟩; rw [(List.cons.inj h).1]
    · constructor
      · intro h; exact absurd h (head_big c r hc _ hd)
      · rintro ⟨r', h⟩; rw [(List.cons.inj h).1] at hc; exact absurd hd hc

theorem head_dot (t : Str) : (encode t)[0]? = some 46 ↔ ∃ r, t = '.' :: r := head_eq_iff t '.' (by decide)

theorem mantB_encode (s : Str) : mantB (encode s) = mantScan s := by
  unfold mantB mantScan
  rw [dlB_encode, drop_encode_digitsLen]
  by_cases h : ∃ fr, s.drop (digitsLen s) = '.' :: fr
  · obtain ⟨fr, hfr⟩ := h
    rw [if_pos ((head_dot _).mpr ⟨fr, hfr⟩)]
    have hd : (encode s).drop (digitsLen s + 1) = encode fr := by
      rw [← List.drop_drop, drop_encode_digitsLen, hfr, encode_cons_ascii _ _ (by decide)]
      rfl
    rw [hd, dlB_encode, hfr]
    rfl
  · rw [if_neg (fun hh => h ((head_dot _).mp hh))]
    split
    · rename_i fr hfr; exact absurd ⟨fr, hfr⟩ h
    · rfl

/-- the mantissa is made of ASCII characters: byte offsets are character offsets up to its end -/
theorem drop_encode_mant (s : Str) : (encode s).drop (mantScan s).2 = encode (s.drop (mantScan s).2) := by
  unfold mantScan
  split
  · rename_i fr hfr
    split
    · rw [← List.drop_drop, ← List.drop_drop, ← List.drop_drop, ← List.drop_drop, drop_encode_digitsLen, hfr,
        encode_cons_ascii _ _ (by decide)]
      simp only [List.drop_succ_cons, List.drop_zero]
      exact drop_encode_digitsLen fr
    · exact drop_encode_digitsLen s
  · exact drop_encode_digitsLen s

theorem expB_cons (b : Nat) (B : List Nat) : expB (b :: B) =
    if b = 101 ∨ b = 69 then
      if B[0]? = some 43 ∨ B[0]? = some 45 then
        if dlB (B.drop 1) > 0 then 2 + dlB (B.drop 1) else 0
      else
        if dlB B > 0 then 1 + dlB B else 0
    else 0 := by
  simp [expB]

theorem expB_encode (t : Str) : expB (encode t) = expScan t := by
  cases t with
  | nil => simp [expB, expScan]
  | cons e rest =>
    simp only [expScan]
    by_cases he : e = 'e' ∨ e = 'E'
    · have hb : e.toNat = 101 ∨ e.toNat = 69 := by rcases he with rfl | rfl <;> decide
      have hascii : e.toNat < 128 := by omega
      have hE : (e == 'e' || e == 'E') = true := by rcases he with rfl | rfl <;> decide
      rw [encode_cons_ascii e rest hascii, expB_cons, if_pos hb]
      simp only [hE, if_true]
      cases rest with
      | nil => simp
      | cons sgn r =>
        by_cases hs : sgn = '+' ∨ sgn = '-'
        · have hS : (sgn == '+' || sgn == '-') = true := by rcases hs with rfl | rfl <;> decide
          have hsb : sgn.toNat = 43 ∨ sgn.toNat = 45 := by rcases hs with rfl | rfl <;> decide
          have h0 : (encode (sgn :: r))[0]? = some 43 ∨ (encode (sgn :: r))[0]? = some 45 := by
            rw [encode_cons_ascii sgn r (by omega)]
            rcases hsb with h | h <;> simp [h]
          have hdrop : (encode (sgn :: r)).drop 1 = encode r := by
            rw [encode_cons_ascii sgn r (by omega)]; rfl
          rw [if_pos h0, hdrop, dlB_encode]
          simp only [hS, if_true]
        · have hS : (sgn == '+' || sgn == '-') = false := by
            simp only [Bool.or_eq_false_iff, beq_eq_false_iff_ne]
            exact ⟨fun h => hs (.inl h), fun h => hs (.inr h)⟩
          have h0 : ¬ ((encode (sgn :: r))[0]? = some 43 ∨ (encode (sgn :: r))[0]? = some 45) := by
            rintro (h | h)
            · obtain ⟨r', h'⟩ := (head_eq_iff _ '+' (by decide)).mp h
              exact hs (.inl (List.cons.inj h').1)
            · obtain ⟨r', h'⟩ := (head_eq_iff _ '-' (by decide)).mp h
              exact hs (.inr (List.cons.inj h').1)
          rw [if_neg h0, dlB_encode]
          simp only [hS, Bool.false_eq_true, if_false]
    · have hE : (e == 'e' || e == 'E') = false := by
        simp only [Bool.or_eq_false_iff, beq_eq_false_iff_ne]
        exact ⟨fun h => he (.inl h), fun h => he (.inr h)⟩
      have h0 : ¬ ((encode (e :: rest))[0]? = some 101 ∨ (encode (e :: rest))[0]? = some 69) := by
        rintro (h | h)
        · obtain ⟨r', h'⟩ := (head_eq_iff _ 'e' (by decide)).mp h
          exact he (.inl (List.cons.inj h').1)
        · obtain ⟨r', h'⟩ := (head_eq_iff _ 'E' (by decide)).mp h
          exact he (.inr (List.cons.inj h').1)
      simp only [hE, Bool.false_eq_true, if_false]
      unfold expB
      rw [if_neg h0]

/-- Rust's `bytes.get(i) == Some(&b)` -/
theorem eq_some_nat (a : Option Nat) (b : Nat) : Rs.eq a (some b) = decide (a = some b) := by
  rw [Bool.eq_iff_iff]; cases a <;> simp [rs]

/-- `decimal_literal_len` on bytes -/
def scanB (B : List Nat) : Nat :=
  if (mantB B).1 = 0 then 0 else (mantB B).2 + expB (B.drop (mantB B).2)

/-- the byte-level scan of the encoding is the model's character-level scan -/
theorem scanB_encode (s : Str) : scanB (encode s) = decimalLiteralLen s := by
  rw [decimalLiteralLen_eq, scanB, mantB_encode, drop_encode_mant, expB_encode]

end JL.Lemmas.TieI
