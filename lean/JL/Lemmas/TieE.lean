import JL.Generated.Fns
import JL.Lemmas.C13
import JL.Lemmas.C14
/-!
# Helper lemmas for the tie theorems of `src/op/array.rs` (`map`, `filter`, `reduce`, `all`, `some`, `none`)

General facts about the prelude `JL/Rs.lean` in the outcome monad `M`:
* `?` (`Rs.try_`), `Parsed::from_value`, `args[i]`, `Result::map`, `Result::and_then` as `>>=` / `if check`;
* the strict fold `Rs.foldM` whose step starts by `acc?` / `acc.and_then(..)` is `acc >>= List.foldlM`;
* `collect::<Result<Vec<_>,_>>()` of a mapped iterator is the model's `mapData`;
and the model's loops (`filterData`, `reduceData`, `quantData`, `runQuantLit`) as `List.foldlM`s.
-/
namespace JL.Lemmas.TieE
open JL

/-! ## the prelude in `M` -/

theorem try_M {α β} (x : M α) (k : α → M β) : Rs.try_ x k = x >>= k := rfl
theorem and_then_M {α β} (x : M α) (k : α → M β) : Rs.and_then x k = x >>= k := rfl
theorem map_M {α β} (x : M α) (f : α → β) : Rs.map x f = x >>= fun a => pure (f a) := rfl
theorem map_list {α β} (x : List α) (f : α → β) : Rs.map x f = List.map f x := rfl

/-- `Parsed::from_value(x)?` followed by the rest: the rest runs on the rule text iff `check` accepts it -/
theorem try_parsed {β} (x : Json) (k : Rs.Parsed → M β) :
    Rs.try_ (Rs.parsed_from_value x) k = if check x then k ⟨x⟩ else M.err := by
  simp only [Rs.try_, Rs.RTry.try_, Rs.parsed_from_value]
  cases check x <;> simp [M.bind, pure, M.pure, M.err]

theorem index0 {α} [Inhabited α] (a : α) (l : List α) : Rs.index (a :: l) 0 = a := rfl
theorem index1 {α} [Inhabited α] (a b : α) (l : List α) : Rs.index (a :: b :: l) 1 = b := rfl
theorem index2 {α} [Inhabited α] (a b c : α) (l : List α) : Rs.index (a :: b :: c :: l) 2 = c := rfl

theorem two_le {α} (xs : List α) (h : 2 ≤ xs.length) : ∃ c e rest, xs = c :: e :: rest := by
  match xs, h with
  | c :: e :: rest, _ => exact ⟨c, e, rest, rfl⟩
theorem three_le {α} (xs : List α) (h : 3 ≤ xs.length) : ∃ c e i rest, xs = c :: e :: i :: rest := by
  match xs, h with
  | c :: e :: i :: rest, _ => exact ⟨c, e, i, rest, rfl⟩

/-- `let x = e;` on a non-`Result` value is a plain `let` -/
theorem strict_plain {τ β} (e : τ) (k : τ → M β) : @Rs.strict τ (@Rs.instRStrict τ) β e k = k e := rfl

/-! ## `Rs.foldM` -/

theorem settled_mk {α} (l : List Json) (o : Out α) : Rs.settled (⟨l, o⟩ : M α) = ⟨[], o⟩ := rfl

theorem mk_bind {α β} (l : List Json) (o : Out α) (k : α → M β) :
    ((⟨l, o⟩ : M α) >>= k) = ⟨l ++ ((⟨[], o⟩ : M α) >>= k).logs, ((⟨[], o⟩ : M α) >>= k).out⟩ := by
  cases o <;> simp

/-- a strict fold whose step begins with `acc?` (or `acc.and_then`) is the monadic left fold started after `acc` -/
theorem foldM_bind {α β} (g : β → α → M β) : ∀ (xs : List α) (acc : M β),
    Rs.foldM xs acc (fun acc x => acc >>= fun a => g a x) = acc >>= fun a => xs.foldlM g a
  | [], acc => by
    simp only [Rs.foldM, List.foldlM_nil]
    exact (M.bind_pure acc).symm
  | x :: xs, acc => by
    simp only [Rs.foldM, List.foldlM_cons]
    rw [foldM_bind g xs]
    cases acc with | mk l o =>
    rw [settled_mk, mk_bind l o]
    cases o with
    | ok a => simp
    | err => simp
    | panic => simp

/-! ## `collect` -/

theorem collect_map {α} (f : α → M Json) : ∀ xs : List α, Rs.collect_result (Rs.map xs f) = xs.mapM f
  | [] => rfl
  | x :: xs => by
    have ih := collect_map f xs
    rw [map_list] at ih ⊢
    have ih' : Rs.collectM (List.map f xs) = xs.mapM f := by simpa [rs] using ih
    simp only [rs, List.map_cons, Rs.collectM, ih', List.mapM_cons]
    rfl

theorem collect_map_data (f : Json → M Json) (xs : List Json) : Rs.collect_result (Rs.map xs f) = mapData f xs := by
  rw [collect_map, mapData_eq_mapM]

/-! ## the context object of `reduce` -/

/-- inserting `"current"` and then `"accumulator"` into an empty sorted map gives the model's context object -/
theorem insert_ctx (a x : Json) :
    Json.obj (Rs.insert_ (Rs.insert_ (Rs.new_ ()) "current".toList x) "accumulator".toList a) = reduceCtx a x := by
  simp only [Rs.new_, Rs.insert_]
  rw [if_neg (by decide), if_pos (by decide)]
  rfl

/-! ## the model's loops as monadic left folds -/

/-- the fold of `filter`: pushing the kept elements onto an accumulator is `filterData` appended to it -/
theorem filter_foldlM (f : Json → M Json) (g : List Json → Json → M (List Json))
    (hg : ∀ acc x, g acc x = f x >>= fun p => pure (if truthy p then acc ++ [x] else acc)) :
    ∀ (xs acc : List Json), xs.foldlM g acc = filterData f xs >>= fun ys => pure (acc ++ ys)
  | [], acc => by simp [filterData_nil]
  | x :: xs, acc => by
    rw [List.foldlM_cons, hg, filterData_cons, M.bind_assoc, M.bind_assoc]
    congr 1; funext p
    rw [M.pure_bind, filter_foldlM f g hg xs, M.bind_assoc]
    congr 1; funext ys
    cases truthy p <;> simp

/-- the fold of `all` / `some` over data items -/
theorem quant_foldlM (isAll : Bool) (p : Json → M Json) (g : Bool → Json → M Bool)
    (hg : ∀ res i, g res i = if (res != isAll) = true then pure res else p i >>= fun r => pure (truthy r)) :
    ∀ (xs : List Json) (res : Bool), xs.foldlM g res = quantData isAll p xs res
  | [], res => rfl
  | x :: xs, res => by
    rw [List.foldlM_cons, hg, quantData]
    split
    · rw [M.pure_bind, quant_foldlM isAll p g hg xs]
    · rw [M.bind_assoc]
      congr 1; funext r
      rw [M.pure_bind, quant_foldlM isAll p g hg xs]

/-- the fold of `all` / `some` over the element expressions of a literal array -/
theorem quantLit_foldlM (isAll : Bool) (p : Json → M Json) (d : Json) (g : Bool → Json → M Bool)
    (hg : ∀ res i, g res i = if (res != isAll) = true then pure res else
      if check i then run i d >>= fun iv => p iv >>= fun r => pure (truthy r) else M.err) :
    ∀ (xs : List Json) (res : Bool), xs.foldlM g res = runQuantLit isAll xs p d res
  | [], res => by unfold runQuantLit; rfl
  | x :: xs, res => by
    rw [List.foldlM_cons, hg]
    conv => rhs; unfold runQuantLit
    split
    · rw [M.pure_bind, quantLit_foldlM isAll p d g hg xs]
    · cases hc : check x
      · simp
      · simp only [if_true, Bool.not_true, Bool.false_eq_true, if_false]
        rw [M.bind_assoc]
        congr 1; funext iv
        rw [M.bind_assoc]
        congr 1; funext r
        rw [M.pure_bind, quantLit_foldlM isAll p d g hg xs]

end JL.Lemmas.TieE
