import JL.Lemmas.Monad
/-!
# Lemmas for C03: the evaluation phase treats `{op: x}` (x not an array) exactly as `{op: [x]}`

Organised by operator kind; none of these needs to know *which* operator `k` is beyond the table it lives in,
so they hold for every entry of the regenerated tables (and for any entry added later).
-/
namespace JL.Lemmas.C03
open JL Json

/-- evaluating a one-element operand list = evaluating the element and wrapping it -/
theorem runList_single (x d : Json) : runList [x] d = (do let r ← run x d; pure [r]) := by
  simp only [runList]
  congr 1

/-- eager operators: the unbracketed operand is evaluated and wrapped into the same one-element `items` -/
theorem run_sugar_eager (k : Str) (ar : Arity) (x d : Json) (hx : ∀ xs, x ≠ .arr xs)
    (h : lookupOp k = some (.eager, ar)) :
    run (.obj [(k, x)]) d = run (.obj [(k, .arr [x])]) d := by
  conv => lhs; unfold run
  conv => rhs; unfold run
  simp only [h, runList_single]

/-- data operators: same -/
theorem run_sugar_data (k : Str) (ar : Arity) (x d : Json) (hx : ∀ xs, x ≠ .arr xs)
    (h : lookupOp k = some (.data, ar)) :
    run (.obj [(k, x)]) d = run (.obj [(k, .arr [x])]) d := by
  conv => lhs; unfold run
  conv => rhs; unfold run
  simp only [h, runList_single]

/-- `or`/`and` of the one-element list `[x]`: the fold evaluates `x` once and the extracted value is that of `x`
(`g` is the extraction `Truthy(v) | Falsey(v) | Current(v) ↦ v` of `logic::or`/`logic::and`) -/
theorem orAnd_single (isOr : Bool) (x d : Json) (g : OrState → M Json)
    (h1 : ∀ r, g (.decided r) = pure r) (h2 : ∀ r, g (.current r) = pure r) :
    (runOrAnd isOr [x] .uninit d >>= g) = (if check x then run x d else M.err) := by
  simp only [runOrAnd]
  split
  · rw [M.bind_assoc]
    conv => rhs; rw [← M.bind_pure (run x d)]
    congr 1
    funext e
    split <;> simp [h1, h2]
  · simp

/-- lazy operators: `if`/`?:` take the same branch text for `x` and `[x]`; `or`/`and` by `orAnd_single`;
`map filter reduce all some none` never get here with one operand (both forms were rejected by `check`; the
model's `run` answers `panic` for both, i.e. equal); any other lazy key is `err` for both. -/
theorem run_sugar_lazy (k : Str) (ar : Arity) (x d : Json) (hx : ∀ xs, x ≠ .arr xs)
    (h : lookupOp k = some (.lazy, ar)) :
    run (.obj [(k, x)]) d = run (.obj [(k, .arr [x])]) d := by
  conv => lhs; unfold run
  conv => rhs; unfold run
  simp only [h]
  cases x with
  | arr xs => exact absurd rfl (hx xs)
  | _ =>
    dsimp only
    rw [orAnd_single true _ _ _ (fun _ => rfl) (fun _ => rfl), orAnd_single false _ _ _ (fun _ => rfl) (fun _ => rfl)]

/-- evaluation phase: for every recognised key, whatever its table -/
theorem run_sugar (k : Str) (x d : Json) (hx : ∀ xs, x ≠ .arr xs) (hk : (lookupOp k).isSome = true) :
    run (.obj [(k, x)]) d = run (.obj [(k, .arr [x])]) d := by
  cases h : lookupOp k with
  | none => simp [h] at hk
  | some p =>
    obtain ⟨kind, ar⟩ := p
    cases kind with
    | eager => exact run_sugar_eager k ar x d hx h
    | lazy => exact run_sugar_lazy k ar x d hx h
    | data => exact run_sugar_data k ar x d hx h

end JL.Lemmas.C03
