import JL.Lemmas.Monad
import JL.Spec.Arith
/-!
# Lemmas for C10 — IEEE facts on the scaled-natural doubles, the narrowing conditions, folds
-/
namespace JL
namespace F64

set_option exponentiation.threshold 1100 in
theorem S_pos : 0 < S := by unfold S; exact Nat.pow_pos (by decide)
theorem S_ne_zero : S ≠ 0 := Nat.ne_of_gt S_pos
theorem S_posI : (0 : Int) < (S : Int) := Int.natCast_pos.mpr S_pos

/-- `units` is the model's `toInt?` -/
theorem units_eq_toInt? (x : F64) : x.units = x.toInt? := by
  cases x with
  | nan => rfl
  | inf a => rfl
  | fin a k => cases a <;> simp [units, toInt?]

theorem units_isSome (x : F64) : x.units.isSome = x.isFinite := by
  cases x with
  | nan => rfl
  | inf a => rfl
  | fin a k => cases a <;> rfl

/-! ## commutativity -/

theorem add_comm (x y : F64) : add x y = add y x := by
  cases x <;> cases y <;> simp [add]
  · rename_i a b; cases a <;> cases b <;> simp
  · rename_i a x b y
    by_cases hab : a = b
    · subst hab; simp [Nat.add_comm]
    · have hba : ¬ b = a := fun h => hab h.symm
      simp [hab, hba]
      by_cases hxy : x = y
      · subst hxy; simp
      · have hyx : ¬ y = x := fun h => hxy h.symm
        simp [hxy, hyx]
        by_cases hlt : y < x
        · have : ¬ x < y := by omega
          simp [hlt, this]
        · have : x < y := by omega
          simp [hlt, this]

theorem mul_comm (x y : F64) : mul x y = mul y x := by
  cases x <;> cases y <;> simp [mul, Nat.mul_comm, Bool.xor_comm]
  all_goals (rename_i a b; cases a <;> cases b <;> simp)

/-! ## the grid: `roundUnits` always lands on it, so every operation returns a well-formed double -/

theorem bitLen_le_iff (n b : Nat) : bitLen n ≤ b ↔ n < 2 ^ b := by
  unfold bitLen
  split
  · rename_i h; subst h; simp [Nat.pow_pos]
  · rename_i h
    rw [← Nat.log2_lt h]; omega

theorem bitLen_two_pow (n : Nat) : bitLen (2 ^ n) = n + 1 := by
  have : 2 ^ n ≠ 0 := Nat.ne_of_gt (Nat.pow_pos (by decide))
  simp [bitLen, Nat.log2_two_pow]

theorem grid_mul_pow (m sh : Nat) (hm : m ≤ 2 ^ 53) :
    bitLen (m * 2 ^ sh) ≤ 53 ∨ 2 ^ (bitLen (m * 2 ^ sh) - 53) ∣ m * 2 ^ sh := by
  right
  by_cases h : m = 2 ^ 53
  · subst h
    rw [← Nat.pow_add, bitLen_two_pow]
    exact Nat.pow_dvd_pow 2 (by omega)
  · have h1 : m < 2 ^ 53 := by omega
    have h2 : m * 2 ^ sh < 2 ^ (53 + sh) := by
      rw [Nat.pow_add]; exact Nat.mul_lt_mul_of_pos_right h1 (Nat.pow_pos (by decide))
    have h3 : bitLen (m * 2 ^ sh) ≤ 53 + sh := (bitLen_le_iff _ _).mpr h2
    exact Nat.dvd_trans (Nat.pow_dvd_pow 2 (by omega)) (Nat.dvd_mul_left _ _)

/-- the rounded magnitude computed by `roundUnits`, before the overflow test -/
def roundK (num den : Nat) : Nat :=
  let q := num / den
  let r := num % den
  let L := bitLen q
  if L ≤ 53 then
    let up := (2 * r > den) || (2 * r == den && q % 2 == 1)
    if up then q + 1 else q
  else
    let sh := L - 53
    let m := q >>> sh
    let rem := q % (2 ^ sh)
    let half := 2 ^ (sh - 1)
    let up := (rem > half) || (rem == half && (r != 0 || m % 2 == 1))
    (if up then m + 1 else m) <<< sh

theorem roundUnits_eq (neg : Bool) (num den : Nat) :
    roundUnits neg num den = if roundK num den ≥ OVF then inf neg else fin neg (roundK num den) := rfl

theorem roundK_grid (num den : Nat) :
    bitLen (roundK num den) ≤ 53 ∨ 2 ^ (bitLen (roundK num den) - 53) ∣ roundK num den := by
  unfold roundK
  by_cases hL : bitLen (num / den) ≤ 53
  · have hq : num / den < 2 ^ 53 := (bitLen_le_iff _ _).mp hL
    simp only [hL, if_true]
    have := grid_mul_pow (if ((2 * (num % den) > den) || (2 * (num % den) == den && num / den % 2 == 1)) = true then num / den + 1 else num / den) 0 (by split <;> omega)
    simpa using this
  · simp only [hL, if_false, Nat.shiftLeft_eq, Nat.shiftRight_eq_div_pow]
    apply grid_mul_pow
    have hq : num / den < 2 ^ (bitLen (num / den)) := (bitLen_le_iff _ _).mp (Nat.le_refl _)
    have hm : num / den / 2 ^ (bitLen (num / den) - 53) < 2 ^ 53 := by
      apply Nat.div_lt_of_lt_mul
      rw [← Nat.pow_add]
      have : bitLen (num / den) - 53 + 53 = bitLen (num / den) := by omega
      rw [this]; exact hq
    split <;> omega

set_option exponentiation.threshold 2100 in
theorem roundUnits_WF (neg : Bool) (num den : Nat) : WF (roundUnits neg num den) := by
  rw [roundUnits_eq]
  by_cases h : roundK num den ≥ OVF
  · rw [if_pos h]; trivial
  · rw [if_neg h]; exact ⟨by omega, roundK_grid num den⟩

set_option exponentiation.threshold 2100 in
theorem onGrid_zero : OnGrid 0 := by
  refine ⟨?_, Or.inl ?_⟩
  · unfold OVF; exact Nat.pow_pos (by decide)
  · simp [bitLen]

theorem WF_nan : WF nan := True.intro
theorem WF_inf (a : Bool) : WF (inf a) := True.intro
theorem WF_zero (a : Bool) : WF (fin a 0) := onGrid_zero

set_option exponentiation.threshold 2100 in
theorem onGrid_two_pow (n : Nat) (h : n < 2098) : OnGrid (2 ^ n) := by
  refine ⟨?_, Or.inr ?_⟩
  · unfold OVF; exact Nat.pow_lt_pow_right (by decide) h
  · rw [bitLen_two_pow]; exact Nat.pow_dvd_pow 2 (by omega)

set_option exponentiation.threshold 2100 in
theorem WF_one : WF one := by
  show OnGrid S
  unfold S; exact onGrid_two_pow _ (by decide)

theorem add_WF (x y : F64) : WF (add x y) := by
  cases x <;> cases y <;> simp only [add] <;>
    repeat' split
  all_goals first | with_reducible exact WF_nan | with_reducible exact WF_inf _ | with_reducible exact WF_zero _ | with_reducible exact roundUnits_WF _ _ _

theorem negate_WF (x : F64) (h : WF x) : WF (negate x) := by
  cases x <;> first | with_reducible exact WF_nan | with_reducible exact WF_inf _ | exact h

theorem sub_WF (x y : F64) : WF (sub x y) := add_WF _ _

theorem mul_WF (x y : F64) : WF (mul x y) := by
  cases x <;> cases y <;> simp only [mul] <;>
    repeat' split
  all_goals first | with_reducible exact WF_nan | with_reducible exact WF_inf _ | with_reducible exact WF_zero _ | with_reducible exact roundUnits_WF _ _ _

theorem div_WF (x y : F64) : WF (div x y) := by
  cases x <;> cases y <;> simp only [div] <;>
    repeat' split
  all_goals first | with_reducible exact WF_nan | with_reducible exact WF_inf _ | with_reducible exact WF_zero _ | with_reducible exact roundUnits_WF _ _ _

theorem ofNat_WF (n : Nat) : WF (ofNat n) := by unfold ofNat; with_reducible exact roundUnits_WF _ _ _
theorem ofInt_WF (i : Int) : WF (ofInt i) := by unfold ofInt; with_reducible exact roundUnits_WF _ _ _

theorem ofDecimal_WF (neg : Bool) (d : Nat) (e : Int) : WF (ofDecimal neg d e) := by
  unfold ofDecimal
  split
  · exact WF_zero _
  simp only []
  repeat' split
  all_goals first | with_reducible exact WF_nan | with_reducible exact WF_inf _ | with_reducible exact WF_zero _ | with_reducible exact roundUnits_WF _ _ _
theorem bitLen_mono {a b : Nat} (h : a ≤ b) : bitLen a ≤ bitLen b :=
  (bitLen_le_iff _ _).mpr (Nat.lt_of_le_of_lt h ((bitLen_le_iff _ _).mp (Nat.le_refl _)))

theorem grid_iff (k : Nat) : (bitLen k ≤ 53 ∨ 2 ^ (bitLen k - 53) ∣ k) ↔ 2 ^ (bitLen k - 53) ∣ k := by
  constructor
  · rintro (h | h)
    · have : bitLen k - 53 = 0 := by omega
      rw [this]; exact Nat.one_dvd _
    · exact h
  · exact Or.inr

theorem onGrid_mod {x y : Nat} (hx : OnGrid x) (hy : OnGrid y) (hy0 : y ≠ 0) : OnGrid (x % y) := by
  have hle : x % y ≤ x := Nat.mod_le _ _
  refine ⟨Nat.lt_of_le_of_lt hle hx.1, (grid_iff _).mpr ?_⟩
  by_cases hxy : x < y
  · rw [Nat.mod_eq_of_lt hxy]; exact (grid_iff _).mp hx.2
  · have hyx : y ≤ x := by omega
    have hr : x % y < y := Nat.mod_lt _ (Nat.pos_of_ne_zero hy0)
    have d1 : 2 ^ (bitLen y - 53) ∣ y := (grid_iff _).mp hy.2
    have d2 : 2 ^ (bitLen y - 53) ∣ x :=
      Nat.dvd_trans (Nat.pow_dvd_pow 2 (Nat.sub_le_sub_right (bitLen_mono hyx) 53)) ((grid_iff _).mp hx.2)
    have d3 : 2 ^ (bitLen y - 53) ∣ x % y := (Nat.dvd_mod_iff d1).mpr d2
    exact Nat.dvd_trans (Nat.pow_dvd_pow 2 (Nat.sub_le_sub_right (bitLen_mono (Nat.le_of_lt hr)) 53)) d3

theorem rem_WF (x y : F64) (hx : WF x) (hy : WF y) : WF (rem x y) := by
  cases x with
  | nan => exact True.intro
  | inf a => cases y <;> exact True.intro
  | fin a k =>
    cases y with
    | nan => exact True.intro
    | inf b => exact hx
    | fin b j =>
      simp only [rem]
      split
      · exact True.intro
      · rename_i h
        exact onGrid_mod hx hy (by simpa using h)

/-! ## rounding an exactly representable value changes nothing -/

theorem roundUnits_exact (neg : Bool) (k d : Nat) (hd : 0 < d) (hk : OnGrid k) :
    roundUnits neg (k * d) d = fin neg k := by
  obtain ⟨hovf, hg⟩ := hk
  unfold roundUnits
  simp only [Nat.mul_div_cancel _ hd, Nat.mul_mod_left]
  by_cases hL : bitLen k ≤ 53
  · have : ¬ (0 = d) := by omega
    simp [hL, this]
    omega
  · have h2 : 2 ^ (bitLen k - 53) ∣ k := by
      rcases hg with h | h
      · exact absurd h hL
      · exact h
    have hm : k % 2 ^ (bitLen k - 53) = 0 := Nat.mod_eq_zero_of_dvd h2
    have hhalf : 0 < 2 ^ (bitLen k - 53 - 1) := Nat.pow_pos (by decide)
    have hne : ¬ (0 = 2 ^ (bitLen k - 53 - 1)) := by omega
    simp [hL, hm, hne, Nat.shiftLeft_eq, Nat.shiftRight_eq_div_pow, Nat.div_mul_cancel h2]
    omega

theorem roundUnits_one (neg : Bool) (k : Nat) (hk : OnGrid k) : roundUnits neg k 1 = fin neg k := by
  have := roundUnits_exact neg k 1 (by decide) hk
  rwa [Nat.mul_one] at this

/-- `-1.0 * x` is the sign flip of `x`, for every double (NaN, infinities and both zeros included) -/
theorem neg_one_mul (x : F64) (hx : WF x) : mul (fin true S) x = negate x := by
  cases x with
  | nan => rfl
  | inf a => simp [mul, negate, S_ne_zero]
  | fin a k =>
    simp only [mul, negate]
    rw [Nat.mul_comm, roundUnits_exact _ _ _ S_pos hx]
    cases a <;> rfl

/-- `1.0 * x = x` -/
theorem one_mul (x : F64) (hx : WF x) : mul one x = x := by
  cases x with
  | nan => rfl
  | inf a => simp [mul, one, S_ne_zero]
  | fin a k =>
    simp only [mul, one]
    rw [Nat.mul_comm, roundUnits_exact _ _ _ S_pos hx]
    cases a <;> rfl

theorem mul_one (x : F64) (hx : WF x) : mul x one = x := by rw [mul_comm, one_mul x hx]

/-- `+0 + x = x` except that `+0 + -0 = +0` -/
theorem zero_add (x : F64) (hx : WF x) (h : x ≠ fin true 0) : add zero x = x := by
  cases x with
  | nan => rfl
  | inf a => rfl
  | fin a k =>
    cases a with
    | false => simp [add, zero, roundUnits_one _ _ hx]
    | true =>
      have hk : k ≠ 0 := fun e => h (by rw [e])
      have h1 : ¬ (0 = k) := fun e => hk e.symm
      have h2 : ¬ (0 > k) := by omega
      simp [add, zero, h1, roundUnits_one _ _ hx]

theorem add_zero (x : F64) (hx : WF x) (h : x ≠ fin true 0) : add x zero = x := by
  rw [add_comm, zero_add x hx h]

theorem zero_add_negzero : add zero (fin true 0) = zero := by simp [add, zero]

/-! ## order facts -/

theorem lt_irrefl (x : F64) : lt x x = false := by
  cases x with
  | nan => rfl
  | inf a => cases a <;> rfl
  | fin a k => simp [lt]

theorem lt_trans {a b c : F64} (h1 : lt a b = true) (h2 : lt b c = true) : lt a c = true := by
  cases a <;> cases b <;> cases c <;> simp_all [lt]
  omega

/-- off NaN the order is total: `¬ (x < y)` is `y ≤ x` -/
theorem lt_eq_false_iff_le {x y : F64} (hx : x.isNaN = false) (hy : y.isNaN = false) :
    lt x y = false ↔ le y x = true := by
  cases x <;> cases y <;> simp_all [lt, le, isNaN]
  rename_i a b; cases a <;> cases b <;> simp

/-- Rust `%` (C `fmod`) is the truncated remainder: exact, magnitude `x mod y`, sign of the dividend -/
theorem rem_fin (a b : Bool) (x y : Nat) (hy : y ≠ 0) : rem (fin a x) (fin b y) = fin a (x % y) := by
  simp [rem, hy]

end F64

/-! ## the conversions deliver well-formed doubles -/

theorem Num.toF64_WF (n : Num) (h : Num.WF n) : F64.WF n.toF64 := by
  cases n with
  | pos n => simp only [Num.toF64]; with_reducible exact F64.ofNat_WF _
  | neg m => simp only [Num.toF64]; with_reducible exact F64.ofInt_WF _
  | flt f => exact h.2

namespace JsOp
open F64

theorem rustParseF64_WF (s : Str) (x : F64) (h : rustParseF64 s = some x) : WF x := by
  unfold rustParseF64 at h
  split at h
  rename_i neg es u hs
  simp only [] at h
  split at h
  · cases h; exact WF_inf _
  split at h
  · cases h; exact WF_nan
  repeat' (first
    | (cases h; done)
    | (cases h; with_reducible exact ofDecimal_WF _ _ _)
    | split at h)

theorem radixLiteral_WF (s : Str) (x : F64) (h : radixLiteral s = some (some x)) : WF x := by
  unfold radixLiteral at h
  repeat' (first
    | (cases h; done)
    | (cases h; split <;> first | with_reducible exact WF_inf _ | with_reducible exact mul_WF _ _)
    | split at h
    | simp only [] at h)

theorem strToNumber_WF (s : Str) (x : F64) (h : strToNumber s = some x) : WF x := by
  unfold strToNumber at h
  simp only [] at h
  split at h
  · cases h; exact WF_zero _
  split at h
  · rename_i rv hr; subst h; exact radixLiteral_WF _ _ hr
  · split at h
    · cases h
    · rename_i m hm
      have hmw : WF m := by
        repeat' (first
          | (cases hm; done)
          | (cases hm; with_reducible exact WF_inf _)
          | exact rustParseF64_WF _ _ hm
          | split at hm)
      cases h
      split
      · exact negate_WF _ hmw
      · exact hmw

theorem parseFloatString_WF (s : Str) (x : F64) (h : parseFloatString s = some x) : WF x := by
  unfold parseFloatString at h
  split at h
  rename_i negative unsigned _
  simp only [] at h
  split at h
  · cases h
  · rename_i m hm
    have hmw : WF m := by
      repeat' (first
        | (cases hm; done)
        | (cases hm; with_reducible exact WF_inf _)
        | exact rustParseF64_WF _ _ hm
        | split at hm)
    cases h
    split
    · exact negate_WF _ hmw
    · exact hmw

theorem toNumber_WF (v : Json) (hv : v.wf = true) (x : F64) (h : toNumber v = some x) : WF x := by
  unfold toNumber toPrimitive at h
  cases v with
  | null => simp [toPrimitiveNumber] at h; subst h; exact WF_zero _
  | bool b =>
    simp [toPrimitiveNumber] at h; subst h
    cases b
    · exact WF_zero _
    · exact WF_one
  | num n =>
    simp [toPrimitiveNumber] at h; subst h
    exact Num.toF64_WF n (by simpa [Json.wf] using hv)
  | str s => simp only [toPrimitiveNumber] at h; exact strToNumber_WF _ _ h
  | arr xs => simp only [toPrimitiveNumber] at h; exact strToNumber_WF _ _ h
  | obj kvs => simp only [toPrimitiveNumber] at h; exact strToNumber_WF _ _ h

theorem parseFloat_WF (v : Json) (hv : v.wf = true) (x : F64) (h : parseFloat v = some x) : WF x := by
  cases v with
  | num n =>
    simp [parseFloat] at h; subst h
    exact Num.toF64_WF n (by simpa [Json.wf] using hv)
  | str s => exact parseFloatString_WF _ _ h
  | null => simp only [parseFloat] at h; exact parseFloatString_WF _ _ h
  | bool b => simp only [parseFloat] at h; exact parseFloatString_WF _ _ h
  | arr xs => simp only [parseFloat] at h; exact parseFloatString_WF _ _ h
  | obj kvs => simp only [parseFloat] at h; exact parseFloatString_WF _ _ h
end JsOp

open F64 Spec.Arith

/-! ## narrowing, code side -/

theorem toNumberValue_nonint (neg : Bool) (k : Nat) (h : ¬ S ∣ k) :
    toNumberValue (fin neg k) = some (.num (.flt (fin neg k))) := by
  have h' : ¬ k % S = 0 := fun e => h (Nat.dvd_of_mod_eq_zero e)
  simp [toNumberValue, fractIsZero, h', Num.ofF64?, isFinite]

theorem toNumberValue_posint (q : Nat) :
    toNumberValue (fin false (q * S)) =
      if q < 2 ^ 64 then some (.num (.pos q)) else some (.num (.flt (fin false (q * S)))) := by
  have hS := S_pos
  have e1 : (q * S < 2 ^ 63 * S) = (q < 2 ^ 63) := propext (Nat.mul_lt_mul_right hS)
  have e2 : (q * S < 2 ^ 64 * S) = (q < 2 ^ 64) := propext (Nat.mul_lt_mul_right hS)
  have e3 : (2 ^ 63 * S ≤ q * S) = (2 ^ 63 ≤ q) := propext (Nat.mul_le_mul_right_iff hS)
  have e0 : (-((2 ^ 63 * S : Nat) : Int) ≤ ((q * S : Nat) : Int)) = True := by
    simp only [eq_iff_iff, iff_true]; omega
  simp only [toNumberValue, fractIsZero, ge, le, lt, negate, I64_LIMIT, U64_LIMIT, truncInt,
    Nat.mul_mod_left, Nat.mul_div_cancel _ hS, Num.ofF64?, isFinite]
  simp only [Bool.not_false, ↓reduceIte, Bool.false_eq_true, Int.ofNat_lt, Int.ofNat_le, e0, e1, e2, e3,
    BEq.rfl, Bool.true_and, decide_true, Int.toNat_natCast]
  by_cases h1 : q < 2 ^ 63
  · have : q < 2 ^ 64 := by omega
    have h3 : ¬ ((q : Int) < 0) := by omega
    simp [h1, this, Num.ofI64, h3]
  · by_cases h2 : q < 2 ^ 64
    · have : 2 ^ 63 ≤ q := by omega
      simp [h1, h2, this]
    · simp [h1, h2]

theorem toNumberValue_negint (q : Nat) :
    toNumberValue (fin true (q * S)) =
      if q = 0 then some (.num (.pos 0))
      else if q ≤ 2 ^ 63 then some (.num (.neg q)) else some (.num (.flt (fin true (q * S)))) := by
  have hS := S_pos
  have e3 : (q * S ≤ 2 ^ 63 * S) = (q ≤ 2 ^ 63) := propext (Nat.mul_le_mul_right_iff hS)
  have e0 : (-((q * S : Nat) : Int) < ((2 ^ 63 * S : Nat) : Int)) = True := by
    have : 0 < 2 ^ 63 * S := Nat.mul_pos (by decide) hS
    simp only [eq_iff_iff, iff_true]; omega
  have e1 : (((2 ^ 63 * S : Nat) : Int) ≤ -((q * S : Nat) : Int)) = False := by
    have : 0 < 2 ^ 63 * S := Nat.mul_pos (by decide) hS
    simp only [eq_iff_iff, iff_false]; omega
  simp only [toNumberValue, fractIsZero, ge, le, lt, negate, I64_LIMIT, U64_LIMIT, truncInt,
    Nat.mul_mod_left, Nat.mul_div_cancel _ hS, Num.ofF64?, isFinite]
  simp only [Bool.not_false, ↓reduceIte, Bool.false_eq_true, Int.neg_le_neg_iff, Int.ofNat_le, e0, e1, e3,
    BEq.rfl, Bool.true_and, decide_true, decide_false, Bool.and_false, Bool.false_and, Bool.and_true]
  by_cases h0 : q = 0
  · subst h0; simp [Num.ofI64]
  · by_cases h1 : q ≤ 2 ^ 63
    · simp [h0, h1, Num.ofI64]
    · simp [h0, h1]

/-! ## narrowing, specification side -/

theorem intNum_eq_ofI64 (i : Int) : intNum i = Num.ofI64 i := by
  cases i with
  | ofNat n => simp [intNum, Num.ofI64]
  | negSucc n => simp [intNum, Num.ofI64, Int.negSucc_lt_zero]

theorem narrow_nonint (neg : Bool) (k : Nat) (h : ¬ S ∣ k) :
    narrow (fin neg k) = some (.flt (fin neg k)) := by
  have h1 : ¬ ((S : Int) ∣ (k : Int)) := fun e => h (Int.natCast_dvd_natCast.mp e)
  cases neg <;> simp [narrow, units, h1, Int.dvd_neg]

theorem narrow_posint (q : Nat) :
    narrow (fin false (q * S)) =
      if q < 2 ^ 64 then some (.pos q) else some (.flt (fin false (q * S))) := by
  have hS : (S : Int) ≠ 0 := Int.ne_of_gt S_posI
  have e : ((q * S : Nat) : Int) / (S : Int) = q := by
    rw [Int.natCast_mul]; exact Int.mul_ediv_cancel _ hS
  have d : (S : Int) ∣ ((q * S : Nat) : Int) := by rw [Int.natCast_mul]; exact Int.dvd_mul_left _ _
  simp only [narrow, units, e, d, true_and, Fits64]
  have : -(2 ^ 63 : Int) ≤ (q : Int) := by omega
  by_cases h : q < 2 ^ 64
  · have h' : (q : Int) < 2 ^ 64 := by omega
    rw [if_pos ⟨this, h'⟩, if_pos h]; rfl
  · have h' : ¬ (q : Int) < 2 ^ 64 := by omega
    rw [if_neg (fun c => h' c.2), if_neg h]

theorem narrow_negint (q : Nat) :
    narrow (fin true (q * S)) =
      if q = 0 then some (.pos 0)
      else if q ≤ 2 ^ 63 then some (.neg q) else some (.flt (fin true (q * S))) := by
  have hS : (S : Int) ≠ 0 := Int.ne_of_gt S_posI
  have e : -((q * S : Nat) : Int) / (S : Int) = -(q : Int) := by
    rw [Int.natCast_mul, ← Int.neg_mul]; exact Int.mul_ediv_cancel _ hS
  have d : (S : Int) ∣ -((q * S : Nat) : Int) := by
    rw [Int.natCast_mul, ← Int.neg_mul]; exact Int.dvd_mul_left _ _
  simp only [narrow, units, e, d, true_and, Fits64]
  have : -(q : Int) < (2 ^ 64 : Int) := by omega
  by_cases h0 : q = 0
  · subst h0; simp [intNum]
  · by_cases h : q ≤ 2 ^ 63
    · have h' : -(2 ^ 63 : Int) ≤ -(q : Int) := by omega
      rw [if_pos ⟨h', this⟩, if_neg h0, if_pos h, intNum_eq_ofI64]
      simp [Num.ofI64, h0]
    · have h' : ¬ -(2 ^ 63 : Int) ≤ -(q : Int) := by omega
      rw [if_neg (fun c => h' c.1), if_neg h0, if_neg h]

/-- the code's narrowing is the specified one -/
theorem toNumberValue_eq_narrow (x : F64) : toNumberValue x = (narrow x).map Json.num := by
  cases x with
  | nan => simp [toNumberValue, narrow, units, fractIsZero, Num.ofF64?, isFinite]
  | inf a => simp [toNumberValue, narrow, units, fractIsZero, Num.ofF64?, isFinite]
  | fin a k =>
    by_cases hd : S ∣ k
    · obtain ⟨q, hq⟩ := hd
      have hk : k = q * S := hq.trans (Nat.mul_comm _ _)
      rw [hk]
      cases a
      · rw [toNumberValue_posint, narrow_posint]; split <;> rfl
      · rw [toNumberValue_negint, narrow_negint]; split
        · rfl
        · split <;> rfl
    · rw [toNumberValue_nonint _ _ hd, narrow_nonint _ _ hd]; rfl

/-! ## `foldlM` with a failing conversion = `mapM` then `foldl` -/

theorem foldlM_conv {α β γ : Type} (f : α → Option β) (op : γ → β → γ) (g : γ → α → Option γ)
    (hg : ∀ acc v, g acc v = (f v).map (op acc)) (items : List α) (init : γ) :
    items.foldlM g init = (items.mapM f).map (List.foldl op init) := by
  induction items generalizing init with
  | nil => simp
  | cons v vs ih =>
    simp only [List.foldlM_cons, List.mapM_cons, hg]
    cases h : f v with
    | none => simp
    | some n => simp [ih]; cases List.mapM f vs <;> simp

theorem mapM_eq_none_iff {α β : Type} (f : α → Option β) (items : List α) :
    items.mapM f = none ↔ ∃ v ∈ items, f v = none := by
  induction items with
  | nil => simp
  | cons v vs ih =>
    simp only [List.mapM_cons]
    cases h : f v with
    | none => simp [h]
    | some n =>
      cases h2 : vs.mapM f with
      | none => simp [h, ih.mp h2]
      | some ns =>
        have : ¬ ∃ v ∈ vs, f v = none := fun c => by rw [ih.mpr c] at h2; cases h2
        simp [h]
        simpa using this

theorem mapM_eq_some_iff {α β : Type} (f : α → Option β) (items : List α) (ns : List β) :
    items.mapM f = some ns ↔ items.map f = ns.map some := by
  induction items generalizing ns with
  | nil => cases ns <;> simp
  | cons v vs ih =>
    simp only [List.mapM_cons]
    cases h : f v with
    | none => cases ns <;> simp [h]
    | some n =>
      cases h2 : vs.mapM f with
      | none =>
        cases ns with
        | nil => simp
        | cons m ms =>
          simp [h]
          intro _ c
          rw [(ih ms).mpr c] at h2; cases h2
      | some ns' =>
        have := (ih ns').mp h2
        cases ns with
        | nil => simp
        | cons m ms =>
          simp [h, this]
          intro _
          constructor
          · intro e; rw [e]
          · intro e; exact (List.map_inj_right (fun x y h => Option.some.inj h)).mp e

/-! ## maximum / minimum folds -/

theorem lt_of_lt_fmax {a n c : F64} (h : lt (fmax a n) c = true) : lt a c = true := by
  unfold fmax at h
  split at h
  · rename_i h1; exact F64.lt_trans h1 h
  · exact h

theorem lt_foldl_fmax {ns : List F64} {a c : F64} (h : lt (ns.foldl fmax a) c = true) : lt a c = true := by
  induction ns generalizing a with
  | nil => exact h
  | cons n ns ih => exact lt_of_lt_fmax (ih h)

theorem foldl_fmax_ge (ns : List F64) (a n : F64) (hn : n ∈ ns) : lt (ns.foldl fmax a) n = false := by
  induction ns generalizing a with
  | nil => cases hn
  | cons m ms ih =>
    rcases List.mem_cons.mp hn with rfl | h
    · cases hc : lt (List.foldl fmax a (n :: ms)) n with
      | false => rfl
      | true =>
        have h1 : lt (fmax a n) n = true := lt_foldl_fmax (ns := ms) hc
        unfold fmax at h1
        split at h1
        · rw [F64.lt_irrefl] at h1; cases h1
        · rename_i h2; exact absurd h1 h2
    · exact ih _ h

theorem foldl_fmax_mem (ns : List F64) (a : F64) : ns.foldl fmax a ∈ ns ∨ ns.foldl fmax a = a := by
  induction ns generalizing a with
  | nil => right; rfl
  | cons m ms ih =>
    rcases ih (fmax a m) with h | h
    · left; exact List.mem_cons_of_mem _ h
    · simp only [List.foldl_cons, h]
      unfold fmax; split
      · left; exact List.mem_cons_self
      · right; rfl

theorem isMax_foldl (ns : List F64) : IsMax (ns.foldl fmax (inf true)) ns :=
  ⟨fun n hn => foldl_fmax_ge ns _ n hn, foldl_fmax_mem ns _⟩

theorem lt_of_fmin_lt {a n c : F64} (h : lt c (fmin a n) = true) : lt c a = true := by
  unfold fmin at h
  split at h
  · rename_i h1; exact F64.lt_trans h h1
  · exact h

theorem lt_foldl_fmin {ns : List F64} {a c : F64} (h : lt c (ns.foldl fmin a) = true) : lt c a = true := by
  induction ns generalizing a with
  | nil => exact h
  | cons n ns ih => exact lt_of_fmin_lt (ih h)

theorem foldl_fmin_le (ns : List F64) (a n : F64) (hn : n ∈ ns) : lt n (ns.foldl fmin a) = false := by
  induction ns generalizing a with
  | nil => cases hn
  | cons m ms ih =>
    rcases List.mem_cons.mp hn with rfl | h
    · cases hc : lt n (List.foldl fmin a (n :: ms)) with
      | false => rfl
      | true =>
        have h1 : lt n (fmin a n) = true := lt_foldl_fmin (ns := ms) hc
        unfold fmin at h1
        split at h1
        · rw [F64.lt_irrefl] at h1; cases h1
        · rename_i h2; exact absurd h1 h2
    · exact ih _ h

theorem foldl_fmin_mem (ns : List F64) (a : F64) : ns.foldl fmin a ∈ ns ∨ ns.foldl fmin a = a := by
  induction ns generalizing a with
  | nil => right; rfl
  | cons m ms ih =>
    rcases ih (fmin a m) with h | h
    · left; exact List.mem_cons_of_mem _ h
    · simp only [List.foldl_cons, h]
      unfold fmin; split
      · left; exact List.mem_cons_self
      · right; rfl

theorem isMin_foldl (ns : List F64) : IsMin (ns.foldl fmin (inf false)) ns :=
  ⟨fun n hn => foldl_fmin_le ns _ n hn, foldl_fmin_mem ns _⟩

/-- with at least one operand and no NaN among them the maximum is attained, and is `≥` every operand -/
theorem isMax_strong {m : F64} {ns : List F64} (h : IsMax m ns) (hne : ns ≠ []) (hnan : ∀ n ∈ ns, n.isNaN = false) :
    m ∈ ns ∧ ∀ n ∈ ns, le n m = true := by
  have hm : m ∈ ns := by
    rcases h.2 with h2 | h2
    · exact h2
    · cases ns with
      | nil => exact absurd rfl hne
      | cons n ns =>
        have h1 := h.1 n List.mem_cons_self
        have h3 := hnan n List.mem_cons_self
        subst h2
        cases n with
        | nan => simp [isNaN] at h3
        | inf a => cases a <;> simp_all [lt]
        | fin a k => simp [lt] at h1
  exact ⟨hm, fun n hn => (F64.lt_eq_false_iff_le (hnan m hm) (hnan n hn)).mp (h.1 n hn)⟩

theorem isMin_strong {m : F64} {ns : List F64} (h : IsMin m ns) (hne : ns ≠ []) (hnan : ∀ n ∈ ns, n.isNaN = false) :
    m ∈ ns ∧ ∀ n ∈ ns, le m n = true := by
  have hm : m ∈ ns := by
    rcases h.2 with h2 | h2
    · exact h2
    · cases ns with
      | nil => exact absurd rfl hne
      | cons n ns =>
        have h1 := h.1 n List.mem_cons_self
        have h3 := hnan n List.mem_cons_self
        subst h2
        cases n with
        | nan => simp [isNaN] at h3
        | inf a => cases a <;> simp_all [lt]
        | fin a k => simp [lt] at h1
  exact ⟨hm, fun n hn => (F64.lt_eq_false_iff_le (hnan n hn) (hnan m hm)).mp (h.1 n hn)⟩

end JL
