import JL.Lemmas.Monad
import JL.Spec.C05
/-! Helper lemmas for C05: the flag-carrying folds of `logic.rs` against the recursive specification. -/
namespace JL.Lemmas.C05
open JL Json JL.Props.C05

theorem lookup_if : lookupOp "if".toList = some (.lazy, .any) := by decide
theorem lookup_tern : lookupOp "?:".toList = some (.lazy, .any) := by decide
theorem lookup_or : lookupOp "or".toList = some (.lazy, .atLeast 1) := by decide
theorem lookup_and : lookupOp "and".toList = some (.lazy, .atLeast 1) := by decide

/-- `ev` followed by a continuation, unfolded the way the folds are written -/
theorem ev_bind {β} (d e : Json) (f : Json → M β) :
    (ev d e >>= f) = if check e then run e d >>= f else M.err := by
  unfold ev; split <;> simp

theorem bind_mk_pure {α} (x : M α) : (x >>= fun a => (⟨[], .ok a⟩ : M α)) = x := M.bind_pure x

/-- once `should_return` is set the fold of `if` only carries the value to the end -/
theorem runIf_done (xs : List Json) (i : Nat) (l : Json) (w : Bool) (d : Json) :
    runIf xs i (l, w, true) d = pure l := by
  induction xs generalizing i with
  | nil => simp [runIf]
  | cons x xs ih => rw [runIf]; simp [ih]

/-- the fold of `if` entered at a condition position with a clean state is the specification -/
theorem runIf_even : ∀ (xs : List Json) (i : Nat) (w : Bool) (d : Json), i % 2 = 0 →
    runIf xs i (.null, w, false) d = ifSpec d xs
  | [], i, w, d, _ => by simp [runIf, ifSpec]
  | [e], i, w, d, h => by
      rw [runIf]; simp only [h, ifSpec, ev]
      simp [runIf, bind_mk_pure]
  | c :: t :: rest, i, w, d, h => by
      have h1 : (i + 1) % 2 = 1 := by omega
      have ih := fun w' => runIf_even rest (i + 1 + 1) w' d (by omega)
      rw [runIf]
      simp only [h, ifSpec, ev_bind]
      simp only [Bool.false_eq_true, if_false, BEq.rfl, if_true]
      split
      · congr 1; funext cv
        rw [runIf]
        simp only [h1, Bool.false_eq_true, if_false, Nat.reduceBEq]
        by_cases ht : truthy cv = true
        · simp only [ht, if_true, ev]
          split
          · simp [runIf_done, bind_mk_pure]
          · rfl
        · simp only [ht]
          simpa using ih _
      · rfl

/-- the `if`/`?:` branch of `run` on a bracketed operand list -/
theorem run_if_arr (k : Str) (hk : k = "if".toList ∨ k = "?:".toList) (xs : List Json) (d : Json) :
    run (.obj [(k, .arr xs)]) d = ifSpec d xs := by
  have hl : lookupOp k = some (.lazy, .any) := by rcases hk with h | h <;> subst h <;> decide
  have hb : (k = "if".toList || k = "?:".toList) = true := by rcases hk with h | h <;> subst h <;> decide
  unfold run
  simp only [hl, hb, if_true]
  match xs with
  | [] => simp [ifSpec]
  | [x] => simp [ifSpec, ev]
  | x :: y :: rest => exact runIf_even _ 0 false d rfl

/-- the `if`/`?:` branch of `run` on a single unbracketed operand -/
theorem run_if_unary (k : Str) (hk : k = "if".toList ∨ k = "?:".toList) (x d : Json) (hx : ∀ xs, x ≠ .arr xs) :
    run (.obj [(k, x)]) d = ev d x := by
  have hl : lookupOp k = some (.lazy, .any) := by rcases hk with h | h <;> subst h <;> decide
  have hb : (k = "if".toList || k = "?:".toList) = true := by rcases hk with h | h <;> subst h <;> decide
  unfold run
  simp only [hl, hb, if_true]
  cases x <;> simp_all [ev]

/-- `check` accepts every `if`/`?:` rule: the parse of a lazy operator with arity `any` cannot fail -/
theorem check_if (k : Str) (hk : k = "if".toList ∨ k = "?:".toList) (v : Json) : check (.obj [(k, v)]) = true := by
  have hl : lookupOp k = some (.lazy, .any) := by rcases hk with h | h <;> subst h <;> decide
  unfold check
  simp only [hl]
  cases v <;> simp [Arity.isValidLen, Arity.canAcceptUnary]

/-! ## `or` / `and` -/

/-- the common shape of `orSpec` (`isOr = true`) and `andSpec` (`isOr = false`) -/
def oaSpec (isOr : Bool) (d : Json) : List Json → M Json
  | [] => M.err
  | [x] => ev d x
  | x :: y :: rest => do
      let v ← ev d x
      if truthy v == isOr then pure v else oaSpec isOr d (y :: rest)

theorem oaSpec_or (d : Json) : ∀ xs, oaSpec true d xs = orSpec d xs
  | [] => rfl
  | [_] => rfl
  | x :: y :: rest => by
      simp only [oaSpec, orSpec, oaSpec_or d (y :: rest)]
      congr 1; funext v; cases truthy v <;> simp

theorem oaSpec_and (d : Json) : ∀ xs, oaSpec false d xs = andSpec d xs
  | [] => rfl
  | [_] => rfl
  | x :: y :: rest => by
      simp only [oaSpec, andSpec, oaSpec_and d (y :: rest)]
      congr 1; funext v; cases truthy v <;> simp

/-- what `logic::or` / `logic::and` return from the final fold state -/
def fin : OrState → M Json
  | .decided r => pure r
  | .current r => pure r
  | .uninit => M.err

/-- once decided the fold only carries the state to the end -/
theorem runOrAnd_decided (isOr : Bool) (xs : List Json) (r d : Json) :
    runOrAnd isOr xs (.decided r) d = pure (.decided r) := by
  induction xs with
  | nil => simp [runOrAnd]
  | cons x xs ih => rw [runOrAnd]; simp [ih]

/-- one step of the fold of `or`/`and` from an undecided state -/
theorem runOrAnd_step (isOr : Bool) (d x : Json) (xs : List Json) (st : OrState) (hst : ∀ r, st ≠ .decided r) :
    runOrAnd isOr (x :: xs) st d =
      if check x then run x d >>= fun e => runOrAnd isOr xs (if truthy e == isOr then .decided e else .current e) d
      else M.err := by
  cases st with
  | decided r => exact absurd rfl (hst r)
  | uninit => rw [runOrAnd]; simp
  | current c => rw [runOrAnd]; simp

/-- the fold of `or`/`and` from an undecided state over a non-empty operand list is the specification -/
theorem runOrAnd_spec (isOr : Bool) (d : Json) : ∀ (xs : List Json) (x : Json) (st : OrState),
    (∀ r, st ≠ .decided r) → (runOrAnd isOr (x :: xs) st d >>= fin) = oaSpec isOr d (x :: xs)
  | [], x, st, hst => by
      rw [runOrAnd_step _ _ _ _ _ hst]
      simp only [oaSpec, ev]
      split
      · rw [M.bind_assoc]
        conv => rhs; rw [← bind_mk_pure (run x d)]
        congr 1; funext e
        by_cases h : truthy e = isOr <;> simp [h, runOrAnd, fin]
      · rfl
  | y :: rest, x, st, hst => by
      have ih := fun st h => runOrAnd_spec isOr d rest y st h
      rw [runOrAnd_step _ _ _ _ _ hst]
      simp only [oaSpec, ev_bind]
      split
      · rw [M.bind_assoc]
        congr 1; funext e
        by_cases h : truthy e = isOr
        · simp [h, runOrAnd_decided, fin]
        · simp only [beq_iff_eq, h, if_false]; exact ih (.current e) (by simp)
      · rfl

theorem run_or_arr (xs : List Json) (d : Json) : run (.obj [("or".toList, .arr xs)]) d = orSpec d xs := by
  unfold run
  simp only [lookup_or]
  rw [if_neg (by decide)]
  simp only [↓reduceIte]
  show (runOrAnd true xs .uninit d >>= fin) = _
  cases xs with
  | nil => simp [runOrAnd, fin, orSpec]
  | cons x xs => rw [runOrAnd_spec true d xs x .uninit (by simp), oaSpec_or]

theorem run_and_arr (xs : List Json) (d : Json) : run (.obj [("and".toList, .arr xs)]) d = andSpec d xs := by
  unfold run
  simp only [lookup_and]
  rw [if_neg (by decide), if_neg (by decide)]
  simp only [↓reduceIte]
  show (runOrAnd false xs .uninit d >>= fin) = _
  cases xs with
  | nil => simp [runOrAnd, fin, andSpec]
  | cons x xs => rw [runOrAnd_spec false d xs x .uninit (by simp), oaSpec_and]

theorem run_or_unary (x d : Json) (hx : ∀ xs, x ≠ .arr xs) : run (.obj [("or".toList, x)]) d = ev d x := by
  unfold run
  simp only [lookup_or]
  rw [if_neg (by decide)]
  simp only [↓reduceIte]
  cases x <;> simp_all [ev]

theorem run_and_unary (x d : Json) (hx : ∀ xs, x ≠ .arr xs) : run (.obj [("and".toList, x)]) d = ev d x := by
  unfold run
  simp only [lookup_and]
  rw [if_neg (by decide), if_neg (by decide)]
  simp only [↓reduceIte]
  cases x <;> simp_all [ev]

/-- the parse of `or`/`and` only counts the operands (at least one) -/
theorem check_oa (k : Str) (hk : k = "or".toList ∨ k = "and".toList) (xs : List Json) :
    check (.obj [(k, .arr xs)]) = decide (1 ≤ xs.length) := by
  have hl : lookupOp k = some (.lazy, .atLeast 1) := by rcases hk with h | h <;> subst h <;> decide
  unfold check
  simp [hl, Arity.isValidLen]

theorem check_oa_unary (k : Str) (hk : k = "or".toList ∨ k = "and".toList) (x : Json) (hx : ∀ xs, x ≠ .arr xs) :
    check (.obj [(k, x)]) = true := by
  have hl : lookupOp k = some (.lazy, .atLeast 1) := by rcases hk with h | h <;> subst h <;> decide
  unfold check
  simp only [hl]
  cases x <;> simp_all [Arity.isValidLen, Arity.canAcceptUnary]

/-! ## the specification depends on the operands after the deciding one not at all -/

/-- a computation that does not produce a value absorbs its continuation -/
theorem bind_of_not_ok {α} (x : M α) (f : α → M α) (h : ∀ v, x.out ≠ .ok v) : (x >>= f) = x := by
  cases x with | mk l o =>
  cases o with
  | ok a => exact absurd rfl (h a)
  | err => rfl
  | panic => rfl

theorem ifSpec_cond_truthy (d c t : Json) (rest : List Json) (l : List Json) (v : Json)
    (hc : ev d c = ⟨l, .ok v⟩) (hv : truthy v = true) :
    ifSpec d (c :: t :: rest) = ⟨l ++ (ev d t).logs, (ev d t).out⟩ := by
  simp [ifSpec, hc, hv]

theorem ifSpec_cond_falsy (d c t : Json) (rest : List Json) (l : List Json) (v : Json)
    (hc : ev d c = ⟨l, .ok v⟩) (hv : truthy v = false) :
    ifSpec d (c :: t :: rest) = ⟨l ++ (ifSpec d rest).logs, (ifSpec d rest).out⟩ := by
  simp [ifSpec, hc, hv]

theorem ifSpec_cond_fail (d c : Json) (rest : List Json) (hc : ∀ v, (ev d c).out ≠ .ok v) :
    ifSpec d (c :: rest) = ev d c := by
  cases rest with
  | nil => rfl
  | cons t r => simp only [ifSpec]; exact bind_of_not_ok _ _ hc

/-- whole (condition, branch) pairs in front do not look at what follows them except through its result -/
theorem ifSpec_prefix (d : Json) (r r' : List Json) (h : ifSpec d r = ifSpec d r') :
    ∀ pre : List Json, pre.length % 2 = 0 → ifSpec d (pre ++ r) = ifSpec d (pre ++ r')
  | [], _ => h
  | [_], hp => by simp at hp
  | c :: t :: pre, hp => by
      have ih := ifSpec_prefix d r r' h pre (by simp at hp; omega)
      simp only [List.cons_append, ifSpec, ih]

theorem oaSpec_decided (isOr : Bool) (d x : Json) (ys : List Json) (l : List Json) (v : Json)
    (hx : ev d x = ⟨l, .ok v⟩) (hv : truthy v = isOr) : oaSpec isOr d (x :: ys) = ⟨l, .ok v⟩ := by
  cases ys with
  | nil => exact hx
  | cons y r => simp [oaSpec, hx, hv]

theorem oaSpec_fail (isOr : Bool) (d x : Json) (ys : List Json) (hx : ∀ v, (ev d x).out ≠ .ok v) :
    oaSpec isOr d (x :: ys) = ev d x := by
  cases ys with
  | nil => rfl
  | cons y r => simp only [oaSpec]; exact bind_of_not_ok _ _ hx

/-- operands in front of a non-empty remainder look at it only through its result -/
theorem oaSpec_prefix (isOr : Bool) (d y y' : Json) (r r' : List Json) (h : oaSpec isOr d (y :: r) = oaSpec isOr d (y' :: r')) :
    ∀ pre : List Json, oaSpec isOr d (pre ++ y :: r) = oaSpec isOr d (pre ++ y' :: r')
  | [] => h
  | x :: pre => by
      have ih := oaSpec_prefix isOr d y y' r r' h pre
      cases pre with
      | nil => simp only [List.cons_append, List.nil_append, oaSpec] at ih ⊢; rw [h]
      | cons z pre => simp only [List.cons_append, oaSpec] at ih ⊢; rw [ih]
