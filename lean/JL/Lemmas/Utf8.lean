import JL.Spec.Utf8
/-!
# Lemmas on UTF-8: order preservation, prefix-freeness, self-synchronisation
-/
namespace JL.Lemmas.Utf8
open JL JL.Spec.Utf8

/-! ## shape of one encoded scalar value -/

/-- the four rows of the RFC 3629 table -/
theorem encodeNat_cases (n : Nat) :
    (n < 0x80 ∧ encodeNat n = [n]) ∨
    (0x80 ≤ n ∧ n < 0x800 ∧ encodeNat n = [0xC0 + n / 0x40, 0x80 + n % 0x40]) ∨
    (0x800 ≤ n ∧ n < 0x10000 ∧ encodeNat n = [0xE0 + n / 0x1000, 0x80 + n / 0x40 % 0x40, 0x80 + n % 0x40]) ∨
    (0x10000 ≤ n ∧
      encodeNat n = [0xF0 + n / 0x40000, 0x80 + n / 0x1000 % 0x40, 0x80 + n / 0x40 % 0x40, 0x80 + n % 0x40]) := by
  unfold encodeNat
  by_cases h1 : n < 0x80
  · exact .inl ⟨h1, by rw [if_pos h1]⟩
  · by_cases h2 : n < 0x800
    · exact .inr (.inl ⟨by omega, h2, by rw [if_neg h1, if_pos h2]⟩)
    · by_cases h3 : n < 0x10000
      · exact .inr (.inr (.inl ⟨by omega, h3, by rw [if_neg h1, if_neg h2, if_pos h3]⟩))
      · exact .inr (.inr (.inr ⟨by omega, by rw [if_neg h1, if_neg h2, if_neg h3]⟩))

theorem encodeNat_ne_nil (n : Nat) : encodeNat n ≠ [] := by
  rcases encodeNat_cases n with ⟨-, e⟩ | ⟨-, -, e⟩ | ⟨-, -, e⟩ | ⟨-, e⟩ <;> rw [e] <;> simp

/-- every produced value is a byte (for scalar values, i.e. `n < 0x110000`) -/
theorem encodeNat_byte (n : Nat) (hn : n < 0x110000) : ∀ b ∈ encodeNat n, b < 256 := by
  rcases encodeNat_cases n with ⟨h, e⟩ | ⟨h, h', e⟩ | ⟨h, h', e⟩ | ⟨h, e⟩ <;> rw [e] <;>
    simp only [List.mem_cons, List.not_mem_nil, or_false, forall_eq_or_imp, forall_eq] <;> omega

/-- the first byte is a lead byte (`0xxxxxxx`, `110xxxxx`, `1110xxxx`, `11110xxx`: never `10xxxxxx`), all others are
continuation bytes `10xxxxxx` -/
theorem encodeNat_shape (n : Nat) : ∃ l cs, encodeNat n = l :: cs ∧ ¬ isCont l ∧ ∀ b ∈ cs, isCont b := by
  unfold isCont
  rcases encodeNat_cases n with ⟨h, e⟩ | ⟨h, h', e⟩ | ⟨h, h', e⟩ | ⟨h, e⟩ <;> rw [e] <;>
    refine ⟨_, _, rfl, ?_, ?_⟩ <;>
    (try simp only [List.mem_cons, List.not_mem_nil, or_false, forall_eq_or_imp, forall_eq, false_imp_iff,
      implies_true]) <;>
    omega

theorem encodeChar_shape (c : Char) : ∃ l cs, encodeChar c = l :: cs ∧ ¬ isCont l ∧ ∀ b ∈ cs, isCont b :=
  encodeNat_shape _

theorem encodeChar_ne_nil (c : Char) : encodeChar c ≠ [] := encodeNat_ne_nil _

@[simp] theorem encode_nil : encode [] = [] := rfl
@[simp] theorem encode_cons (c : Char) (s : Str) : encode (c :: s) = encodeChar c ++ encode s := by
  simp [encode]
theorem encode_append (s t : Str) : encode (s ++ t) = encode s ++ encode t := by
  simp [encode]

/-! ## strict difference at a common position -/

/-- `x` and `y` agree up to a position where `x` has the smaller byte -/
def diffLt : List Nat → List Nat → Bool
  | a :: as, b :: bs => decide (a < b) || (a == b && diffLt as bs)
  | _, _ => false

theorem bytesLt_irrefl : ∀ x : List Nat, bytesLt x x = false
  | [] => rfl
  | a :: as => by simp [bytesLt, bytesLt_irrefl as]

theorem bytesLt_append_same : ∀ (x as bs : List Nat), bytesLt (x ++ as) (x ++ bs) = bytesLt as bs
  | [], _, _ => rfl
  | a :: x, as, bs => by simp [bytesLt, bytesLt_append_same x as bs]

theorem bytesLt_of_diffLt : ∀ (x y as bs : List Nat), diffLt x y = true → bytesLt (x ++ as) (y ++ bs) = true
  | [], _, _, _, h => by simp [diffLt] at h
  | _ :: _, [], _, _, h => by simp [diffLt] at h
  | a :: x, b :: y, as, bs, h => by
    simp only [diffLt, Bool.or_eq_true, decide_eq_true_eq, Bool.and_eq_true, beq_iff_eq] at h
    simp only [List.cons_append, bytesLt, Bool.or_eq_true, decide_eq_true_eq, Bool.and_eq_true, beq_iff_eq]
    rcases h with h | ⟨h, h'⟩
    · exact .inl h
    · exact .inr ⟨h, bytesLt_of_diffLt x y as bs h'⟩

theorem not_bytesLt_of_diffLt : ∀ (x y as bs : List Nat), diffLt x y = true → bytesLt (y ++ bs) (x ++ as) = false
  | [], _, _, _, h => by simp [diffLt] at h
  | _ :: _, [], _, _, h => by simp [diffLt] at h
  | a :: x, b :: y, as, bs, h => by
    simp only [diffLt, Bool.or_eq_true, decide_eq_true_eq, Bool.and_eq_true, beq_iff_eq] at h
    simp only [List.cons_append, bytesLt]
    rcases h with h | ⟨h, h'⟩
    · have h1 : ¬ b < a := by omega
      have h2 : (b == a) = false := by simp; omega
      simp [h1, h2]
    · subst h
      simp [not_bytesLt_of_diffLt x y as bs h']

/-- the core arithmetic fact: a smaller scalar value has an encoding that differs from that of a larger one at a
position where it has the smaller byte (in particular neither is a prefix of the other) -/
theorem diffLt_encodeNat (n m : Nat) (h : n < m) (hm : m < 0x110000) : diffLt (encodeNat n) (encodeNat m) = true := by
  rcases encodeNat_cases n with ⟨h1, e1⟩ | ⟨h1, h1', e1⟩ | ⟨h1, h1', e1⟩ | ⟨h1, e1⟩ <;>
  rcases encodeNat_cases m with ⟨h2, e2⟩ | ⟨h2, h2', e2⟩ | ⟨h2, h2', e2⟩ | ⟨h2, e2⟩ <;>
    rw [e1, e2] <;>
    simp only [diffLt, Bool.or_eq_true, decide_eq_true_eq, Bool.and_eq_true, beq_iff_eq,
      Bool.false_eq_true, and_false, or_false] <;> omega

theorem char_lt_bound (c : Char) : c.val.toNat < 0x110000 := by
  have hv := c.valid
  simp only [UInt32.isValidChar, Nat.isValidChar] at hv
  omega

theorem diffLt_encodeChar (c d : Char) (h : c.val < d.val) : diffLt (encodeChar c) (encodeChar d) = true :=
  diffLt_encodeNat _ _ (UInt32.lt_iff_toNat_lt.mp h) (char_lt_bound d)

theorem char_eq_of_not_lt (c d : Char) (h1 : ¬ c.val < d.val) (h2 : ¬ d.val < c.val) : c = d := by
  apply Char.ext
  apply UInt32.toNat_inj.mp
  rw [UInt32.lt_iff_toNat_lt] at h1 h2
  omega

/-! ## order -/

theorem bytesLt_encode : ∀ a b : Str, bytesLt (encode a) (encode b) = strLt a b
  | [], [] => rfl
  | [], b :: bs => by
    obtain ⟨l, cs, e, -⟩ := encodeChar_shape b
    simp [strLt, e, bytesLt]
  | a :: as, [] => by
    simp [strLt, bytesLt]
  | a :: as, b :: bs => by
    simp only [encode_cons, strLt]
    by_cases h1 : a.val < b.val
    · rw [if_pos h1]
      exact bytesLt_of_diffLt _ _ _ _ (diffLt_encodeChar a b h1)
    · rw [if_neg h1]
      by_cases h2 : b.val < a.val
      · rw [if_pos h2]
        exact not_bytesLt_of_diffLt _ _ _ _ (diffLt_encodeChar b a h2)
      · rw [if_neg h2]
        obtain rfl := char_eq_of_not_lt a b h1 h2
        rw [bytesLt_append_same]
        exact bytesLt_encode as bs

/-! ## prefix-freeness and injectivity -/

/-- no encoded scalar value is a prefix of another one's encoding (followed by anything) -/
theorem encodeChar_prefix_free (c d : Char) (x y : List Nat) (h : encodeChar c ++ x = encodeChar d ++ y) : c = d := by
  apply char_eq_of_not_lt
  · intro hlt
    have := bytesLt_of_diffLt _ _ x y (diffLt_encodeChar c d hlt)
    rw [h, bytesLt_irrefl] at this
    exact Bool.noConfusion this
  · intro hlt
    have := bytesLt_of_diffLt _ _ y x (diffLt_encodeChar d c hlt)
    rw [h, bytesLt_irrefl] at this
    exact Bool.noConfusion this

theorem encodeChar_injective (c d : Char) (h : encodeChar c = encodeChar d) : c = d :=
  encodeChar_prefix_free c d [] [] (by rw [h])

/-- a well-formed byte prefix of a well-formed string is the encoding of a character prefix -/
theorem encode_prefix : ∀ (n h : Str) (suf : List Nat), encode h = encode n ++ suf →
    ∃ s, h = n ++ s ∧ suf = encode s
  | [], h, suf, e => ⟨h, rfl, by simpa using e.symm⟩
  | c :: n, [], suf, e => by
    simp only [encode_nil, encode_cons, List.append_assoc] at e
    have := encodeChar_ne_nil c
    simp_all
  | c :: n, d :: h, suf, e => by
    simp only [encode_cons, List.append_assoc] at e
    obtain rfl := encodeChar_prefix_free d c _ _ e
    obtain ⟨s, rfl, rfl⟩ := encode_prefix n h suf (List.append_cancel_left e)
    exact ⟨s, rfl, rfl⟩

theorem encode_injective (a b : Str) (h : encode a = encode b) : a = b := by
  obtain ⟨s, rfl, hs⟩ := encode_prefix b a [] (by simpa using h)
  cases s with
  | nil => simp
  | cons c s =>
    have := encodeChar_ne_nil c
    simp_all

/-! ## self-synchronisation -/

/-- a byte-level occurrence of a well-formed non-empty needle in a well-formed haystack starts at a character
boundary: what precedes it is the encoding of a character prefix, and the occurrence is a character-level one -/
theorem encode_infix (c : Char) (n : Str) : ∀ (h : Str) (pre suf : List Nat),
    encode h = pre ++ encode (c :: n) ++ suf →
    ∃ p s, h = p ++ (c :: n) ++ s ∧ pre = encode p ∧ suf = encode s
  | [], pre, suf, e => by
    have := encodeChar_ne_nil c
    simp_all
  | d :: h, pre, suf, e => by
    rw [encode_cons, List.append_assoc] at e
    rcases List.append_eq_append_iff.mp e with ⟨t, ht, ht'⟩ | ⟨t, ht, ht'⟩
    · -- `pre = encodeChar d ++ t`: the occurrence lies in the rest
      obtain ⟨p, s, rfl, rfl, rfl⟩ := encode_infix c n h t suf (by rw [ht', List.append_assoc])
      exact ⟨d :: p, s, rfl, by rw [ht, encode_cons], rfl⟩
    · -- `encodeChar d = pre ++ t`: the occurrence starts at or after the start of the first character, before its end
      cases t with
      | nil =>
        -- exactly at its end: again in the rest
        obtain ⟨p, s, rfl, hp, rfl⟩ := encode_infix c n h [] suf (by simpa using ht'.symm)
        exact ⟨d :: p, s, rfl, by rw [encode_cons, ← hp]; simpa using ht.symm, rfl⟩
      | cons t0 t =>
        cases pre with
        | nil =>
          -- at its start: a well-formed prefix
          have e' : encode (d :: h) = encode (c :: n) ++ suf := by rw [encode_cons]; simpa using e
          obtain ⟨s, hs, rfl⟩ := encode_prefix (c :: n) (d :: h) suf e'
          exact ⟨[], s, by simpa using hs, rfl, rfl⟩
        | cons p0 pre =>
          -- strictly inside: the needle's lead byte `t0` would be a continuation byte of `d`
          exfalso
          obtain ⟨l, cs, hl, -, hcs⟩ := encodeChar_shape d
          obtain ⟨l', cs', hl', hnc, -⟩ := encodeChar_shape c
          rw [hl, List.cons_append, List.cons.injEq] at ht
          obtain ⟨-, rfl⟩ := ht
          rw [encode_cons, hl'] at ht'
          simp only [List.cons_append, List.cons.injEq] at ht'
          obtain ⟨rfl, -⟩ := ht'
          exact hnc (hcs _ (by simp))

end JL.Lemmas.Utf8
