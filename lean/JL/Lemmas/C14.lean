import JL.Lemmas.Monad
import JL.Spec.C14
/-! Helper lemmas for C14: the early-exit folds of `array.rs` (`all`, `some`) against the bounded quantifiers. -/
namespace JL.Lemmas.C14
open JL Json JL.Props.C14

theorem lookup_all : lookupOp "all".toList = some (.lazy, .exactly 2) := by decide
theorem lookup_some : lookupOp "some".toList = some (.lazy, .exactly 2) := by decide
theorem lookup_none : lookupOp "none".toList = some (.lazy, .exactly 2) := by decide
theorem lookup_not : lookupOp "!".toList = some (.eager, .unary) := by decide

theorem bind_mk_pure {α} (x : M α) : (x >>= fun a => (⟨[], .ok a⟩ : M α)) = x := M.bind_pure x

/-! ## the folds -/

/-- once the state differs from the initial one the fold over data evaluates nothing more -/
theorem quantData_decided (isAll : Bool) (p : Json → M Json) (xs : List Json) :
    quantData isAll p xs (!isAll) = pure (!isAll) := by
  induction xs with
  | nil => rfl
  | cons x xs ih => cases isAll <;> simp_all [quantData]

/-- one step of the fold over data from the initial state -/
theorem quantData_step (isAll : Bool) (p : Json → M Json) (x : Json) (xs : List Json) :
    quantData isAll p (x :: xs) isAll =
      p x >>= fun r => if truthy r = isAll then quantData isAll p xs isAll else pure (!isAll) := by
  rw [quantData]
  simp only [bne_self_eq_false, Bool.false_eq_true, if_false]
  congr 1; funext r
  by_cases h : truthy r = isAll
  · simp [h]
  · simp only [h, if_false]
    have : truthy r = !isAll := by cases isAll <;> simp_all
    rw [this]; exact quantData_decided isAll p xs

theorem quantData_all (p : Json → M Json) : ∀ xs, quantData true p xs true = allSpec p xs
  | [] => rfl
  | x :: xs => by
      rw [quantData_step, allSpec]
      congr 1; funext r
      cases truthy r <;> simp [quantData_all p xs]

theorem quantData_some (p : Json → M Json) : ∀ xs, quantData false p xs false = someSpec p xs
  | [] => rfl
  | x :: xs => by
      rw [quantData_step, someSpec]
      congr 1; funext r
      cases truthy r <;> simp [quantData_some p xs]

/-- once decided the fold over element expressions neither parses nor evaluates anything more -/
theorem runQuantLit_decided (isAll : Bool) (p : Json → M Json) (d : Json) (xs : List Json) :
    runQuantLit isAll xs p d (!isAll) = pure (!isAll) := by
  induction xs with
  | nil => simp [runQuantLit]
  | cons x xs ih => rw [runQuantLit]; cases isAll <;> simp_all

/-- **literal_elems**: one step of the fold over the element expressions of a literal array, from the initial
state: the element is parsed, evaluated against the OUTER data `d`, handed to the predicate; the rest is
touched only if this element did not decide -/
theorem runQuantLit_step (isAll : Bool) (p : Json → M Json) (d x : Json) (xs : List Json) :
    runQuantLit isAll (x :: xs) p d isAll =
      evElem d x >>= fun v => p v >>= fun r =>
        if truthy r = isAll then runQuantLit isAll xs p d isAll else pure (!isAll) := by
  rw [runQuantLit]
  simp only [bne_self_eq_false, Bool.false_eq_true, if_false, evElem]
  by_cases hc : check x = true
  · simp only [hc, Bool.not_true, Bool.false_eq_true, if_false, if_true]
    congr 1; funext v
    congr 1; funext r
    by_cases h : truthy r = isAll
    · simp [h]
    · simp only [h, if_false]
      have : truthy r = !isAll := by cases isAll <;> simp_all
      rw [this]; exact runQuantLit_decided isAll p d xs
  · simp [hc]

theorem runQuantLit_all (p : Json → M Json) (d : Json) :
    ∀ xs, runQuantLit true xs p d true = allSpec (fun e => do let v ← evElem d e; p v) xs
  | [] => by simp [runQuantLit, allSpec]
  | x :: xs => by
      rw [runQuantLit_step, allSpec, M.bind_assoc]
      congr 1; funext v
      congr 1; funext r
      cases truthy r <;> simp [runQuantLit_all p d xs]

theorem runQuantLit_some (p : Json → M Json) (d : Json) :
    ∀ xs, runQuantLit false xs p d false = someSpec (fun e => do let v ← evElem d e; p v) xs
  | [] => by simp [runQuantLit, someSpec]
  | x :: xs => by
      rw [runQuantLit_step, someSpec, M.bind_assoc]
      congr 1; funext v
      congr 1; funext r
      cases truthy r <;> simp [runQuantLit_some p d xs]

/-! ## collections that are values -/

theorem quantItems_eq_items (c : Json) : quantItems c = items c := by cases c <;> rfl

theorem quantValue_all (coll p : Json) :
    quantValue true coll (check p) (fun x => run p x) = overValue allSpec coll p := by
  unfold quantValue overValue
  rw [quantItems_eq_items]
  cases h : items coll with
  | none => rfl
  | some its =>
    cases its with
    | nil => rfl
    | cons x xs => cases hp : check p <;> simp [quantData_all]

theorem quantValue_some (coll p : Json) :
    quantValue false coll (check p) (fun x => run p x) = overValue someSpec coll p := by
  unfold quantValue overValue
  rw [quantItems_eq_items]
  cases h : items coll with
  | none => rfl
  | some its =>
    cases its with
    | nil => rfl
    | cons x xs => cases hp : check p <;> simp [quantData_some]

/-! ## the branch of `run` -/

/-- what the `all`/`some`/`none` branch of `run` computes before `none` negates it -/
def quantBody (isAll : Bool) (c p d : Json) : M Json :=
  match c with
  | .arr xs =>
      if xs.isEmpty then pure (.bool false)
      else if !check p then M.err
      else do
        let b ← runQuantLit isAll xs (fun x => run p x) d isAll
        pure (.bool b)
  | other =>
      if isObj other then
        if !check other then M.err else do
        let cv ← run other d
        quantValue isAll cv (check p) (fun x => run p x)
      else quantValue isAll other (check p) (fun x => run p x)

theorem run_all (c p d : Json) (rest : List Json) :
    run (.obj [("all".toList, .arr (c :: p :: rest))]) d = quantBody true c p d := by
  unfold run
  simp only [lookup_all]
  rw [if_neg (by decide), if_neg (by decide), if_neg (by decide), if_neg (by decide), if_neg (by decide), if_neg (by decide),
    if_pos (by decide)]
  simp only [show ("all".toList = "none".toList) = False from by decide, if_false]
  rfl

theorem run_some (c p d : Json) (rest : List Json) :
    run (.obj [("some".toList, .arr (c :: p :: rest))]) d = quantBody false c p d := by
  unfold run
  simp only [lookup_some]
  rw [if_neg (by decide), if_neg (by decide), if_neg (by decide), if_neg (by decide), if_neg (by decide), if_neg (by decide),
    if_pos (by decide)]
  simp only [show ("some".toList = "none".toList) = False from by decide, if_false]
  rfl

theorem run_none (c p d : Json) (rest : List Json) :
    run (.obj [("none".toList, .arr (c :: p :: rest))]) d = quantBody false c p d >>= negate := by
  unfold run
  simp only [lookup_none]
  rw [if_neg (by decide), if_neg (by decide), if_neg (by decide), if_neg (by decide), if_neg (by decide), if_neg (by decide),
    if_pos (by decide)]
  simp only [↓reduceIte]
  rfl

theorem evElem_bind {β} (d e : Json) (f : Json → M β) :
    (evElem d e >>= f) = if check e then run e d >>= f else M.err := by
  unfold evElem; split <;> simp

theorem quantBody_all (c p d : Json) : quantBody true c p d = quantSem allSpec c p d := by
  cases c with
  | arr xs =>
    cases xs with
    | nil => rfl
    | cons x xs =>
      simp only [quantBody, quantSem, List.isEmpty_cons, Bool.false_eq_true, if_false, runQuantLit_all]
      cases check p <;> simp
  | obj kvs =>
    simp only [quantBody, quantSem, isObj, if_true, evElem_bind, quantValue_all]
    cases check (.obj kvs) <;> simp
  | null => simp only [quantBody, quantSem, isObj, Bool.false_eq_true, if_false, quantValue_all]
  | bool b => simp only [quantBody, quantSem, isObj, Bool.false_eq_true, if_false, quantValue_all]
  | num n => simp only [quantBody, quantSem, isObj, Bool.false_eq_true, if_false, quantValue_all]
  | str s => simp only [quantBody, quantSem, isObj, Bool.false_eq_true, if_false, quantValue_all]

theorem quantBody_some (c p d : Json) : quantBody false c p d = quantSem someSpec c p d := by
  cases c with
  | arr xs =>
    cases xs with
    | nil => rfl
    | cons x xs =>
      simp only [quantBody, quantSem, List.isEmpty_cons, Bool.false_eq_true, if_false, runQuantLit_some]
      cases check p <;> simp
  | obj kvs =>
    simp only [quantBody, quantSem, isObj, if_true, evElem_bind, quantValue_some]
    cases check (.obj kvs) <;> simp
  | null => simp only [quantBody, quantSem, isObj, Bool.false_eq_true, if_false, quantValue_some]
  | bool b => simp only [quantBody, quantSem, isObj, Bool.false_eq_true, if_false, quantValue_some]
  | num n => simp only [quantBody, quantSem, isObj, Bool.false_eq_true, if_false, quantValue_some]
  | str s => simp only [quantBody, quantSem, isObj, Bool.false_eq_true, if_false, quantValue_some]

/-- the parse of `all`/`some`/`none` only counts the operands (exactly two) -/
theorem check_quant (k : Str) (hk : k = "all".toList ∨ k = "some".toList ∨ k = "none".toList) (xs : List Json) :
    check (.obj [(k, .arr xs)]) = (xs.length == 2) := by
  have hl : lookupOp k = some (.lazy, .exactly 2) := by rcases hk with h | h | h <;> subst h <;> decide
  unfold check
  simp [hl, Arity.isValidLen]

theorem check_quant_unary (k : Str) (hk : k = "all".toList ∨ k = "some".toList ∨ k = "none".toList) (x : Json)
    (hx : ∀ xs, x ≠ .arr xs) : check (.obj [(k, x)]) = false := by
  have hl : lookupOp k = some (.lazy, .exactly 2) := by rcases hk with h | h | h <;> subst h <;> decide
  unfold check
  simp only [hl]
  cases x <;> simp_all [Arity.isValidLen, Arity.canAcceptUnary]

/-! ## results are booleans; `none` -/

theorem bind_congr_ok {α β} (x : M α) (f g : α → M β) (h : ∀ l v, x = ⟨l, .ok v⟩ → f v = g v) : (x >>= f) = (x >>= g) := by
  cases x with | mk l o =>
  cases o with
  | ok a => simp [h l a rfl]
  | err => rfl
  | panic => rfl

theorem bind_not_ok {α β} (x : M α) (f g : α → M β) (h : ∀ v, x.out ≠ .ok v) : (x >>= f) = (x >>= g) :=
  bind_congr_ok x f g (fun l v hx => absurd (by rw [hx]) (h v))

/-- every value the computation can produce is a boolean -/
def BoolOut (x : M Json) : Prop := ∀ l v, x = ⟨l, .ok v⟩ → ∃ b, v = .bool b

theorem boolOut_bool (r : M Bool) : BoolOut (r >>= fun b => pure (.bool b)) := by
  intro l v h
  cases r with | mk l' o =>
  cases o with
  | ok b => simp only [M.bind_ok, M.pure_def, M.mk.injEq, Out.ok.injEq] at h; exact ⟨b, h.2.symm⟩
  | err => simp at h
  | panic => simp at h

theorem boolOut_bind (x : M Json) (f : Json → M Json) (hf : ∀ a, BoolOut (f a)) : BoolOut (x >>= f) := by
  intro l v h
  cases x with | mk l' o =>
  cases o with
  | ok a =>
    simp only [M.bind_ok] at h
    exact hf a (f a).logs v (by cases hfa : f a; simp_all)
  | err => simp at h
  | panic => simp at h

theorem boolOut_err : BoolOut M.err := by intro l v h; simp at h
theorem boolOut_pure (b : Bool) : BoolOut (pure (.bool b)) := by
  intro l v h; simp only [M.pure_def, M.mk.injEq, Out.ok.injEq] at h; exact ⟨b, h.2.symm⟩

theorem boolOut_overValue (q) (coll p : Json) : BoolOut (overValue q coll p) := by
  unfold overValue
  split
  · exact boolOut_err
  · exact boolOut_pure false
  · split
    · exact boolOut_bool _
    · exact boolOut_err

theorem boolOut_quantSem (q) (c p d : Json) : BoolOut (quantSem q c p d) := by
  unfold quantSem
  split
  · exact boolOut_pure false
  · split
    · exact boolOut_bool _
    · exact boolOut_err
  · exact boolOut_bind _ _ (fun a => boolOut_overValue q a p)
  · exact boolOut_overValue q _ p

/-- on booleans `none`'s read-out is plain negation (its error arm is dead code) -/
theorem negate_of_boolOut (x : M Json) (hx : BoolOut x) :
    (x >>= negate) = (x >>= fun v => pure (.bool (!truthy v))) := by
  apply bind_congr_ok
  intro l v h
  obtain ⟨b, rfl⟩ := hx l v h
  rfl

/-! ## duality -/

theorem allSpec_eq_not_some (p : Json → M Json) :
    ∀ xs, allSpec p xs = someSpec (notP p) xs >>= fun b => pure (!b)
  | [] => rfl
  | x :: xs => by
      simp only [allSpec, someSpec, notP, M.bind_assoc]
      congr 1; funext r
      cases truthy r <;> simp [allSpec_eq_not_some p xs, truthy]

theorem someSpec_eq_not_all (p : Json → M Json) :
    ∀ xs, someSpec p xs = allSpec (notP p) xs >>= fun b => pure (!b)
  | [] => rfl
  | x :: xs => by
      simp only [allSpec, someSpec, notP, M.bind_assoc]
      congr 1; funext r
      cases truthy r <;> simp [someSpec_eq_not_all p xs, truthy]

theorem check_notRule (p : Json) : check (notRule p) = check p := by
  unfold notRule
  conv => lhs; unfold check; simp only [lookup_not]
  simp [Arity.isValidLen, checkList]

theorem run_notRule (p x : Json) : run (notRule p) x = notP (fun e => run p e) x := by
  unfold notRule
  conv => lhs; unfold run; simp only [lookup_not]
  simp only [runList, notP, M.bind_assoc]
  congr 1

theorem overValue_duality (coll p : Json) (x : Json) (xs : List Json) (h : items coll = some (x :: xs)) :
    overValue allSpec coll p = overValue someSpec coll (notRule p) >>= negate := by
  unfold overValue
  simp only [h, check_notRule]
  cases check p with
  | false => rfl
  | true =>
    simp only [if_true]
    have : (fun e => run (notRule p) e) = notP (fun e => run p e) := by funext e; exact run_notRule p e
    rw [this, allSpec_eq_not_some, M.bind_assoc, M.bind_assoc]
    congr 1

theorem overValue_none (q) (coll p : Json) (h : items coll = none) : overValue q coll p = M.err := by
  unfold overValue; simp [h]

theorem overValue_empty (q) (coll p : Json) (h : items coll = some []) : overValue q coll p = pure (.bool false) := by
  unfold overValue; simp [h]

theorem quantSem_arr_cons (q) (z : Json) (zs : List Json) (p d : Json) :
    quantSem q (.arr (z :: zs)) p d =
      if check p then (q (fun e => do let v ← evElem d e; run p v) (z :: zs)) >>= fun b => pure (.bool b) else M.err := rfl

theorem quantSem_arr_ne (q) (zs : List Json) (hz : zs ≠ []) (p d : Json) :
    quantSem q (.arr zs) p d =
      if check p then (q (fun e => do let v ← evElem d e; run p v) zs) >>= fun b => pure (.bool b) else M.err := by
  cases zs with
  | nil => exact absurd rfl hz
  | cons z zs => rfl

theorem quantSem_duality (c p d : Json) (h : ¬ CollEmpty c d) :
    quantSem allSpec c p d = quantSem someSpec c (notRule p) d >>= negate := by
  have hv : ∀ coll, items coll ≠ some [] →
      overValue allSpec coll p = overValue someSpec coll (notRule p) >>= negate := by
    intro coll hc
    cases hi : items coll with
    | none => rw [overValue_none _ _ _ hi, overValue_none _ _ _ hi]; rfl
    | some its =>
      cases its with
      | nil => exact absurd hi hc
      | cons x xs => exact overValue_duality coll p x xs hi
  cases c with
  | arr zs =>
    cases zs with
    | nil => exact absurd rfl h
    | cons z zs =>
      simp only [quantSem_arr_cons, check_notRule]
      cases check p with
      | false => rfl
      | true =>
        simp only [if_true]
        have : (fun e => do let v ← evElem d e; run (notRule p) v) = notP (fun e => do let v ← evElem d e; run p v) := by
          funext e; simp only [notP, M.bind_assoc, run_notRule]
        rw [this, allSpec_eq_not_some, M.bind_assoc, M.bind_assoc]
        congr 1
  | obj kvs =>
    simp only [quantSem, M.bind_assoc]
    apply bind_congr_ok
    intro l cv hcv
    apply hv
    intro hi
    exact h ⟨l, cv, hcv, hi⟩
  | null => exact absurd rfl h
  | bool b => exact hv (.bool b) (by simp [items])
  | num n => exact hv (.num n) (by simp [items])
  | str s => exact hv _ h

theorem quantSem_empty (c d : Json) (h : CollEmpty c d) :
    ∃ l, ∀ q p, quantSem q c p d = ⟨l, .ok (.bool false)⟩ := by
  cases c with
  | arr zs => cases h; exact ⟨[], fun _ _ => rfl⟩
  | obj kvs =>
    obtain ⟨l, cv, hcv, hi⟩ := h
    refine ⟨l, fun q p => ?_⟩
    simp only [quantSem, hcv, M.bind_ok, overValue_empty _ _ _ hi]
    simp
  | null => exact ⟨[], fun _ _ => rfl⟩
  | bool b => simp [CollEmpty, items] at h
  | num n => simp [CollEmpty, items] at h
  | str s => exact ⟨[], fun q p => by simp only [quantSem]; rw [overValue_empty _ _ _ h]; rfl⟩

/-! ## short circuit -/

theorem allSpec_decided (p : Json → M Json) (x : Json) (ys : List Json) (l : List Json) (r : Json)
    (hx : p x = ⟨l, .ok r⟩) (hr : truthy r = false) : allSpec p (x :: ys) = ⟨l, .ok false⟩ := by
  simp [allSpec, hx, hr]

theorem someSpec_decided (p : Json → M Json) (x : Json) (ys : List Json) (l : List Json) (r : Json)
    (hx : p x = ⟨l, .ok r⟩) (hr : truthy r = true) : someSpec p (x :: ys) = ⟨l, .ok true⟩ := by
  simp [someSpec, hx, hr]

theorem allSpec_failed (p : Json → M Json) (x : Json) (ys ys' : List Json) (hx : ∀ v, (p x).out ≠ .ok v) :
    allSpec p (x :: ys) = allSpec p (x :: ys') := by
  simp only [allSpec]; exact bind_not_ok _ _ _ hx

theorem someSpec_failed (p : Json → M Json) (x : Json) (ys ys' : List Json) (hx : ∀ v, (p x).out ≠ .ok v) :
    someSpec p (x :: ys) = someSpec p (x :: ys') := by
  simp only [someSpec]; exact bind_not_ok _ _ _ hx

theorem allSpec_prefix (p : Json → M Json) (r r' : List Json) (h : allSpec p r = allSpec p r') :
    ∀ pre, allSpec p (pre ++ r) = allSpec p (pre ++ r')
  | [] => h
  | x :: pre => by simp only [List.cons_append, allSpec, allSpec_prefix p r r' h pre]

theorem someSpec_prefix (p : Json → M Json) (r r' : List Json) (h : someSpec p r = someSpec p r') :
    ∀ pre, someSpec p (pre ++ r) = someSpec p (pre ++ r')
  | [] => h
  | x :: pre => by simp only [List.cons_append, someSpec, someSpec_prefix p r r' h pre]

/-- when every element in front answers (no failure) truthy, `all` reaches the element behind them -/
theorem allSpec_append_truthy (p : Json → M Json) (r : List Json) :
    ∀ pre, (∀ x ∈ pre, ∃ l v, p x = ⟨l, .ok v⟩ ∧ truthy v = true) →
      ∃ l, allSpec p (pre ++ r) = ⟨l ++ (allSpec p r).logs, (allSpec p r).out⟩
  | [], _ => ⟨[], by simp⟩
  | x :: pre, h => by
      obtain ⟨l, v, hx, hv⟩ := h x (by simp)
      obtain ⟨l', ih⟩ := allSpec_append_truthy p r pre (fun y hy => h y (by simp [hy]))
      exact ⟨l ++ l', by simp [allSpec, hx, hv, ih]⟩
