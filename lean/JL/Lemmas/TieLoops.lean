import JL.Rs
/-!
# Loops of translated code, whatever way they are spelled

The translator renders a Rust `for` loop as `Rs.for_ items state body` (the body answers `Rs.Flow.next/brk/ret`), an iterator
`fold` as `Rs.fold` (= `List.foldl`), `any`/`all` as `List.any`/`List.all`. A maintainer may turn any of these into any other
without changing what the function computes. The lemmas here bring every one of these spellings to ONE canonical form
chosen by the *model* (`List.foldl g`, `List.foldlM m` in `Option`, `List.any p`, `List.all p`, or a recursive specification),
for an ARBITRARY body / step function: what the body does in one iteration is a hypothesis (a "step equation"), to be proved
in the tie file by case analysis and `simp [rs, …]`. Nothing here mentions generated code.

Conventions: the model-side step (`g`, `m`, `p`) is given explicitly or found by unification with the model side of the goal;
the body is always found by unification with the goal; the step equation is the side goal named `hb` (and `hn` for "the fold
keeps `none`").

Two things learnt the hard way, which shape this file:
* every lemma rewrites the LOOP ITSELF (`Rs.for_ xs s body = …`, to be used with `rw`), never the `match … with | ret r => … | done s
  => …` the translator wraps around it: the `match` of a lemma and the `match` of a generated definition are different auxiliary
  matchers and do not unify; after the rewrite the wrapper reduces by `simp`/`rfl`/`cases`;
* a lemma named inside a `macro_rules` quotation must be declared BEFORE the macro (otherwise that alternative silently fails).
-/
namespace JL.Lemmas.TieLoops
open JL
set_option linter.unusedVariables false  -- hypotheses are named (`hb`, `hn`) so that the tie files can address the side goals by name

/-! ## `Rs.for_` against a recursive specification (the most general form) -/

/-- a function that satisfies the defining equations of the loop is the loop -/
theorem for_spec {α σ ρ : Type} (body : σ → α → Rs.Flow σ ρ) (spec : List α → σ → Rs.LoopOut σ ρ)
    (hnil : ∀ s, spec [] s = .done s)
    (hcons : ∀ x xs s, spec (x :: xs) s =
      match body s x with
      | .next s' => spec xs s'
      | .brk s' => .done s'
      | .ret r => .ret r) :
    ∀ (xs : List α) (s : σ), Rs.for_ xs s body = spec xs s
  | [], s => by rw [hnil]; rfl
  | x :: xs, s => by
      rw [hcons, Rs.for_]
      cases body s x with
      | next s' => exact for_spec body spec hnil hcons xs s'
      | brk s' => rfl
      | ret r => rfl

@[simp] theorem for_nil {α σ ρ : Type} (s : σ) (body : σ → α → Rs.Flow σ ρ) : Rs.for_ [] s body = .done s := rfl

theorem for_cons {α σ ρ : Type} (x : α) (xs : List α) (s : σ) (body : σ → α → Rs.Flow σ ρ) :
    Rs.for_ (x :: xs) s body =
      match body s x with
      | .next s' => Rs.for_ xs s' body
      | .brk s' => .done s'
      | .ret r => .ret r := rfl

/-- two bodies that do the same in every iteration give the same loop -/
theorem for_congr {α σ ρ : Type} (body body' : σ → α → Rs.Flow σ ρ) (hb : ∀ s x, body s x = body' s x)
    (xs : List α) (s : σ) : Rs.for_ xs s body = Rs.for_ xs s body' := by
  have : body = body' := by funext s x; exact hb s x
  rw [this]

/-! ## a body that never leaves the loop: `List.foldl` -/

/-- (i) no `break`, no `return`, no `?`: the loop is a left fold of its state -/
theorem for_next {α σ ρ : Type} (g : σ → α → σ) (body : σ → α → Rs.Flow σ ρ)
    (hb : ∀ s x, body s x = .next (g s x)) :
    ∀ (xs : List α) (s : σ), Rs.for_ xs s body = .done (xs.foldl g s)
  | [], _ => rfl
  | x :: xs, s => by rw [for_cons, hb]; exact for_next g body hb xs (g s x)

/-! ## a body that may leave by `return` (in particular by `?`): `List.foldlM` in `Option` -/

/-- (ii) every iteration either goes on with a new state or returns the fixed value `r` (what `expr?` does with `r = None`):
the loop is the monadic left fold of the `Option`-valued step -/
theorem for_try {α σ ρ : Type} (m : σ → α → Option σ) (r : ρ) (body : σ → α → Rs.Flow σ ρ)
    (hb : ∀ s x, body s x = match m s x with
      | some s' => .next s'
      | none => .ret r) :
    ∀ (xs : List α) (s : σ), Rs.for_ xs s body = match xs.foldlM m s with
      | some s' => .done s'
      | none => .ret r
  | [], _ => rfl
  | x :: xs, s => by
      rw [for_cons, hb, List.foldlM_cons]
      cases m s x with
      | none => rfl
      | some s' => exact for_try m r body hb xs s'

/-- a step that returns *some value depending on where it failed*: `Except`-valued model step -/
theorem for_except {α σ ρ : Type} (m : σ → α → Except ρ σ) (body : σ → α → Rs.Flow σ ρ)
    (hb : ∀ s x, body s x = match m s x with
      | .ok s' => .next s'
      | .error r => .ret r) :
    ∀ (xs : List α) (s : σ), Rs.for_ xs s body = match xs.foldlM m s with
      | .ok s' => .done s'
      | .error r => .ret r
  | [], _ => rfl
  | x :: xs, s => by
      rw [for_cons, hb, List.foldlM_cons]
      cases h : m s x with
      | error r => rfl
      | ok s' => exact for_except m body hb xs s'

/-! ## `break` on the first hit: `any`, `all`, `find` -/

/-- (iii) the general form: the state is left alone until an item satisfies `p`; then the loop ends with `hit` of that item -/
theorem for_find {α σ ρ : Type} (p : α → Bool) (hit : σ → α → σ) (body : σ → α → Rs.Flow σ ρ)
    (hb : ∀ s x, body s x = if p x then .brk (hit s x) else .next s) :
    ∀ (xs : List α) (s : σ), Rs.for_ xs s body = .done (match xs.find? p with
      | some x => hit s x
      | none => s)
  | [], _ => rfl
  | x :: xs, s => by
      rw [for_cons, hb, List.find?_cons]
      cases p x with
      | true => rfl
      | false => exact for_find p hit body hb xs s

/-- `let mut found = false; for x in xs { if p(x) { found = true; break; } }` is `xs.iter().any(p)`; only the iterations that
start with the flag down matter -/
theorem for_any {α ρ : Type} (p : α → Bool) (body : Bool → α → Rs.Flow Bool ρ)
    (hb : ∀ x, body false x = if p x then .brk true else .next false) :
    ∀ (xs : List α), Rs.for_ xs false body = .done (xs.any p)
  | [] => rfl
  | x :: xs => by
      rw [for_cons, hb, List.any_cons]
      cases p x with
      | true => rfl
      | false => exact for_any p body hb xs

/-- the same loop written without `break` (`if p(x) { found = true; }`, or `found = found || p(x)`, or `found |= p(x)`);
the item is quantified first, so that the step equation starts with the same `intro x` as that of `for_any` -/
theorem for_any_nobreak {α ρ : Type} (p : α → Bool) (body : Bool → α → Rs.Flow Bool ρ)
    (hb : ∀ x b, body b x = .next (b || p x)) (xs : List α) (b : Bool) :
    Rs.for_ xs b body = .done (b || xs.any p) := by
  rw [for_next (fun b x => b || p x) body (fun b x => hb x b)]
  congr 1
  induction xs generalizing b with
  | nil => simp
  | cons x xs ih => simp [ih, Bool.or_assoc]

/-- `let mut ok = true; for x in xs { ok = ok && p(x); }` -/
theorem for_all_nobreak {α ρ : Type} (p : α → Bool) (body : Bool → α → Rs.Flow Bool ρ)
    (hb : ∀ x b, body b x = .next (b && p x)) (xs : List α) (b : Bool) :
    Rs.for_ xs b body = .done (b && xs.all p) := by
  rw [for_next (fun b x => b && p x) body (fun b x => hb x b)]
  congr 1
  induction xs generalizing b with
  | nil => simp
  | cons x xs ih => simp [ih, Bool.and_assoc]

/-- `let mut ok = true; for x in xs { if !p(x) { ok = false; break; } }` is `xs.iter().all(p)` -/
theorem for_all {α ρ : Type} (p : α → Bool) (body : Bool → α → Rs.Flow Bool ρ)
    (hb : ∀ x, body true x = if p x then .next true else .brk false) :
    ∀ (xs : List α), Rs.for_ xs true body = .done (xs.all p)
  | [] => rfl
  | x :: xs => by
      rw [for_cons, hb, List.all_cons]
      cases p x with
      | false => rfl
      | true => exact for_all p body hb xs

/-- `for x in xs { if p(x) { return r; } }` with nothing else in the body -/
theorem for_any_ret {α σ ρ : Type} (p : α → Bool) (r : ρ) (body : σ → α → Rs.Flow σ ρ)
    (hb : ∀ s x, body s x = if p x then .ret r else .next s) :
    ∀ (xs : List α) (s : σ), Rs.for_ xs s body = if xs.any p then .ret r else .done s
  | [], _ => rfl
  | x :: xs, s => by
      rw [for_cons, hb, List.any_cons]
      cases p x with
      | true => rfl
      | false => simpa using for_any_ret p r body hb xs s


/-- `iter.any(q)` with the predicate spelled differently -/
theorem any_congr {α : Type} (p q : α → Bool) (hb : ∀ x, q x = p x) (l : List α) : Rs.any l q = l.any p := by
  have : q = p := by funext x; exact hb x
  rw [this]; rfl
theorem list_any_congr {α : Type} (p q : α → Bool) (hb : ∀ x, q x = p x) (l : List α) : l.any q = l.any p := by
  have : q = p := by funext x; exact hb x
  rw [this]
/-- `iter.all(q)` with the predicate spelled differently -/
theorem all_congr {α : Type} (p q : α → Bool) (hb : ∀ x, q x = p x) (l : List α) : Rs.all l q = l.all p := by
  have : q = p := by funext x; exact hb x
  rw [this]; rfl
theorem list_all_congr {α : Type} (p q : α → Bool) (hb : ∀ x, q x = p x) (l : List α) : l.all q = l.all p := by
  have : q = p := by funext x; exact hb x
  rw [this]

/-- `for x in xs { if !p(x) { return r; } }` with nothing else in the body -/
theorem for_all_ret {α σ ρ : Type} (p : α → Bool) (r : ρ) (body : σ → α → Rs.Flow σ ρ)
    (hb : ∀ s x, body s x = if p x then .next s else .ret r) :
    ∀ (xs : List α) (s : σ), Rs.for_ xs s body = if xs.all p then .done s else .ret r
  | [], _ => rfl
  | x :: xs, s => by
      rw [for_cons, hb, List.all_cons]
      cases p x with
      | false => rfl
      | true => simpa using for_all_ret p r body hb xs s

/-- `for_any_ret` with the item quantified first (so that its step equation starts with the same `intro x` as the others) -/
theorem for_any_ret' {α σ ρ : Type} (p : α → Bool) (r : ρ) (body : σ → α → Rs.Flow σ ρ)
    (hb : ∀ x s, body s x = if p x then .ret r else .next s) (xs : List α) (s : σ) :
    Rs.for_ xs s body = if xs.any p then .ret r else .done s :=
  for_any_ret p r body (fun s x => hb x s) xs s

/-! ## one entry point for the spellings of a search

`rs_loop_any p => tac` rewrites whichever of `iter.any(q)`, `for x in iter { if q(x) { found = true; break; } }`, the same
without `break` (`found = found || q(x)`), occurs in the goal into `List.any p` (`p`: the model's predicate) and proves the
step equation `hb` (`∀ x, …`) with `tac` - a spelling whose step equation `tac` cannot prove is not the one in the goal, and the
next one is tried; `rs_loop_all p => tac` likewise for `all`. -/
syntax "rs_loop_any " term:max " => " tacticSeq : tactic
macro_rules
  | `(tactic| rs_loop_any $p => $tac) => `(tactic|
      ((try dsimp only)
       (first
          | (rw [JL.Lemmas.TieLoops.any_congr $p]; case hb => $tac)
          | (rw [JL.Lemmas.TieLoops.for_any $p]; case hb => $tac)
          | (rw [JL.Lemmas.TieLoops.for_any_nobreak $p]; case hb => $tac)
          | (rw [JL.Lemmas.TieLoops.list_any_congr $p]; case hb => $tac))))
/-- the same with the early-return spelling as a further candidate: `for x in iter { if q(x) { return r; } } …`; the returned
value `r` is given (it is what the model answers when the search succeeds); the step equation then starts with `intro x` too -/
syntax "rs_loop_any_ret " term:max term:max " => " tacticSeq : tactic
macro_rules
  | `(tactic| rs_loop_any_ret $p $r => $tac) => `(tactic|
      ((try dsimp only)
       (first
          | (rw [JL.Lemmas.TieLoops.any_congr $p]; case hb => $tac)
          | (rw [JL.Lemmas.TieLoops.for_any $p]; case hb => $tac)
          | (rw [JL.Lemmas.TieLoops.for_any_nobreak $p]; case hb => $tac)
          | (rw [JL.Lemmas.TieLoops.for_any_ret' $p $r]; case hb => $tac)
          | (rw [JL.Lemmas.TieLoops.list_any_congr $p]; case hb => $tac))))
syntax "rs_loop_all " term:max " => " tacticSeq : tactic
macro_rules
  | `(tactic| rs_loop_all $p => $tac) => `(tactic|
      ((try dsimp only)
       (first
          | (rw [JL.Lemmas.TieLoops.all_congr $p]; case hb => $tac)
          | (rw [JL.Lemmas.TieLoops.for_all $p]; case hb => $tac)
          | (rw [JL.Lemmas.TieLoops.for_all_nobreak $p]; case hb => $tac)
          | (rw [JL.Lemmas.TieLoops.list_all_congr $p]; case hb => $tac))))

/-! ## the same for a predicate that is only known on the items of the list

A function that recurses through the closure of `all`/`any`/a loop body (`deep_eq`) has an induction hypothesis for the items
that actually occur only. The step equations below are therefore asked for members of the list. -/

theorem all_mem_congr {α : Type} (p q : α → Bool) : ∀ (l : List α) (hb : ∀ x ∈ l, q x = p x), Rs.all l q = l.all p
  | [], _ => rfl
  | x :: xs, h => by
      have ih := all_mem_congr p q xs (fun y hy => h y (List.mem_cons_of_mem _ hy))
      simp only [Rs.all] at ih ⊢
      simp only [List.all_cons, h x List.mem_cons_self, ih]

theorem list_all_mem_congr {α : Type} (p q : α → Bool) (l : List α) (hb : ∀ x ∈ l, q x = p x) : l.all q = l.all p :=
  all_mem_congr p q l hb

/-- `for x in xs { if !p(x) { ok = false; break; } }`, `p` known on the items -/
theorem for_all_mem {α ρ : Type} (p : α → Bool) (body : Bool → α → Rs.Flow Bool ρ) :
    ∀ (xs : List α) (hb : ∀ x ∈ xs, body true x = if p x then .next true else .brk false),
      Rs.for_ xs true body = .done (xs.all p)
  | [], _ => rfl
  | x :: xs, hb => by
      rw [for_cons, hb x List.mem_cons_self, List.all_cons]
      cases p x with
      | false => rfl
      | true => exact for_all_mem p body xs (fun y hy => hb y (List.mem_cons_of_mem _ hy))

/-- `for x in xs { ok = ok && p(x); }`, `p` known on the items -/
theorem for_all_nobreak_mem {α ρ : Type} (p : α → Bool) (body : Bool → α → Rs.Flow Bool ρ) :
    ∀ (xs : List α) (b : Bool) (hb : ∀ x ∈ xs, ∀ b, body b x = .next (b && p x)),
      Rs.for_ xs b body = .done (b && xs.all p)
  | [], b, _ => by simp
  | x :: xs, b, hb => by
      rw [for_cons, hb x List.mem_cons_self]
      show Rs.for_ xs (b && p x) body = _
      rw [for_all_nobreak_mem p body xs _ (fun y hy => hb y (List.mem_cons_of_mem _ hy)), List.all_cons, Bool.and_assoc]

/-- `for x in xs { if !p(x) { return r; } }`, `p` known on the items -/
theorem for_all_ret_mem {α σ ρ : Type} (p : α → Bool) (r : ρ) (body : σ → α → Rs.Flow σ ρ) :
    ∀ (xs : List α) (s : σ) (hb : ∀ x ∈ xs, ∀ s, body s x = if p x then .next s else .ret r),
      Rs.for_ xs s body = if xs.all p then .done s else .ret r
  | [], _, _ => rfl
  | x :: xs, s, hb => by
      rw [for_cons, hb x List.mem_cons_self, List.all_cons]
      cases p x with
      | false => rfl
      | true => simpa using for_all_ret_mem p r body xs s (fun y hy => hb y (List.mem_cons_of_mem _ hy))

/-- `rs_loop_all_mem p r => tac`: whichever of `iter.all(q)`, a `for` loop with a flag (with or without `break`), a `for` loop
that returns `r` at the first miss, occurs in the goal becomes `List.all p`; `tac` proves the step equation, which starts with
`intro x hx` (`hx`: `x` is an item of the list) -/
syntax "rs_loop_all_mem " term:max term:max " => " tacticSeq : tactic
macro_rules
  | `(tactic| rs_loop_all_mem $p $r => $tac) => `(tactic|
      ((try dsimp only)
       (first
          | (rw [JL.Lemmas.TieLoops.all_mem_congr $p]; case hb => $tac)
          | (rw [JL.Lemmas.TieLoops.for_all_mem $p]; case hb => $tac)
          | (rw [JL.Lemmas.TieLoops.for_all_nobreak_mem $p]; case hb => $tac)
          | (rw [JL.Lemmas.TieLoops.for_all_ret_mem $p $r]; case hb => $tac)
          | (rw [JL.Lemmas.TieLoops.list_all_mem_congr $p]; case hb => $tac))))

/-! ## `fold` with an `Option` (`Result`) accumulator: `List.foldlM` in `Option` -/

/-- a fold over options whose step keeps `none` stays `none` -/
theorem foldl_none {α β : Type} (step : Option β → α → Option β) (hn : ∀ c, step none c = none) (l : List α) :
    l.foldl step none = none := by
  induction l with
  | nil => rfl
  | cons a l ih => simp [hn, ih]

/-- `iter.fold(Some(init), step)` with a `step` that propagates the first failure is a monadic fold, from any accumulator -/
theorem foldl_opt {α β : Type} (m : β → α → Option β) (step : Option β → α → Option β)
    (hn : ∀ c, step none c = none) (hb : ∀ a v, step (some a) v = m a v) (l : List α) (acc : Option β) :
    l.foldl step acc = acc.bind (fun init => l.foldlM m init) := by
  induction l generalizing acc with
  | nil => cases acc <;> rfl
  | cons v vs ih =>
      cases acc with
      | none => simp [foldl_none step hn]
      | some a => simp only [List.foldl_cons, List.foldlM_cons, hb, ih]; rfl

/-- the same for `Rs.fold`, with the initial accumulator present -/
theorem fold_opt {α β : Type} (m : β → α → Option β) (step : Option β → α → Option β)
    (hn : ∀ c, step none c = none) (hb : ∀ a v, step (some a) v = m a v) (l : List α) (init : β) :
    Rs.fold l (some init) step = l.foldlM m init := by
  rw [Rs.fold, foldl_opt m step hn hb]; rfl

theorem list_fmap {α β : Type} (g : α → β) (l : List α) : g <$> l = l.map g := rfl

/-- `iter.map(f).fold(Some(init), step)` -/
theorem fold_map_opt {α β γ : Type} (m : β → α → Option β) (f : α → γ) (step : Option β → γ → Option β)
    (hn : ∀ c, step none c = none) (hb : ∀ a v, step (some a) (f v) = m a v) (l : List α) (init : β) :
    Rs.fold (Rs.map l f) (some init) step = l.foldlM m init := by
  rw [Rs.fold, Rs.map, list_fmap, List.foldl_map, foldl_opt m (fun a v => step a (f v)) (fun c => hn (f c)) hb]; rfl

/-- the same after `Rs.fold` has been unfolded (`simp [rs]`) -/
theorem foldl_opt_some {α β : Type} (m : β → α → Option β) (step : Option β → α → Option β)
    (hn : ∀ c, step none c = none) (hb : ∀ a v, step (some a) v = m a v) (l : List α) (init : β) :
    l.foldl step (some init) = l.foldlM m init := by
  rw [foldl_opt m step hn hb]; rfl

theorem foldl_map_opt {α β γ : Type} (m : β → α → Option β) (f : α → γ) (step : Option β → γ → Option β)
    (hn : ∀ c, step none c = none) (hb : ∀ a v, step (some a) (f v) = m a v) (l : List α) (init : β) :
    (l.map f).foldl step (some init) = l.foldlM m init := by
  rw [List.foldl_map, foldl_opt m (fun a v => step a (f v)) (fun c => hn (f c)) hb]; rfl

/-- a plain fold is a plain fold (the step function may be spelled differently) -/
theorem fold_congr {α β : Type} (g step : β → α → β) (hb : ∀ a v, step a v = g a v) (l : List α) (init : β) :
    Rs.fold l init step = l.foldl g init := by
  have : step = g := by funext a v; exact hb a v
  rw [this]; rfl


/-! ## one entry point for the three spellings of an `Option`-accumulating loop

`rs_loop_opt m` rewrites whichever of `iter.map(f).fold(Some(init), step)`, `iter.fold(Some(init), step)`,
`for x in iter { … e? … }` occurs in the goal into `List.foldlM m` (`m`: the model's step), closes what does not depend on the
spelling (`hn`: the fold keeps `None`; the `match` around a `for` loop), and leaves the step equation `hb`
(`∀ a v, <one iteration of the translated code> = <m a v>`), to be proved by `intro a v`, case analysis on what `m` looks at,
and `simp [rs, …]`. -/
syntax "rs_loop_opt " term:max : tactic
macro_rules
  | `(tactic| rs_loop_opt $m) => `(tactic|
      ((try dsimp only)
       (first
          | rw [JL.Lemmas.TieLoops.fold_map_opt $m]
          | rw [JL.Lemmas.TieLoops.fold_opt $m]
          | rw [JL.Lemmas.TieLoops.foldl_map_opt $m]
          | rw [JL.Lemmas.TieLoops.foldl_opt_some $m]
          | rw [JL.Lemmas.TieLoops.for_try $m none])
       (try case hn => intro c; first | rfl | simp [rs])
       (try (first | rfl | (cases List.foldlM $m _ _ <;> rfl)))))

theorem foldl_congr {α β : Type} (g step : β → α → β) (hb : ∀ a v, step a v = g a v) (l : List α) (init : β) :
    l.foldl step init = l.foldl g init := by
  have : step = g := by funext a v; exact hb a v
  rw [this]

/-! ## one entry point for the spellings of a plain accumulation

`rs_loop_foldl g` rewrites whichever of `iter.fold(init, step)`, `for x in iter { … }` (a body that neither breaks nor returns)
occurs in the goal into `List.foldl g` (`g`: the model's step) and leaves the step equation `hb`. -/
syntax "rs_loop_foldl " term:max : tactic
macro_rules
  | `(tactic| rs_loop_foldl $g) => `(tactic|
      ((try dsimp only)
       (first
          | rw [JL.Lemmas.TieLoops.fold_congr $g]
          | rw [JL.Lemmas.TieLoops.for_next $g]
          | rw [JL.Lemmas.TieLoops.foldl_congr $g])))

/-- pushing the items one by one appends the list -/
theorem foldl_push {α : Type} (xs : List α) (acc : List α) : xs.foldl (fun a x => a ++ [x]) acc = acc ++ xs := by
  induction xs generalizing acc with
  | nil => simp
  | cons x xs ih => simp [ih]

/-- pushing `f x` for every item appends the mapped list -/
theorem foldl_push_map {α β : Type} (f : α → β) (xs : List α) (acc : List β) :
    xs.foldl (fun a x => a ++ [f x]) acc = acc ++ xs.map f := by
  induction xs generalizing acc with
  | nil => simp
  | cons x xs ih => simp [ih]

/-- `let mut out = …; for x in xs { out.push(f(x)); }` is `xs.iter().map(f).collect()` appended to `out`. Here `f` is NOT
given: it is read off the body when the step equation `hb` is proved by `intro acc x; rfl` (or after `simp only [rs]`), which
must therefore be done before the main goal is touched. -/
theorem for_push_map {α β ρ : Type} (f : α → β) (body : List β → α → Rs.Flow (List β) ρ)
    (hb : ∀ acc x, body acc x = .next (acc ++ [f x])) (xs : List α) (acc : List β) :
    Rs.for_ xs acc body = .done (acc ++ xs.map f) := by
  rw [for_next (fun a x => a ++ [f x]) body hb, foldl_push_map]

/-- one step of `merge`: an array operand is spliced in, any other operand is appended -/
def mergeStep (acc : List Json) (i : Json) : List Json :=
  acc ++ (match i with
    | .arr xs => xs
    | v => [v])

theorem foldl_mergeStep (items : List Json) (acc : List Json) : items.foldl mergeStep acc = acc ++ ArrOp.merge items := by
  induction items generalizing acc with
  | nil => simp [ArrOp.merge]
  | cons i is ih =>
      rw [List.foldl_cons, ih]
      cases i <;> simp [mergeStep, ArrOp.merge, List.append_assoc]

/-! ## model side: `List.foldlM` in `Option` against a hand-written recursion -/

/-- a recursive walk that stops at the first failure is the monadic left fold of its step -/
theorem foldlM_opt_rec {α β : Type} (m : β → α → Option β) (walk : List α → β → Option β)
    (hnil : ∀ a, walk [] a = some a)
    (hcons : ∀ x xs a, walk (x :: xs) a = match m a x with
      | some v => walk xs v
      | none => none) :
    ∀ (xs : List α) (a : β), xs.foldlM m a = walk xs a
  | [], a => by rw [hnil]; rfl
  | x :: xs, a => by
      rw [List.foldlM_cons, hcons]
      cases m a x with
      | none => rfl
      | some v => exact foldlM_opt_rec m walk hnil hcons xs v

/-- two `Option`-valued steps that agree give the same monadic fold -/
theorem foldlM_opt_congr {α β : Type} (m m' : β → α → Option β) (h : ∀ a x, m a x = m' a x) (xs : List α) (a : β) :
    xs.foldlM m a = xs.foldlM m' a := by
  have : m = m' := by funext a x; exact h a x
  rw [this]

/-! ## model side: the steps of the model's `Option`-accumulating folds, by name -/

/-- one step of `abstract_max` -/
def maxStep (max : F64) (v : Json) : Option F64 :=
  match JsOp.toNumber v with
  | some n => some (if F64.gt n max then n else max)
  | none => none
/-- one step of `abstract_min` -/
def minStep (min : F64) (v : Json) : Option F64 :=
  match JsOp.toNumber v with
  | some n => some (if F64.lt n min then n else min)
  | none => none
/-- one step of `parse_float_add` -/
def addStep (total : F64) (v : Json) : Option F64 :=
  match JsOp.parseFloat v with
  | some n => some (F64.add total n)
  | none => none
/-- one step of `parse_float_mul` -/
def mulStep (total : F64) (v : Json) : Option F64 :=
  match JsOp.parseFloat v with
  | some n => some (F64.mul total n)
  | none => none

/-- `Data.walk` (the path walk of `get_str_key`) is the monadic left fold of `Data.step` -/
theorem walk_eq_foldlM (segs : List Str) (acc : Json) : Data.walk segs acc = segs.foldlM Data.step acc :=
  (foldlM_opt_rec Data.step Data.walk (fun _ => rfl) (fun x xs a => by rw [Data.walk]; cases Data.step a x <;> rfl) segs acc).symm

theorem abstractMax_eq (items : List Json) : JsOp.abstractMax items = items.foldlM maxStep (F64.inf true) := rfl
theorem abstractMin_eq (items : List Json) : JsOp.abstractMin items = items.foldlM minStep (F64.inf false) := rfl
theorem parseFloatAdd_eq (vals : List Json) : JsOp.parseFloatAdd vals = vals.foldlM addStep F64.zero := rfl
theorem parseFloatMul_eq (vals : List Json) : JsOp.parseFloatMul vals = vals.foldlM mulStep F64.one := rfl

end JL.Lemmas.TieLoops
