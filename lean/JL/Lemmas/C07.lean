import JL.Spec.ES
import JL.Lemmas.F64Order
/-!
# Lemmas for C07: the spec's Number::equal is the model's `F64.eq`; conversions; the depth budget
of `ES.looseFuel`; the spec's ToString is `JsOp.toString`.
-/
namespace JL.Lemmas.C07
open JL JL.Spec.ES JL.Lemmas.F64Order

theorem isZero_fin (a : Bool) (k : Nat) : (F64.fin a k).isZero = (k == 0) := by
  cases k <;> simp [F64.isZero]

/-- 6.1.6.1.13 Number::equal, written as the standard's step list, is IEEE `==` of the model -/
theorem numberEqual_eq (x y : F64) : numberEqual x y = F64.eq x y := by
  cases x <;> cases y <;> simp [numberEqual, F64.eq, F64.isNaN, isZero_fin] <;> (try simp [F64.isZero]) <;> grind

theorem eq_nan_right (x : F64) : F64.eq x .nan = false := (nan_right x).2.2.1
theorem eq_nan_left (x : F64) : F64.eq .nan x = false := (nan_left x).2.2.1

theorem toNumber_boolean (s2n) (b : Bool) : (Val.boolean b).toNumber s2n = if b then F64.one else F64.zero := by
  cases b <;> rfl
theorem toNumber_string (s2n) (s : Str) : (Val.string s).toNumber s2n = optNumber (s2n s) := rfl
theorem toNumber_number (s2n) (x : F64) : (Val.number x).toNumber s2n = x := rfl
theorem toNumber_null (s2n) : Val.null.toNumber s2n = F64.zero := rfl
theorem toNumber_object (s2n) (j : Json) : (Val.object j).toNumber s2n = optNumber (s2n (JsOp.toString j)) := rfl

/-- ToNumber(ToPrimitive(v)) = ToNumber(v) -/
theorem toNumber_toPrimitive (s2n) (v : Val) : v.toPrimitive.toNumber s2n = v.toNumber s2n := by
  cases v <;> rfl

theorem eq_optNumber_right (x : F64) (o : Option F64) :
    F64.eq x (optNumber o) = (match o with | some y => F64.eq x y | none => false) := by
  cases o <;> simp [optNumber, eq_nan_right]
theorem eq_optNumber_left (y : F64) (o : Option F64) :
    F64.eq (optNumber o) y = (match o with | some x => F64.eq x y | none => false) := by
  cases o <;> simp [optNumber, eq_nan_left]

/-- the depth budget 4 of `Val.looselyEqual` is never exhausted: any larger budget gives the same answer -/
theorem looseFuel_stable (s2n) (n : Nat) (x y : Val) : looseFuel s2n (n + 4) x y = looseFuel s2n 4 x y := by
  cases x <;> cases y <;> simp [looseFuel, Val.type, Val.toPrimitive]

/-- the answer `false` at budget 0 is never what decides a comparison started with budget ≥ 4:
stated as monotonicity of the budget -/
theorem looseFuel_mono (s2n) (n : Nat) (h : 4 ≤ n) (x y : Val) : looseFuel s2n n x y = looseFuel s2n 4 x y := by
  obtain ⟨m, rfl⟩ : ∃ m, n = m + 4 := ⟨n - 4, by omega⟩
  exact looseFuel_stable s2n m x y

/-- the spec relation is symmetric, whatever StringToNumber is -/
theorem looselyEqual_symm (s2n) (a b : Json) : looselyEqual s2n a b = looselyEqual s2n b a := by
  cases a <;> cases b <;>
    simp [looselyEqual, Val.looselyEqual, looseFuel, ofJson, Val.type, Val.toPrimitive, strictlyEqual,
      numberEqual_eq, toNumber_boolean, toNumber_string] <;>
    first | exact F64Order.eq_symm _ _ | grind

/-! ## ToString -/

theorem toString_str (s : Str) : JsOp.toString (.str s) = s := by unfold JsOp.toString; rfl

/-- the string an array element contributes to `join` -/
def elemStr : Json → Str
  | .null => []
  | x => JsOp.toString x

theorem toStringElems_cons (x : Json) (rest : List Json) :
    JsOp.toStringElems (x :: rest) = elemStr x :: JsOp.toStringElems rest := by
  cases x <;> simp [JsOp.toStringElems, elemStr]

theorem joinWith_cons_cons (sep x y : Str) (rest : List Str) :
    joinWith sep (x :: y :: rest) = x ++ sep ++ joinWith sep (y :: rest) := rfl

theorem joinFrom_cons (first : Bool) (x : Json) (rest : List Json) (hx : JsOp.toString x = toStr x) :
    joinFrom first (x :: rest) = (if first then [] else [',']) ++ elemStr x ++ joinFrom false rest := by
  cases x <;> simp [joinFrom, elemStr, hx]

mutual
theorem toString_es : ∀ v : Json, JsOp.toString v = toStr v
  | .null => by unfold JsOp.toString toStr; rfl
  | .bool true => by unfold JsOp.toString toStr; rfl
  | .bool false => by unfold JsOp.toString toStr; rfl
  | .num n => by unfold JsOp.toString toStr; rfl
  | .str s => by unfold JsOp.toString toStr; rfl
  | .obj _ => by unfold JsOp.toString toStr; rfl
  | .arr xs => by
      unfold JsOp.toString toStr
      exact (elems_es xs).1
theorem elems_es : ∀ xs : List Json,
    joinWith [','] (JsOp.toStringElems xs) = joinFrom true xs ∧
    joinFrom false xs = (match xs with | [] => [] | _ :: _ => ',' :: joinWith [','] (JsOp.toStringElems xs))
  | [] => by simp [JsOp.toStringElems, joinWith, joinFrom]
  | x :: rest => by
      have ih := elems_es rest
      have hx := toString_es x
      cases rest with
      | nil =>
        simp [toStringElems_cons, JsOp.toStringElems, joinWith, joinFrom_cons _ _ _ hx, joinFrom]
      | cons y ys =>
        have ih2 := ih.2
        simp only [toStringElems_cons] at ih2 ⊢
        simp only [joinFrom_cons _ _ _ hx, ih2, joinWith_cons_cons]
        simp
end

end JL.Lemmas.C07
