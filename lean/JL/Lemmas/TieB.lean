import JL.Rs
/-!
# Helper lemmas for the tie theorems of `JL/Tie` (fold-shaped functions, numeric literals, casts)
-/
namespace JL.Lemmas.TieB
open JL

theorem list_fmap {α β : Type} (g : α → β) (l : List α) : g <$> l = l.map g := rfl

/-- a fold over options whose step keeps `none` stays `none` -/
theorem foldl_none {α β : Type} (g : Option β → α → Option β) (hg : ∀ c, g none c = none) (l : List α) :
    l.foldl g none = none := by
  induction l with
  | nil => rfl
  | cons a l ih => simp [hg, ih]

/-- `iter().map(f).fold(Ok(init), step)` with a `step` that propagates the first error is a monadic fold -/
theorem fold_opt_tie {α β γ : Type} (f : α → γ) (step : Option β → γ → Option β) (m : β → α → Option β)
    (h1 : ∀ c, step none c = none) (h2 : ∀ a v, step (some a) (f v) = m a v) (l : List α) (init : β) :
    Rs.fold (Rs.map l f) (some init) step = l.foldlM m init := by
  simp only [Rs.fold, Rs.map, list_fmap]
  induction l generalizing init with
  | nil => simp
  | cons v vs ih =>
    simp only [List.map_cons, List.foldl_cons, List.foldlM_cons, h2]
    cases h : m init v with
    | none => simp [foldl_none _ h1]
    | some n => simp [ih]

/-! ## `to_number_value`: literals and in-range casts -/
theorem lit63 : (1 * 2 ^ 1137 : Nat) = 2 ^ 63 * F64.S := by decide +kernel
theorem lit64 : (1 * 2 ^ 1138 : Nat) = 2 ^ 64 * F64.S := by decide +kernel
theorem S_pos : 0 < F64.S := by decide +kernel

theorem fract_eq_zero (x : F64) : Rs.eq (Rs.fract x) F64.zero = x.fractIsZero := by
  cases x <;> simp [rs, F64.eq, F64.zero, F64.fractIsZero]

theorem to_i64_eq_trunc (x : F64) (h1 : F64.ge x (F64.negate I64_LIMIT) = true) (h2 : F64.lt x I64_LIMIT = true) :
    Rs.to_i64 x = x.truncInt := by
  have hS := S_pos
  cases x with
  | nan => simp [F64.lt] at h2
  | inf n => cases n <;> simp_all [F64.lt, F64.ge, F64.le, I64_LIMIT, F64.negate]
  | fin n k =>
    simp only [I64_LIMIT, F64.negate, F64.ge, F64.le, F64.lt] at h1 h2
    simp only [rs, F64.toI64Sat, F64.truncInt]
    generalize F64.S = S at *
    cases n
    · simp at h1 h2
      have : k / S < 2 ^ 63 := (Nat.div_lt_iff_lt_mul hS).2 (by omega)
      generalize k / S = q at *
      simp; omega
    · simp at h1 h2
      have : k / S ≤ 2 ^ 63 := Nat.div_le_of_le_mul (by rw [Nat.mul_comm]; omega)
      generalize k / S = q at *
      simp; omega

theorem to_u64_eq_trunc (x : F64) (h1 : F64.ge x I64_LIMIT = true) (h2 : F64.lt x U64_LIMIT = true) :
    Rs.to_u64 x = x.truncInt.toNat := by
  have hS := S_pos
  cases x with
  | nan => simp [F64.lt] at h2
  | inf n => cases n <;> simp_all [F64.lt, F64.ge, F64.le, I64_LIMIT, U64_LIMIT]
  | fin n k =>
    simp only [I64_LIMIT, U64_LIMIT, F64.ge, F64.le, F64.lt] at h1 h2
    simp only [rs, F64.truncInt]
    generalize F64.S = S at *
    cases n
    · simp at h1 h2
      have : k / S < 2 ^ 64 := (Nat.div_lt_iff_lt_mul hS).2 (by omega)
      generalize k / S = q at *
      simp; omega
    · simp at h1 h2
      have : 0 < 2 ^ 63 * S := Nat.mul_pos (by decide) hS
      omega

theorem lim63 : F64.fin false (1 * 2 ^ 1137) = I64_LIMIT := by rw [lit63]; rfl
theorem lim64 : F64.fin false (1 * 2 ^ 1138) = U64_LIMIT := by rw [lit64]; rfl

/-! ## `number_eq`: the literal `1e30`, the in-range `as i128` -/
theorem lit1e30 : F64.fin false (3552713678800501 * 2 ^ 1122) = ArrOp.F1e30 := by decide +kernel
theorem lit1e30' : (3552713678800501 * 2 ^ 1122 : Nat) = (3552713678800501 * 2 ^ 48) * F64.S := by decide +kernel

theorem to_i128_eq_trunc (f : F64) (h : F64.lt f.abs ArrOp.F1e30 = true) : Rs.to_i128 f = f.truncInt := by
  have hS := S_pos
  rw [← lit1e30, lit1e30'] at h
  cases f with
  | nan => simp [F64.lt, F64.abs] at h
  | inf n => simp [F64.lt, F64.abs] at h
  | fin n k =>
    simp only [F64.abs, F64.lt] at h
    simp only [Rs.to_i128, F64.truncInt]
    generalize F64.S = S at *
    simp at h
    have : k / S < 3552713678800501 * 2 ^ 48 := (Nat.div_lt_iff_lt_mul hS).2 (by omega)
    generalize k / S = q at *
    cases n <;> simp <;> omega

/-- `f as i128` behind any name (`simp` must not unfold `Rs.to_i128` on a symbolic float: it is generalised to `g` first) -/
theorem i128_exact (g : F64 → Int) (h128 : Rs.to_i128 = g) (f : F64)
    (c : (f.fractIsZero && F64.lt f.abs ArrOp.F1e30) = true) : g f = f.truncInt := by
  simp only [Bool.and_eq_true] at c
  rw [← h128]; exact to_i128_eq_trunc f c.2

/- The tie of the helper `as_int` of `number_eq` is proved inside `JL/Tie/number_eq.lean`, where the helper is unfolded in
place whatever it is called (`unfold_gen_aux`): no lemma here mentions a generated auxiliary by name. -/

/-! ## `deep_eq`: depth bounds, and the closures over `zip`/`all`/`Map::get` against the model's structural recursion -/
theorem depth_le_depthList {a : Json} : ∀ {xs : List Json}, a ∈ xs → Json.depth a ≤ Json.depthList xs
  | [], h => by cases h
  | x :: xs, h => by
    simp only [Json.depthList]
    rcases List.mem_cons.1 h with rfl | h
    · omega
    · have := depth_le_depthList h; omega

theorem depth_le_depthKvs {k : Str} {a : Json} : ∀ {kvs : List (Str × Json)}, (k, a) ∈ kvs → Json.depth a ≤ Json.depthKvs kvs
  | [], h => by cases h
  | (k', x) :: xs, h => by
    simp only [Json.depthKvs]
    rcases List.mem_cons.1 h with h | h
    · cases h; omega
    · have := depth_le_depthKvs h; omega

theorem lookupEq_eq (k : Str) (a : Json) : ∀ y, ArrOp.lookupEq k a y = (Json.lookup k y).map (ArrOp.deepEq a)
  | [] => by simp [ArrOp.lookupEq, Json.lookup]
  | (k', b) :: rest => by
    simp only [ArrOp.lookupEq, Json.lookup]
    split
    · simp
    · exact lookupEq_eq k a rest

theorem zip_all_tie (P : Json × Json → Bool) : ∀ (x y : List Json), (∀ a ∈ x, ∀ b, P (a, b) = ArrOp.deepEq a b) →
    (Rs.eq (Rs.len x) (Rs.len y) && Rs.all (Rs.zip x y) P) = ArrOp.deepEqList x y
  | [], [], _ => by simp [rs, ArrOp.deepEqList]
  | [], _ :: _, _ => by simp [rs, ArrOp.deepEqList]
  | _ :: _, [], _ => by simp [rs, ArrOp.deepEqList]
  | a :: as, b :: bs, h => by
    have ih := zip_all_tie P as bs (fun a ha b => h a (List.mem_cons_of_mem _ ha) b)
    simp only [rs] at ih ⊢
    simp [ArrOp.deepEqList, ← ih, h a List.mem_cons_self b, Bool.and_left_comm]

theorem kvs_all_tie (P : Str × Json → Bool) (y : List (Str × Json)) : ∀ (x : List (Str × Json)),
    (∀ k a, (k, a) ∈ x → P (k, a) = Rs.map_or (Rs.get y k) false (fun b => ArrOp.deepEq a b)) →
    Rs.all x P = ArrOp.deepEqKvs x y
  | [], _ => by simp [rs, ArrOp.deepEqKvs]
  | (k, a) :: rest, h => by
    have ih := kvs_all_tie P y rest (fun k a hk => h k a (List.mem_cons_of_mem _ hk))
    simp only [rs] at ih h ⊢
    simp only [ArrOp.deepEqKvs, List.all_cons, ih, h k a List.mem_cons_self, lookupEq_eq]
    cases Json.lookup k y <;> simp

/-! ### the same, in congruence form: the closure of the translated code is replaced by the model's (for the items that
actually occur, which is where the induction hypothesis holds), whatever stands around the `all` -/

/-- `deepEqList` without recursion: same length, and equal item by item -/
theorem deepEqList_eq : ∀ (x y : List Json),
    ArrOp.deepEqList x y = (x.length == y.length && (x.zip y).all (fun p => ArrOp.deepEq p.1 p.2))
  | [], [] => by simp [ArrOp.deepEqList]
  | [], _ :: _ => by simp [ArrOp.deepEqList]
  | _ :: _, [] => by simp [ArrOp.deepEqList]
  | a :: as, b :: bs => by
    simp [ArrOp.deepEqList, deepEqList_eq as bs, Bool.and_left_comm]

/-- what `deepEqKvs x y` asks of one entry of `x` -/
def kvOk (y : List (Str × Json)) (p : Str × Json) : Bool :=
  match Json.lookup p.1 y with
  | some b => ArrOp.deepEq p.2 b
  | none => false

/-- `deepEqKvs` without recursion -/
theorem deepEqKvs_eq (y : List (Str × Json)) : ∀ (x : List (Str × Json)), ArrOp.deepEqKvs x y = x.all (kvOk y)
  | [] => by simp [ArrOp.deepEqKvs]
  | (k, a) :: rest => by
    simp only [ArrOp.deepEqKvs, List.all_cons, deepEqKvs_eq y rest, lookupEq_eq, kvOk]
    cases Json.lookup k y <;> simp

theorem all_congr_mem {α : Type} (P Q : α → Bool) : ∀ (x : List α), (∀ a ∈ x, P a = Q a) → x.all P = x.all Q
  | [], _ => rfl
  | a :: as, h => by
    simp only [List.all_cons, h a List.mem_cons_self,
      all_congr_mem P Q as (fun a ha => h a (List.mem_cons_of_mem _ ha))]

theorem all_zip_congr {α β : Type} (P Q : α × β → Bool) : ∀ (x : List α) (y : List β),
    (∀ a ∈ x, ∀ b, P (a, b) = Q (a, b)) → (x.zip y).all P = (x.zip y).all Q
  | [], _, _ => by simp
  | _ :: _, [], _ => by simp
  | a :: as, b :: bs, h => by
    simp only [List.zip_cons_cons, List.all_cons, h a List.mem_cons_self b,
      all_zip_congr P Q as bs (fun a ha b => h a (List.mem_cons_of_mem _ ha) b)]

/-- `x.iter().all(P)` where `P` agrees with `Q` on the items of `x` -/
theorem rs_all_congr_mem {α : Type} (Q P : α → Bool) (x : List α) (h : ∀ a ∈ x, P a = Q a) : Rs.all x P = x.all Q :=
  all_congr_mem P Q x h
/-- `x.iter().zip(y.iter()).all(P)` where `P` agrees with `Q` on the pairs whose first component is an item of `x` -/
theorem rs_all_zip_congr {α β : Type} (Q P : α × β → Bool) (x : List α) (y : List β)
    (h : ∀ a ∈ x, ∀ b, P (a, b) = Q (a, b)) : Rs.all (Rs.zip x y) P = (x.zip y).all Q :=
  all_zip_congr P Q x y h

end JL.Lemmas.TieB
