import JL.Lemmas.StrNum
/-!
# `radix_literal` (`0x…`, `0o…`, `0b…`) computes the correctly rounded value of the integer literal

The model keeps the leading 60+ bits of the literal exactly, counts the bits shifted out and ORs a
sticky bit into the kept part; the result is `ofNat (acc | sticky) * 2^shift`. This file proves that this
is the exact integer rounded once to nearest-even (`F64.roundUnits false (n * S) 1`).
-/
namespace JL.Lemmas.StrNum
open JL JL.JsOp JL.Spec

/-! ## the digit loop of `radix_literal` -/

/-- what the loop state `(acc, shift, sticky)` knows about the exact value `v` read so far -/
def LoopInv (st : Nat × Nat × Bool) (v : Nat) : Prop :=
  ∃ low, v = st.1 * 2 ^ st.2.1 + low ∧ low < 2 ^ st.2.1 ∧ (st.2.2 = true ↔ low ≠ 0) ∧
    (0 < st.2.1 → 2 ^ 60 ≤ st.1) ∧ st.1 < 2 ^ 64

theorem loop_step (bits : Nat) (hb : bits ≤ 4) (acc shift : Nat) (sticky : Bool) (v d : Nat)
    (hd : d < 2 ^ bits) (h : LoopInv (acc, shift, sticky) v) :
    LoopInv (if acc / 2 ^ 60 = 0 then (acc * 2 ^ bits + d, shift, sticky)
             else (acc, shift + bits, sticky || d != 0)) (v * 2 ^ bits + d) := by
  obtain ⟨low, hv, hlow, hst, hacc, hlt⟩ := h
  simp only at hv hlow hst hacc hlt
  have hpb : 2 ^ bits ≤ 16 := by
    have : bits = 0 ∨ bits = 1 ∨ bits = 2 ∨ bits = 3 ∨ bits = 4 := by omega
    rcases this with rfl | rfl | rfl | rfl | rfl <;> decide
  by_cases hsmall : acc / 2 ^ 60 = 0
  · have hacc60 : acc < 2 ^ 60 := by
      rcases Nat.div_eq_zero_iff.mp hsmall with h | h
      · simp at h
      · exact h
    have hs0 : shift = 0 := by
      rcases Nat.eq_zero_or_pos shift with h | h
      · exact h
      · have := hacc h; omega
    subst hs0
    simp only [hsmall, if_true]
    have hlow0 : low = 0 := by simpa using hlow
    subst hlow0
    refine ⟨0, by simp [hv], by simp, by simpa using hst, by simp, ?_⟩
    simp only
    have : acc * 2 ^ bits + d < (acc + 1) * 2 ^ bits := by rw [Nat.add_mul]; omega
    have h2 : (acc + 1) * 2 ^ bits ≤ 2 ^ 60 * 16 := Nat.mul_le_mul (by omega) hpb
    omega
  · simp only [hsmall, if_false]
    have hacc60 : 2 ^ 60 ≤ acc := by
      apply Nat.le_of_not_lt
      intro h
      exact hsmall (Nat.div_eq_of_lt h)
    refine ⟨low * 2 ^ bits + d, ?_, ?_, ?_, fun _ => hacc60, hlt⟩
    · simp only [hv, Nat.pow_add, Nat.add_mul, Nat.mul_assoc, Nat.add_assoc]
    · simp only [Nat.pow_add]
      have : low * 2 ^ bits + d < (low + 1) * 2 ^ bits := by rw [Nat.add_mul]; omega
      have h2 : (low + 1) * 2 ^ bits ≤ 2 ^ shift * 2 ^ bits := Nat.mul_le_mul_right _ (by omega)
      omega
    · simp only [Bool.or_eq_true, bne_iff_ne, ne_eq]
      have hp : 0 < 2 ^ bits := Nat.two_pow_pos bits
      constructor
      · rintro (h | h)
        · have := hst.mp h
          have : 0 < low * 2 ^ bits := Nat.mul_pos (by omega) hp
          omega
        · omega
      · intro h
        by_cases hd0 : d = 0
        · left; apply hst.mpr; intro hl; subst hl; subst hd0; simp at h
        · right; exact hd0

theorem mv_foldl (radix : Nat) (v : Nat) (ds : List Nat) :
    ds.foldl (fun a d => a * radix + d) v = v * radix ^ ds.length + ES.mv radix ds := by
  unfold ES.mv
  induction ds generalizing v with
  | nil => simp
  | cons d ds ih =>
    simp only [List.foldl_cons, List.length_cons]
    rw [ih, ih (0 * radix + d)]
    simp [Nat.pow_succ, Nat.add_mul, Nat.mul_assoc, Nat.add_assoc, Nat.mul_comm radix]

theorem radixLoop_spec (radix bits : Nat) (hb : bits ≤ 4) (hr : radix = 2 ^ bits) (cs : Str) :
    ∀ (st : Nat × Nat × Bool) (v : Nat), LoopInv st v →
      match ES.digitsOnly (toDigit radix) cs with
      | none => radixLoop radix bits cs st = none
      | some ds => ∃ st', radixLoop radix bits cs st = some st' ∧
          LoopInv st' (ds.foldl (fun a d => a * radix + d) v) := by
  induction cs with
  | nil => intro st v h; exact ⟨st, by simp [radixLoop], by simpa using h⟩
  | cons c cs ih =>
    intro st v h
    obtain ⟨acc, shift, sticky⟩ := st
    simp only [ES.digitsOnly, radixLoop]
    cases hd : toDigit radix c with
    | none => simp
    | some d =>
      have hdlt : d < 2 ^ bits := hr ▸ toDigit_lt radix c d hd
      have hstep := loop_step bits hb acc shift sticky v d hdlt h
      rw [← hr] at hstep
      simp only []
      by_cases hsmall : acc / 2 ^ 60 = 0
      · simp only [hsmall, if_true] at hstep ⊢
        have := ih _ _ hstep
        cases hds : ES.digitsOnly (toDigit radix) cs with
        | none => simp only [hds] at this ⊢; rw [hr] at this ⊢; exact this
        | some ds => simp only [hds] at this ⊢; rw [hr] at this ⊢; simpa using this
      · simp only [hsmall, if_false] at hstep ⊢
        have := ih _ _ hstep
        cases hds : ES.digitsOnly (toDigit radix) cs with
        | none => simp only [hds] at this ⊢; exact this
        | some ds => simp only [hds] at this ⊢; simpa using this


/-! ## bit length -/

theorem bitLen_pos (q : Nat) (h : q ≠ 0) : 0 < F64.bitLen q := by simp [F64.bitLen, h]

theorem bitLen_bounds (q : Nat) (h : q ≠ 0) : 2 ^ (F64.bitLen q - 1) ≤ q ∧ q < 2 ^ F64.bitLen q := by
  simp only [F64.bitLen, h, if_false, Nat.add_sub_cancel]
  exact (Nat.log2_eq_iff h).mp rfl

theorem bitLen_unique (q L : Nat) (h1 : 2 ^ L ≤ q) (h2 : q < 2 ^ (L + 1)) : F64.bitLen q = L + 1 := by
  have hq : q ≠ 0 := by
    have := Nat.two_pow_pos L; omega
  simp only [F64.bitLen, hq, if_false]
  congr 1
  exact (Nat.log2_eq_iff hq).mpr ⟨h1, h2⟩

theorem bitLen_mul_pow (q t : Nat) (h : q ≠ 0) : F64.bitLen (q * 2 ^ t) = F64.bitLen q + t := by
  obtain ⟨h1, h2⟩ := bitLen_bounds q h
  have hp := bitLen_pos q h
  obtain ⟨L, hL⟩ : ∃ L, F64.bitLen q = L + 1 := ⟨F64.bitLen q - 1, by omega⟩
  rw [hL] at h1 h2 ⊢
  simp only [Nat.add_sub_cancel] at h1
  have : F64.bitLen (q * 2 ^ t) = (L + t) + 1 := by
    apply bitLen_unique
    · rw [Nat.pow_add]; exact Nat.mul_le_mul_right _ h1
    · rw [show L + t + 1 = (L + 1) + t by omega, Nat.pow_add]
      exact Nat.mul_lt_mul_of_pos_right h2 (Nat.two_pow_pos t)
  omega

theorem bitLen_le_of_lt (q L : Nat) (h : q < 2 ^ L) : F64.bitLen q ≤ L := by
  by_cases hq : q = 0
  · simp [F64.bitLen, hq]
  · obtain ⟨h1, -⟩ := bitLen_bounds q hq
    apply Nat.le_of_not_lt
    intro hlt
    have : 2 ^ L ≤ 2 ^ (F64.bitLen q - 1) := Nat.pow_le_pow_right (by decide) (by omega)
    omega

theorem lt_bitLen_of_le (q L : Nat) (h : 2 ^ L ≤ q) : L < F64.bitLen q := by
  have hq : q ≠ 0 := by have := Nat.two_pow_pos L; omega
  obtain ⟨-, h2⟩ := bitLen_bounds q hq
  apply Nat.lt_of_not_le
  intro hle
  have : 2 ^ F64.bitLen q ≤ 2 ^ L := Nat.pow_le_pow_right (by decide) hle
  omega


/-- round-to-nearest-even of an integer `q` at a given shift (keeps the bits above `sh`) -/
def rmAt (sh q : Nat) : Nat :=
  (if q % 2 ^ sh > 2 ^ (sh - 1) ∨ (q % 2 ^ sh = 2 ^ (sh - 1) ∧ (q / 2 ^ sh) % 2 = 1) then q / 2 ^ sh + 1
   else q / 2 ^ sh) * 2 ^ sh

/-- round-to-nearest-even of an integer to 53 significant bits -/
def rm (q : Nat) : Nat := if F64.bitLen q ≤ 53 then q else rmAt (F64.bitLen q - 53) q

theorem roundMag_exact (q d : Nat) (hd : 0 < d) : roundMag (q * d) d = rm q := by
  unfold roundMag rm rmAt
  simp only [Nat.mul_div_cancel _ hd, Nat.mul_mod_left, Nat.shiftRight_eq_div_pow, Nat.shiftLeft_eq]
  split
  · have h2 : ¬ (0 = d) := by omega
    simp [h2]
  · simp

theorem rmAt_scale (sh t q : Nat) (hsh : 1 ≤ sh) : rmAt (sh + t) (q * 2 ^ t) = rmAt sh q * 2 ^ t := by
  unfold rmAt
  have hp : 0 < 2 ^ t := Nat.two_pow_pos t
  have e1 : q * 2 ^ t / 2 ^ (sh + t) = q / 2 ^ sh := by
    rw [Nat.pow_add]; exact Nat.mul_div_mul_right _ _ hp
  have e2 : q * 2 ^ t % 2 ^ (sh + t) = q % 2 ^ sh * 2 ^ t := by
    rw [Nat.pow_add]; exact Nat.mul_mod_mul_right _ _ _
  have e3 : 2 ^ (sh + t - 1) = 2 ^ (sh - 1) * 2 ^ t := by
    rw [← Nat.pow_add]; congr 1; omega
  rw [e1, e2, e3]
  have c1 : (q % 2 ^ sh * 2 ^ t > 2 ^ (sh - 1) * 2 ^ t) ↔ (q % 2 ^ sh > 2 ^ (sh - 1)) :=
    Nat.mul_lt_mul_right hp
  have c2 : (q % 2 ^ sh * 2 ^ t = 2 ^ (sh - 1) * 2 ^ t) ↔ (q % 2 ^ sh = 2 ^ (sh - 1)) :=
    Nat.mul_right_cancel_iff hp
  simp only [c1, c2, Nat.pow_add, Nat.mul_assoc]

/-- divisibility form of "on the 53-bit grid" -/
def Grid (q : Nat) : Prop := F64.bitLen q ≤ 53 ∨ 2 ^ (F64.bitLen q - 53) ∣ q

theorem rm_of_grid (q : Nat) (h : Grid q) : rm q = q := by
  unfold rm
  split
  · rfl
  · rename_i hL
    rcases h with h | h
    · exact absurd h hL
    · unfold rmAt
      have hm : q % 2 ^ (F64.bitLen q - 53) = 0 := Nat.mod_eq_zero_of_dvd h
      have hp : 0 < 2 ^ (F64.bitLen q - 53 - 1) := Nat.two_pow_pos _
      have h1 : ¬ (0 > 2 ^ (F64.bitLen q - 53 - 1)) := by omega
      have h2 : ¬ (0 = 2 ^ (F64.bitLen q - 53 - 1)) := by omega
      simp only [hm, h1, h2, false_and, or_self, if_false]
      exact Nat.div_mul_cancel h

/-- mantissa bounds in the long branch -/
theorem mant_bounds (q : Nat) (hL : ¬ F64.bitLen q ≤ 53) :
    2 ^ 52 ≤ q / 2 ^ (F64.bitLen q - 53) ∧ q / 2 ^ (F64.bitLen q - 53) < 2 ^ 53 := by
  have hq : q ≠ 0 := by intro h; subst h; simp [F64.bitLen] at hL
  obtain ⟨h1, h2⟩ := bitLen_bounds q hq
  have hp : 0 < 2 ^ (F64.bitLen q - 53) := Nat.two_pow_pos _
  constructor
  · rw [Nat.le_div_iff_mul_le hp, ← Nat.pow_add]
    have : 52 + (F64.bitLen q - 53) = F64.bitLen q - 1 := by omega
    rw [this]; exact h1
  · rw [Nat.div_lt_iff_lt_mul hp, ← Nat.pow_add]
    have : 53 + (F64.bitLen q - 53) = F64.bitLen q := by omega
    rw [this]; exact h2

/-- the long branch of `rm`: an integer `m'` in `[2^52, 2^53]` times `2^sh` -/
theorem rm_long (q : Nat) (hL : ¬ F64.bitLen q ≤ 53) :
    ∃ m', rm q = m' * 2 ^ (F64.bitLen q - 53) ∧ 2 ^ 52 ≤ m' ∧ m' ≤ 2 ^ 53 := by
  obtain ⟨h1, h2⟩ := mant_bounds q hL
  unfold rm rmAt
  simp only [hL, if_false]
  split
  · exact ⟨_, rfl, by omega, by omega⟩
  · exact ⟨_, rfl, by omega, by omega⟩

theorem rm_le (q : Nat) : rm q ≤ 2 ^ F64.bitLen q := by
  by_cases hL : F64.bitLen q ≤ 53
  · simp only [rm, hL, if_true]
    by_cases hq : q = 0
    · subst hq; simp
    · exact Nat.le_of_lt (bitLen_bounds q hq).2
  · obtain ⟨m', hm, h1, h2⟩ := rm_long q hL
    rw [hm]
    have : 2 ^ F64.bitLen q = 2 ^ 53 * 2 ^ (F64.bitLen q - 53) := by
      rw [← Nat.pow_add]; congr 1; omega
    rw [this]
    exact Nat.mul_le_mul_right _ h2

theorem le_rm (q : Nat) (hq : q ≠ 0) : 2 ^ (F64.bitLen q - 1) ≤ rm q := by
  by_cases hL : F64.bitLen q ≤ 53
  · simp only [rm, hL, if_true]
    exact (bitLen_bounds q hq).1
  · obtain ⟨m', hm, h1, h2⟩ := rm_long q hL
    rw [hm]
    have : 2 ^ (F64.bitLen q - 1) = 2 ^ 52 * 2 ^ (F64.bitLen q - 53) := by
      rw [← Nat.pow_add]; congr 1; omega
    rw [this]
    exact Nat.mul_le_mul_right _ h1

theorem grid_rm (q : Nat) (hL : ¬ F64.bitLen q ≤ 53) : Grid (rm q) := by
  obtain ⟨m', hm, h1, h2⟩ := rm_long q hL
  rw [hm]
  have hm0 : m' ≠ 0 := by omega
  right
  rw [bitLen_mul_pow m' _ hm0]
  rcases Nat.lt_or_eq_of_le h2 with hlt | heq
  · have : F64.bitLen m' = 53 := bitLen_unique m' 52 h1 hlt
    rw [this]
    have : 53 + (F64.bitLen q - 53) - 53 = F64.bitLen q - 53 := by omega
    rw [this]
    exact Nat.dvd_mul_left _ _
  · subst heq
    have : F64.bitLen (2 ^ 53) = 54 := bitLen_unique _ 53 (Nat.le_refl _) (by decide)
    rw [this]
    have : 54 + (F64.bitLen q - 53) - 53 = (F64.bitLen q - 53) + 1 := by omega
    rw [this, Nat.pow_succ, Nat.mul_comm (2 ^ 53)]
    exact Nat.mul_dvd_mul (Nat.dvd_refl _) (by decide)

theorem grid_scale (k t : Nat) (hk : k ≠ 0) (h : Grid k) : Grid (k * 2 ^ t) := by
  unfold Grid at *
  rw [bitLen_mul_pow k t hk]
  rcases h with h | h
  · by_cases h2 : F64.bitLen k + t ≤ 53
    · left; exact h2
    · right
      have : 2 ^ (F64.bitLen k + t - 53) ∣ 2 ^ t := Nat.pow_dvd_pow 2 (by omega)
      exact Nat.dvd_trans this (Nat.dvd_mul_left _ _)
  · by_cases h2 : F64.bitLen k ≤ 53
    · by_cases h3 : F64.bitLen k + t ≤ 53
      · left; exact h3
      · right
        have : 2 ^ (F64.bitLen k + t - 53) ∣ 2 ^ t := Nat.pow_dvd_pow 2 (by omega)
        exact Nat.dvd_trans this (Nat.dvd_mul_left _ _)
    · right
      have : F64.bitLen k + t - 53 = (F64.bitLen k - 53) + t := by omega
      rw [this, Nat.pow_add]
      exact Nat.mul_dvd_mul h (Nat.dvd_refl _)

theorem rm_scale (q t : Nat) (hL : ¬ F64.bitLen q ≤ 53) : rm (q * 2 ^ t) = rm q * 2 ^ t := by
  have hq : q ≠ 0 := by intro h; subst h; simp [F64.bitLen] at hL
  unfold rm
  rw [bitLen_mul_pow q t hq]
  have : ¬ F64.bitLen q + t ≤ 53 := by omega
  simp only [hL, this, if_false]
  have e : F64.bitLen q + t - 53 = (F64.bitLen q - 53) + t := by omega
  rw [e]
  exact rmAt_scale _ _ _ (by omega)

theorem or_one_eq (A : Nat) : A ||| 1 = if A % 2 = 0 then A + 1 else A := by
  have h1 : (A ||| 1) / 2 = A / 2 := by rw [Nat.or_div_two]; simp
  have h2 : (A ||| 1) % 2 = 1 := by rw [Nat.or_mod_two_eq_one]; simp
  split <;> omega

/-- the two rounding decisions agree: a set sticky bit stands for any non-zero tail -/
theorem rm_sticky (A b low : Nat) (hA : 2 ^ 54 ≤ A) (hlow0 : 0 < low) (hlow : low < 2 ^ b) :
    rm (A * 2 ^ b + low) = rm ((A ||| 1) * 2 ^ b) := by
  have hA0 : A ≠ 0 := by omega
  have hLA : 54 < F64.bitLen A := lt_bitLen_of_le A 54 hA
  obtain ⟨hb1, hb2⟩ := bitLen_bounds A hA0
  generalize hLAe : F64.bitLen A = LA at *
  obtain ⟨u, rfl⟩ : ∃ u, LA = u + 53 := ⟨LA - 53, by omega⟩
  have hu : 2 ≤ u := by omega
  obtain ⟨w, rfl⟩ : ∃ w, u = w + 2 := ⟨u - 2, by omega⟩
  -- atoms
  have hB : 0 < 2 ^ b := Nat.two_pow_pos b
  have hU : 2 ^ (w + 2) = 4 * 2 ^ w := by rw [Nat.pow_add]; omega
  have hW : 0 < 2 ^ w := Nat.two_pow_pos w
  have hH : 2 ^ (w + 2 - 1) = 2 * 2 ^ w := by
    rw [show w + 2 - 1 = w + 1 by omega, Nat.pow_succ]; omega
  have hTop : 2 ^ (w + 2 + 53) = 2 ^ 53 * (4 * 2 ^ w) := by rw [Nat.pow_add, hU, Nat.mul_comm]
  have hTop1 : 2 ^ (w + 2 + 53 - 1) = 2 ^ 52 * (4 * 2 ^ w) := by
    rw [show w + 2 + 53 - 1 = (w + 2) + 52 by omega, Nat.pow_add, hU, Nat.mul_comm]
  rw [hTop] at hb2
  rw [hTop1] at hb1
  -- A' and its bit length
  generalize hA' : A ||| 1 = A'
  have hA'e := or_one_eq A
  rw [hA'] at hA'e
  -- decompose A
  have hdm := Nat.div_add_mod A (2 ^ (w + 2))
  have hmod := Nat.mod_lt A (Nat.two_pow_pos (w + 2))
  generalize hm : A / 2 ^ (w + 2) = m at *
  generalize ha : A % 2 ^ (w + 2) = a at *
  rw [hU] at hdm hmod
  rw [Nat.mul_assoc] at hdm
  have hA'dm : A' / 2 ^ (w + 2) = m ∧ A' % 2 ^ (w + 2) = (if A % 2 = 0 then a + 1 else a) := by
    rw [Nat.div_mod_unique (Nat.two_pow_pos _), hU]
    simp only [Nat.mul_assoc]
    split at hA'e <;> rename_i hpar <;> simp only [hpar, if_true, if_false] <;> omega
  obtain ⟨hm', ha'⟩ := hA'dm
  have hA'lo : 2 ^ 52 * (4 * 2 ^ w) ≤ A' := by split at hA'e <;> omega
  have hA'hi : A' < 2 ^ 53 * (4 * 2 ^ w) := by split at hA'e <;> omega
  have hLA' : F64.bitLen A' = w + 2 + 53 := by
    apply bitLen_unique A' (w + 2 + 52)
    · rw [Nat.pow_add, hU, Nat.mul_comm]; exact hA'lo
    · rw [show w + 2 + 52 + 1 = (w + 2) + 53 by omega, Nat.pow_add, hU, Nat.mul_comm]; exact hA'hi
  -- the sticky side
  have hR2 : rm (A' * 2 ^ b) = rmAt (w + 2) A' * 2 ^ b := by
    rw [rm_scale A' b (by omega)]
    simp only [rm, hLA', show ¬ (w + 2 + 53 ≤ 53) by omega, if_false, Nat.add_sub_cancel]
  -- the exact side
  have hq1lo : 2 ^ (w + 2 + 52 + b) ≤ A * 2 ^ b + low := by
    have : 2 ^ (w + 2 + 52 + b) = 2 ^ 52 * (4 * 2 ^ w) * 2 ^ b := by
      rw [Nat.pow_add, Nat.pow_add, hU, Nat.mul_comm (4 * 2 ^ w)]
    rw [this]
    have := Nat.mul_le_mul_right (2 ^ b) hb1
    omega
  have hq1hi : A * 2 ^ b + low < 2 ^ (w + 2 + 52 + b + 1) := by
    have : 2 ^ (w + 2 + 52 + b + 1) = 2 ^ 53 * (4 * 2 ^ w) * 2 ^ b := by
      rw [show w + 2 + 52 + b + 1 = (w + 2) + 53 + b by omega, Nat.pow_add, Nat.pow_add, hU,
        Nat.mul_comm (4 * 2 ^ w)]
    rw [this]
    have h1 : (A + 1) * 2 ^ b ≤ 2 ^ 53 * (4 * 2 ^ w) * 2 ^ b := Nat.mul_le_mul_right (2 ^ b) (by omega)
    rw [Nat.add_mul] at h1
    omega
  have hLq1 : F64.bitLen (A * 2 ^ b + low) = w + 2 + 52 + b + 1 := bitLen_unique _ _ hq1lo hq1hi
  have hR1 : rm (A * 2 ^ b + low) = rmAt (w + 2 + b) (A * 2 ^ b + low) := by
    have e : w + 2 + 52 + b + 1 - 53 = w + 2 + b := by omega
    simp only [rm, hLq1, show ¬ (w + 2 + 52 + b + 1 ≤ 53) by omega, if_false, e]
  rw [hR1, hR2]
  -- quotient and remainder of the exact side
  have hqB : (A * 2 ^ b + low) / 2 ^ b = A := by
    rw [Nat.mul_comm, Nat.mul_add_div hB, Nat.div_eq_of_lt hlow, Nat.add_zero]
  have hrB : (A * 2 ^ b + low) % 2 ^ b = low := by
    rw [Nat.mul_comm, Nat.mul_add_mod, Nat.mod_eq_of_lt hlow]
  have hpow : 2 ^ (w + 2 + b) = 2 ^ b * 2 ^ (w + 2) := by rw [Nat.pow_add, Nat.mul_comm]
  have hq : (A * 2 ^ b + low) / 2 ^ (w + 2 + b) = m := by
    rw [hpow, ← Nat.div_div_eq_div_mul, hqB, hm]
  have hr : (A * 2 ^ b + low) % 2 ^ (w + 2 + b) = low + 2 ^ b * a := by
    rw [hpow, Nat.mod_mul, hrB, hqB, ha]
  have hhalf : 2 ^ (w + 2 + b - 1) = (2 * 2 ^ w) * 2 ^ b := by
    rw [show w + 2 + b - 1 = (w + 1) + b by omega, Nat.pow_add, Nat.pow_succ, Nat.mul_comm (2 ^ w) 2]
  unfold rmAt
  rw [hq, hr, hhalf, hm', ha', hH]
  have c1 : (low + 2 ^ b * a > 2 * 2 ^ w * 2 ^ b ∨ low + 2 ^ b * a = 2 * 2 ^ w * 2 ^ b ∧ m % 2 = 1) ↔
      2 * 2 ^ w ≤ a := by
    rw [Nat.mul_comm (2 ^ b) a]
    constructor
    · intro hc
      apply Nat.le_of_not_lt
      intro hlt
      have h1 : (a + 1) * 2 ^ b ≤ 2 * 2 ^ w * 2 ^ b := Nat.mul_le_mul_right _ (by omega)
      rw [Nat.add_mul] at h1
      omega
    · intro hle
      have h1 : 2 * 2 ^ w * 2 ^ b ≤ a * 2 ^ b := Nat.mul_le_mul_right _ hle
      left; omega
  have c2 : ((if A % 2 = 0 then a + 1 else a) > 2 * 2 ^ w ∨
      (if A % 2 = 0 then a + 1 else a) = 2 * 2 ^ w ∧ m % 2 = 1) ↔ 2 * 2 ^ w ≤ a := by
    split <;> omega
  simp only [c1, c2]
  rw [Nat.pow_add _ (w + 2) b, Nat.mul_assoc]



theorem grid_rm' (q : Nat) : Grid (rm q) := by
  by_cases hL : F64.bitLen q ≤ 53
  · simp only [rm, hL, if_true]; exact Or.inl hL
  · exact grid_rm q hL

/- lets the elaborator evaluate the literals `2^1074`, `2^2098` (bignum arithmetic) instead of printing a
   notice that it left them unevaluated; the proofs below treat them symbolically either way -/
set_option exponentiation.threshold 4096

theorem S_eq : F64.S = 2 ^ 1074 := rfl
theorem OVF_eq : F64.OVF = 2 ^ 2098 := rfl

theorem roundUnits_one (neg : Bool) (q : Nat) :
    F64.roundUnits neg q 1 = if rm q ≥ F64.OVF then F64.inf neg else F64.fin neg (rm q) := by
  rw [roundUnits_eq]
  have := roundMag_exact q 1 (by decide)
  rw [Nat.mul_one] at this
  rw [this]

theorem ofNat_small (x : Nat) (hx : x < 2 ^ 65) : F64.ofNat x = F64.fin false (rm (x * F64.S)) := by
  unfold F64.ofNat
  rw [roundUnits_one]
  have h1 : x * F64.S < 2 ^ (65 + 1074) := by
    rw [Nat.pow_add, S_eq]
    exact Nat.mul_lt_mul_of_pos_right hx (Nat.two_pow_pos _)
  have h2 := bitLen_le_of_lt _ _ h1
  have h3 := rm_le (x * F64.S)
  have h4 : 2 ^ F64.bitLen (x * F64.S) ≤ 2 ^ (65 + 1074) := Nat.pow_le_pow_right (by decide) h2
  have h5 : 2 ^ (65 + 1074) < F64.OVF := by
    rw [OVF_eq]; exact Nat.pow_lt_pow_right (by decide) (by decide)
  have : ¬ (rm (x * F64.S) ≥ F64.OVF) := by omega
  simp only [this, if_false]

theorem mul_pow2 (k shift : Nat) (hk : Grid k) (hshift : shift ≤ 1023) :
    F64.mul (F64.fin false k) (pow2 shift) =
      if k * 2 ^ shift ≥ F64.OVF then F64.inf false else F64.fin false (k * 2 ^ shift) := by
  simp only [pow2, hshift, if_true, F64.mul]
  rw [roundUnits_eq]
  have hS : 0 < F64.S := by rw [S_eq]; exact Nat.two_pow_pos _
  have e : k * (2 ^ shift * F64.S) = (k * 2 ^ shift) * F64.S := by rw [Nat.mul_assoc]
  rw [e, roundMag_exact _ _ hS]
  have hg : rm (k * 2 ^ shift) = k * 2 ^ shift := by
    by_cases hk0 : k = 0
    · subst hk0; simp [rm, F64.bitLen]
    · exact rm_of_grid _ (grid_scale k shift hk0 hk)
  rw [hg]
  simp

theorem bitLen_mul_S (x : Nat) (hx : x ≠ 0) : ¬ F64.bitLen (x * F64.S) ≤ 53 := by
  rw [S_eq, bitLen_mul_pow x 1074 hx]; omega

/-- the exact literal value, scaled to units, rounds to `rm ((acc | sticky) · S) · 2^shift` -/
theorem rm_radix (acc shift low : Nat) (hlow : low < 2 ^ shift) (hacc : 0 < shift → 2 ^ 60 ≤ acc) :
    rm ((acc * 2 ^ shift + low) * F64.S) =
      rm ((if low ≠ 0 then acc ||| 1 else acc) * F64.S) * 2 ^ shift := by
  by_cases hs : shift = 0
  · subst hs
    have : low = 0 := by simpa using hlow
    subst this
    simp
  · have hacc60 := hacc (by omega)
    by_cases hl : low = 0
    · subst hl
      simp only [Nat.add_zero, ne_eq, not_true_eq_false, if_false]
      have e : acc * 2 ^ shift * F64.S = acc * F64.S * 2 ^ shift := by
        rw [Nat.mul_assoc, Nat.mul_comm (2 ^ shift), ← Nat.mul_assoc]
      rw [e]
      exact rm_scale _ _ (bitLen_mul_S acc (by omega))
    · simp only [ne_eq, hl, not_false_eq_true, if_true]
      have e1 : (acc * 2 ^ shift + low) * F64.S = acc * 2 ^ (shift + 1074) + low * F64.S := by
        rw [Nat.add_mul, Nat.pow_add, S_eq, Nat.mul_assoc]
      have hlowS : low * F64.S < 2 ^ (shift + 1074) := by
        rw [Nat.pow_add, S_eq]
        exact Nat.mul_lt_mul_of_pos_right hlow (Nat.two_pow_pos _)
      have hlowS0 : 0 < low * F64.S := Nat.mul_pos (by omega) (by rw [S_eq]; exact Nat.two_pow_pos _)
      have h54 : 2 ^ 54 ≤ acc := Nat.le_trans (Nat.pow_le_pow_right (by decide) (by decide)) hacc60
      rw [e1, rm_sticky acc (shift + 1074) (low * F64.S) h54 hlowS0 hlowS]
      have e2 : (acc ||| 1) * 2 ^ (shift + 1074) = (acc ||| 1) * F64.S * 2 ^ shift := by
        rw [Nat.pow_add, S_eq, Nat.mul_assoc, Nat.mul_comm (2 ^ shift)]
      rw [e2]
      have hne : acc ||| 1 ≠ 0 := by
        have := or_one_eq acc
        split at this <;> omega
      exact rm_scale _ _ (bitLen_mul_S _ hne)

/-- `radix_literal`'s final step is one correct rounding of the exact integer -/
theorem radix_round (acc shift : Nat) (sticky : Bool) (n : Nat) (h : LoopInv (acc, shift, sticky) n) :
    (if shift > 1100 then F64.inf false
     else F64.mul (F64.ofNat (if sticky then acc ||| 1 else acc)) (pow2 shift)) =
      F64.roundUnits false (n * F64.S) 1 := by
  obtain ⟨low, hv, hlow, hst, hacc, hlt⟩ := h
  simp only at hv hlow hst hacc hlt
  subst hv
  have hacc' : (if sticky then acc ||| 1 else acc) = (if low ≠ 0 then acc ||| 1 else acc) := by
    cases sticky <;> simp_all
  rw [roundUnits_one, rm_radix acc shift low hlow hacc, hacc']
  generalize hx : (if low ≠ 0 then acc ||| 1 else acc) = x
  have hx1 : acc ≤ x ∧ x ≤ acc + 1 := by
    have := or_one_eq acc
    subst hx
    split <;> (try split at this) <;> omega
  have hx65 : x < 2 ^ 65 := by omega
  rw [ofNat_small x hx65]
  by_cases hs : shift ≤ 1023
  · have : ¬ shift > 1100 := by omega
    simp only [this, if_false]
    exact mul_pow2 _ _ (grid_rm' _) hs
  · have hacc60 := hacc (by omega)
    have hx0 : x ≠ 0 := by omega
    have hbig : 2 ^ (60 + 1074) ≤ x * F64.S := by
      rw [Nat.pow_add, S_eq]
      exact Nat.mul_le_mul_right _ (by omega)
    have hbl := lt_bitLen_of_le _ _ hbig
    have hk := le_rm (x * F64.S) (by
      have : 0 < x * F64.S := Nat.mul_pos (by omega) (by rw [S_eq]; exact Nat.two_pow_pos _)
      omega)
    have hk2 : 2 ^ (60 + 1074) ≤ rm (x * F64.S) :=
      Nat.le_trans (Nat.pow_le_pow_right (by decide) (by omega)) hk
    have hovf : rm (x * F64.S) * 2 ^ shift ≥ F64.OVF := by
      have h1 : 2 ^ (60 + 1074) * 2 ^ shift ≤ rm (x * F64.S) * 2 ^ shift := Nat.mul_le_mul_right _ hk2
      have h2 : F64.OVF ≤ 2 ^ (60 + 1074) * 2 ^ shift := by
        rw [OVF_eq, ← Nat.pow_add]
        exact Nat.pow_le_pow_right (by decide) (by omega)
      exact Nat.le_trans h2 h1
    simp only [hovf, if_true]
    split
    · rfl
    · have hk0 : rm (x * F64.S) ≠ 0 := by
        have := Nat.two_pow_pos (60 + 1074); omega
      have hp : pow2 shift = F64.inf false := by simp [pow2, hs]
      rw [hp]
      simp [F64.mul, hk0]


/-- a text `0p…` with `p` a radix letter is not a decimal literal -/
theorem specDec_radix (p : Char) (ds : Str) (h1 : isDigit p = false) (h2 : p ≠ '.')
    (h3 : ¬ (p = 'e' ∨ p = 'E')) : specDec ('0' :: p :: ds) = none := by
  have hm : ES.decimalMantissa ('0' :: p :: ds) = some (0, 0, p :: ds) := by
    rw [mantissa_eq]
    have e1 : ('0' :: p :: ds).takeWhile isDigit = ['0'] := by
      simp [List.takeWhile_cons, h1]; decide
    have e2 : ('0' :: p :: ds).dropWhile isDigit = p :: ds := by
      simp [List.dropWhile_cons, h1]; decide
    rw [e1, e2]
    split
    · rename_i heq; simp at heq; exact absurd heq.1 h2
    · simp [digitsVal, digitVal]
  have hu : ES.unsignedDecimalLiteral ('0' :: p :: ds) = some (0, 0, p :: ds) := by
    unfold ES.unsignedDecimalLiteral
    rw [hm]
    simp only [exponentPart_eq, h3, if_false]
    simp
  unfold specDec
  have hs : ES.sign ('0' :: p :: ds) = (false, '0' :: p :: ds) := by
    unfold ES.sign; split <;> simp_all
  rw [hs]
  simp only [hu]
  simp [ES.infinityWord]

theorem loopInv_init : LoopInv (0, 0, false) 0 := ⟨0, by simp, by simp, by simp, by simp, by simp⟩

/-- one radix: the digit loop followed by the final rounding, against the grammar reading -/
theorem radix_case (radix bits : Nat) (hb : bits ≤ 4) (hr : radix = 2 ^ bits) (digit? : Char → Option Nat)
    (hdig : ∀ c, toDigit radix c = digit? c) (digits : Str) :
    (radixLoop radix bits digits (0, 0, false) = none ∧ ES.digitsOnly digit? digits = none) ∨
    (∃ acc shift sticky ds, radixLoop radix bits digits (0, 0, false) = some (acc, shift, sticky) ∧
      ES.digitsOnly digit? digits = some ds ∧
      (if shift > 1100 then F64.inf false
        else F64.mul (F64.ofNat (if sticky then acc ||| 1 else acc)) (pow2 shift)) =
        F64.roundUnits false (ES.mv radix ds * F64.S) 1) := by
  have hfun : toDigit radix = digit? := funext hdig
  have := radixLoop_spec radix bits hb hr digits (0, 0, false) 0 loopInv_init
  rw [hfun] at this
  cases hd : ES.digitsOnly digit? digits with
  | none =>
    simp only [hd] at this
    exact Or.inl ⟨this, rfl⟩
  | some ds =>
    simp only [hd] at this
    obtain ⟨⟨acc, shift, sticky⟩, hloop, hinv⟩ := this
    exact Or.inr ⟨acc, shift, sticky, ds, hloop, rfl, radix_round acc shift sticky _ hinv⟩

theorem radixLiteral_not0 (t : Str) (h : ∀ p ds, t ≠ '0' :: p :: ds) :
    radixLiteral t = none ∧ ES.nonDecimalIntegerLiteral t = none := by
  constructor
  · unfold radixLiteral; split
    · exact absurd rfl (h _ _)
    · rfl
  · unfold ES.nonDecimalIntegerLiteral; split
    · exact absurd rfl (h _ _)
    · rfl

set_option linter.unusedSimpArgs false in
theorem radix_branch (t : Str) :
    (match radixLiteral t with
      | some rv => rv
      | none => modelDec t) =
    (match ES.nonDecimalIntegerLiteral t with
      | some n => some (F64.roundUnits false (n * F64.S) 1)
      | none => specDec t) := by
  by_cases h : ∃ p ds, t = '0' :: p :: ds
  · obtain ⟨p, ds, rfl⟩ := h
    simp only [radixLiteral, ES.nonDecimalIntegerLiteral]
    by_cases hx : p = 'x' ∨ p = 'X'
    ·
      have hx' : (p == 'x' || p == 'X') = true := by simpa using hx
      simp only [hx', hx, if_true, if_false, Bool.false_eq_true]
      have hsp : specDec ('0' :: p :: ds) = none :=
        specDec_radix p ds (by rcases hx with rfl | rfl <;> decide) (by rcases hx with rfl | rfl <;> decide)
          (by rcases hx with rfl | rfl <;> decide)
      by_cases hds : ds = []
      · subst hds; simp [hsp]
      · have hemp : ds.isEmpty = false := by cases ds <;> simp_all
        simp only [hemp, hds, if_false, Bool.false_eq_true]
        rcases radix_case 16 4 (by decide) (by decide) ES.hexDigit? toDigit_hex ds with
          ⟨h1, h2⟩ | ⟨acc, shift, sticky, dl, h1, h2, h3⟩
        · simp [h1, h2, hsp]
        · simp only [h1, h2, h3, Option.map_some]
    · have hxf : (p == 'x' || p == 'X') = false := by simpa using hx
      by_cases ho : p = 'o' ∨ p = 'O'
      ·
        have ho' : (p == 'o' || p == 'O') = true := by simpa using ho
        simp only [hxf, hx, ho', ho, if_true, if_false, Bool.false_eq_true]
        have hsp : specDec ('0' :: p :: ds) = none :=
          specDec_radix p ds (by rcases ho with rfl | rfl <;> decide) (by rcases ho with rfl | rfl <;> decide)
            (by rcases ho with rfl | rfl <;> decide)
        by_cases hds : ds = []
        · subst hds; simp [hsp]
        · have hemp : ds.isEmpty = false := by cases ds <;> simp_all
          simp only [hemp, hds, if_false, Bool.false_eq_true]
          rcases radix_case 8 3 (by decide) (by decide) ES.octalDigit? toDigit_oct ds with
            ⟨h1, h2⟩ | ⟨acc, shift, sticky, dl, h1, h2, h3⟩
          · simp [h1, h2, hsp]
          · simp only [h1, h2, h3, Option.map_some]
      · have hof : (p == 'o' || p == 'O') = false := by simpa using ho
        by_cases hb : p = 'b' ∨ p = 'B'
        ·
          have hb' : (p == 'b' || p == 'B') = true := by simpa using hb
          simp only [hxf, hx, hof, ho, hb', hb, if_true, if_false, Bool.false_eq_true]
          have hsp : specDec ('0' :: p :: ds) = none :=
            specDec_radix p ds (by rcases hb with rfl | rfl <;> decide) (by rcases hb with rfl | rfl <;> decide)
              (by rcases hb with rfl | rfl <;> decide)
          by_cases hds : ds = []
          · subst hds; simp [hsp]
          · have hemp : ds.isEmpty = false := by cases ds <;> simp_all
            simp only [hemp, hds, if_false, Bool.false_eq_true]
            rcases radix_case 2 1 (by decide) (by decide) ES.binaryDigit? toDigit_bin ds with
              ⟨h1, h2⟩ | ⟨acc, shift, sticky, dl, h1, h2, h3⟩
            · simp [h1, h2, hsp]
            · simp only [h1, h2, h3, Option.map_some]
        · have hbf : (p == 'b' || p == 'B') = false := by simpa using hb
          simp only [hxf, hx, hof, ho, hbf, hb, if_false, Bool.false_eq_true]
          have := modelDec_eq ('0' :: p :: ds)
          split <;> simp_all
  · have h' : ∀ p ds, t ≠ '0' :: p :: ds := fun p ds he => h ⟨p, ds, he⟩
    obtain ⟨h1, h2⟩ := radixLiteral_not0 t h'
    rw [h1, h2]
    exact modelDec_eq t


/-- `str_to_number` is `StringToNumber` of ECMA-262 -/
theorem strToNumber_eq (s : Str) : strToNumber s = ES.stringToNumber s := by
  rw [strToNumber_unfold, stringToNumber_unfold, strip_eq]
  by_cases h : trimBoth s = []
  · simp [h, F64.zero]
  · have hemp : (trimBoth s).isEmpty = false := by
      cases ht : trimBoth s <;> simp_all
    simp only [hemp, h, if_false, Bool.false_eq_true]
    exact radix_branch _

end JL.Lemmas.StrNum
