import JL.Eval
/-! Simp lemmas for the writer/outcome monad `M`. -/
namespace JL
namespace M

@[simp] theorem pure_logs {α} (a : α) : (Pure.pure a : M α).logs = [] := rfl
@[simp] theorem pure_out {α} (a : α) : (Pure.pure a : M α).out = .ok a := rfl
@[simp] theorem pure_def {α} (a : α) : (Pure.pure a : M α) = ⟨[], .ok a⟩ := rfl
@[simp] theorem mpure_def {α} (a : α) : (M.pure a : M α) = ⟨[], .ok a⟩ := rfl
@[simp] theorem err_def {α} : (M.err : M α) = ⟨[], .err⟩ := rfl
@[simp] theorem panic_def {α} : (M.panic : M α) = ⟨[], .panic⟩ := rfl
theorem bind_def {α β} (x : M α) (f : α → M β) : (x >>= f) = M.bind x f := rfl

@[simp] theorem bind_ok {α β} (l : List Json) (a : α) (f : α → M β) :
    ((⟨l, .ok a⟩ : M α) >>= f) = ⟨l ++ (f a).logs, (f a).out⟩ := rfl
@[simp] theorem bind_err {α β} (l : List Json) (f : α → M β) :
    ((⟨l, .err⟩ : M α) >>= f) = ⟨l, .err⟩ := rfl
@[simp] theorem bind_panic {α β} (l : List Json) (f : α → M β) :
    ((⟨l, .panic⟩ : M α) >>= f) = ⟨l, .panic⟩ := rfl

@[simp] theorem ofOption_some {α} (a : α) : M.ofOption (some a) = ⟨[], .ok a⟩ := rfl
@[simp] theorem ofOption_none {α} : (M.ofOption none : M α) = ⟨[], .err⟩ := rfl

theorem ext {α} {x y : M α} (h1 : x.logs = y.logs) (h2 : x.out = y.out) : x = y := by
  cases x; cases y; simp_all

@[simp] theorem pure_bind {α β} (a : α) (f : α → M β) : ((Pure.pure a : M α) >>= f) = f a := by
  show M.bind (M.pure a) f = f a
  simp [M.bind, M.pure]

@[simp] theorem bind_pure {α} (x : M α) : (x >>= fun a => (Pure.pure a : M α)) = x := by
  show M.bind x _ = x
  cases x with | mk l o => cases o <;> simp [M.bind, Pure.pure, M.pure]

theorem bind_assoc {α β γ} (x : M α) (f : α → M β) (g : β → M γ) :
    (x >>= f >>= g) = (x >>= fun a => f a >>= g) := by
  show M.bind (M.bind x f) g = M.bind x (fun a => M.bind (f a) g)
  cases x with | mk l o =>
  cases o with
  | ok a =>
    simp only [M.bind]
    cases h : (f a).out <;> simp [List.append_assoc]
  | err => simp [M.bind]
  | panic => simp [M.bind]

/-- an outcome that is a value or an error value -/
def NoPanic {α} (x : M α) : Prop := x.out ≠ .panic

theorem noPanic_pure {α} (a : α) : NoPanic (Pure.pure a : M α) := by simp [NoPanic]
theorem noPanic_err {α} : NoPanic (M.err : M α) := by simp [NoPanic]
theorem noPanic_bind {α β} {x : M α} {f : α → M β} (hx : NoPanic x) (hf : ∀ a, NoPanic (f a)) : NoPanic (x >>= f) := by
  cases x with | mk l o =>
  cases o with
  | ok a => simpa [NoPanic] using hf a
  | err => simp [NoPanic]
  | panic => simp [NoPanic] at hx

end M
end JL
