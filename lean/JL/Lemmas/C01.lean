import JL.Lemmas.Monad
/-!
# Lemmas for C01 — the panic outcome is unreachable

* every eager / data operator of the REGENERATED tables, given an operand list whose length its table
  arity accepts, does not reach a positional access out of bounds (`index_safe_eager`, `index_safe_data`);
* the data loops of the lazy operators do not panic if the closure does not;
* `run` on a rule that passed `check` never panics (`run_noPanic`), by induction on the size of the rule.
-/
namespace JL.Lemmas.C01
open JL Json M

theorem numResult_noPanic (r : Option F64) : NoPanic (numResult r) := by
  unfold numResult
  cases r with
  | none => simp [NoPanic]
  | some x => cases h : toNumberValue x <;> simp [NoPanic, h]

theorem compare_noPanic (f : Json → Json → Bool) (items : List Json) (h : 2 ≤ items.length) :
    NoPanic (compare f items) := by
  rcases items with _ | ⟨a, _ | ⟨b, _ | ⟨c, rest⟩⟩⟩ <;> simp_all [compare, NoPanic]

theorem ofOption_noPanic {α} (o : Option α) : NoPanic (M.ofOption o) := by
  cases o <;> simp [NoPanic]

/-! ## positional access is within bounds whenever the table arity accepted the operand count -/

theorem index_safe_eager : ∀ e ∈ Tables.eager, ∀ items : List Json,
    e.arity.isValidLen items.length = true → NoPanic (execEager e.key items) := by
  intro e he items hlen
  simp only [Tables.eager, List.mem_cons, List.not_mem_nil, or_false] at he
  rcases he with rfl | rfl | rfl | rfl | rfl | rfl | rfl | rfl | rfl | rfl | rfl | rfl | rfl | rfl | rfl | rfl |
    rfl | rfl | rfl | rfl | rfl | rfl
  all_goals
    rcases items with _ | ⟨a, _ | ⟨b, _ | ⟨c, rest⟩⟩⟩ <;>
      simp [Arity.isValidLen] at hlen <;>
      simp [execEager, compare] <;>
      first
        | apply numResult_noPanic
        | apply ofOption_noPanic
        | (simp [NoPanic, M.log]; done)
        | (simp only [NoPanic]; split <;> simp)

theorem var_noPanic (d : Json) (items : List Json) : NoPanic (var d items) := by
  unfold var
  split
  · simp [NoPanic]
  · split
    · simp [NoPanic]
    · split <;> simp [NoPanic]

theorem missingFold_noPanic (d : Json) : ∀ (args acc : List Json), NoPanic (missingFold d args acc)
  | [], acc => by simp [missingFold, NoPanic]
  | arg :: rest, acc => by
    unfold missingFold
    split
    · simp [NoPanic]
    · exact missingFold_noPanic d rest acc
    · split
      · exact missingFold_noPanic d rest _
      · exact missingFold_noPanic d rest acc

theorem missing_noPanic (d : Json) (items : List Json) : NoPanic (missing d items) := by
  unfold missing
  exact noPanic_bind (missingFold_noPanic d _ _) (fun _ => noPanic_pure _)

theorem missingSomeFold_noPanic (d : Json) (t : Nat) :
    ∀ (keys : List Json) (st : Nat × List Json), NoPanic (missingSomeFold d t keys st)
  | [], st => by simp [missingSomeFold, NoPanic]
  | key :: rest, (count, miss) => by
    unfold missingSomeFold
    split
    · exact missingSomeFold_noPanic d t rest _
    · split
      · simp [NoPanic]
      · exact missingSomeFold_noPanic d t rest _
      · split
        · exact missingSomeFold_noPanic d t rest _
        · exact missingSomeFold_noPanic d t rest _

theorem missingSome_noPanic (d : Json) (items : List Json) (h : 2 ≤ items.length) :
    NoPanic (missingSome d items) := by
  rcases items with _ | ⟨a, _ | ⟨b, rest⟩⟩
  · simp at h
  · simp at h
  · simp only [missingSome]
    split
    · simp [NoPanic]
    · split
      · exact noPanic_bind (missingSomeFold_noPanic d _ _ _) (fun ⟨_, _⟩ => noPanic_pure _)
      · simp [NoPanic]

theorem index_safe_data : ∀ e ∈ Tables.data, ∀ (d : Json) (items : List Json),
    e.arity.isValidLen items.length = true → NoPanic (execData e.key d items) := by
  intro e he d items hlen
  simp only [Tables.data, List.mem_cons, List.not_mem_nil, or_false] at he
  rcases he with rfl | rfl | rfl
  · have : execData "missing".toList d items = missing d items := by simp [execData]
    rw [this]; exact missing_noPanic d items
  · have : execData "missing_some".toList d items = missingSome d items := by simp [execData]
    rw [this]
    exact missingSome_noPanic d items (by simp [Arity.isValidLen] at hlen; omega)
  · have : execData "var".toList d items = var d items := by simp [execData]
    rw [this]; exact var_noPanic d items

/-! ## the monad: a bind whose continuation is only needed on the value actually produced -/

theorem noPanic_bind' {α β} {x : M α} {f : α → M β} (hx : NoPanic x)
    (hf : ∀ a, x.out = .ok a → NoPanic (f a)) : NoPanic (x >>= f) := by
  cases x with | mk l o =>
  cases o with
  | ok a => simpa [NoPanic] using hf a rfl
  | err => simp [NoPanic]
  | panic => simp [NoPanic] at hx

theorem noPanic_panic {α} : ¬ NoPanic (M.panic : M α) := by simp [NoPanic]

/-! ## the loops of the lazy operators over data: no panic if the closure has none -/

theorem mapData_noPanic {f : Json → M Json} (hf : ∀ x, NoPanic (f x)) : ∀ xs, NoPanic (mapData f xs)
  | [] => by simp [mapData, NoPanic]
  | x :: xs => by
    unfold mapData
    exact noPanic_bind (hf x) fun _ => noPanic_bind (mapData_noPanic hf xs) fun _ => noPanic_pure _

theorem filterData_noPanic {f : Json → M Json} (hf : ∀ x, NoPanic (f x)) : ∀ xs, NoPanic (filterData f xs)
  | [] => by simp [filterData, NoPanic]
  | x :: xs => by
    unfold filterData
    exact noPanic_bind (hf x) fun _ => noPanic_bind (filterData_noPanic hf xs) fun _ => noPanic_pure _

theorem reduceData_noPanic {f : Json → M Json} (hf : ∀ x, NoPanic (f x)) :
    ∀ xs acc, NoPanic (reduceData f xs acc)
  | [], acc => by simp [reduceData, NoPanic]
  | x :: xs, acc => by
    unfold reduceData
    exact noPanic_bind (hf _) fun _ => reduceData_noPanic hf xs _

theorem quantData_noPanic (isAll : Bool) {p : Json → M Json} (hp : ∀ x, NoPanic (p x)) :
    ∀ xs res, NoPanic (quantData isAll p xs res)
  | [], res => by simp [quantData, NoPanic]
  | x :: xs, res => by
    unfold quantData
    split
    · exact quantData_noPanic isAll hp xs res
    · exact noPanic_bind (hp _) fun _ => quantData_noPanic isAll hp xs _

/-- the closure is only called when `predOk` holds -/
theorem quantValue_noPanic (isAll : Bool) (coll : Json) (predOk : Bool) {p : Json → M Json}
    (hp : predOk = true → ∀ x, NoPanic (p x)) : NoPanic (quantValue isAll coll predOk p) := by
  unfold quantValue
  split
  · exact noPanic_err
  · split
    · exact noPanic_pure _
    · split
      · exact noPanic_err
      · rename_i h
        have h' : predOk = true := by simpa using h
        exact noPanic_bind (quantData_noPanic isAll (hp h') _ _) fun _ => noPanic_pure _

/-! ## the folds over rule text, given the statement for the elements -/

/-- the statement of the main theorem for one rule (used as an induction hypothesis) -/
def Safe (r : Json) : Prop := check r = true → ∀ d, NoPanic (run r d)

theorem guard_noPanic {x : Json} (hx : Safe x) (d : Json) :
    NoPanic (if check x = true then run x d else M.err) := by
  split
  · rename_i h; exact hx h d
  · exact noPanic_err

theorem runList_length : ∀ (xs : List Json) (d : Json) (vs : List Json),
    (runList xs d).out = .ok vs → vs.length = xs.length
  | [], d, vs, h => by
    simp [runList] at h; simp [← h]
  | x :: xs, d, vs, h => by
    unfold runList at h
    cases hx : run x d with | mk l o =>
    cases o with
    | ok a =>
      cases hxs : runList xs d with | mk l' o' =>
      cases o' with
      | ok as =>
        have := runList_length xs d as (by rw [hxs])
        simp [hx, hxs] at h
        simp [← h, this]
      | err => simp [hx, hxs] at h
      | panic => simp [hx, hxs] at h
    | err => simp [hx] at h
    | panic => simp [hx] at h

theorem runList_noPanic : ∀ (xs : List Json), (∀ x ∈ xs, Safe x) → checkList xs = true →
    ∀ d, NoPanic (runList xs d)
  | [], _, _, d => by simp [runList, NoPanic]
  | x :: xs, ih, hc, d => by
    unfold checkList at hc
    simp only [Bool.and_eq_true] at hc
    unfold runList
    exact noPanic_bind (ih x List.mem_cons_self hc.1 d) fun _ =>
      noPanic_bind (runList_noPanic xs (fun y hy => ih y (List.mem_cons_of_mem _ hy)) hc.2 d) fun _ =>
        noPanic_pure _

theorem runIf_noPanic : ∀ (xs : List Json), (∀ x ∈ xs, Safe x) →
    ∀ i st d, NoPanic (runIf xs i st d)
  | [], _, i, st, d => by simp [runIf, NoPanic]
  | x :: xs, ih, i, (last, wasTruthy, shouldReturn), d => by
    have ihx := ih x List.mem_cons_self
    have ihxs : ∀ y ∈ xs, Safe y := fun y hy => ih y (List.mem_cons_of_mem _ hy)
    unfold runIf
    split
    · exact runIf_noPanic xs ihxs _ _ d
    · split
      · split
        · rename_i h; exact noPanic_bind (ihx h d) fun _ => runIf_noPanic xs ihxs _ _ d
        · exact noPanic_err
      · split
        · split
          · rename_i h; exact noPanic_bind (ihx h d) fun _ => runIf_noPanic xs ihxs _ _ d
          · exact noPanic_err
        · exact runIf_noPanic xs ihxs _ _ d

theorem runOrAnd_noPanic (isOr : Bool) : ∀ (xs : List Json), (∀ x ∈ xs, Safe x) →
    ∀ st d, NoPanic (runOrAnd isOr xs st d)
  | [], _, st, d => by simp [runOrAnd, NoPanic]
  | x :: xs, ih, st, d => by
    have ihx := ih x List.mem_cons_self
    have ihxs : ∀ y ∈ xs, Safe y := fun y hy => ih y (List.mem_cons_of_mem _ hy)
    unfold runOrAnd
    split
    · exact runOrAnd_noPanic isOr xs ihxs _ d
    · split
      · rename_i h; exact noPanic_bind (ihx h d) fun _ => runOrAnd_noPanic isOr xs ihxs _ d
      · exact noPanic_err

theorem runQuantLit_noPanic (isAll : Bool) {p : Json → M Json} (hp : ∀ x, NoPanic (p x)) :
    ∀ (xs : List Json), (∀ x ∈ xs, Safe x) → ∀ d res, NoPanic (runQuantLit isAll xs p d res)
  | [], _, d, res => by simp [runQuantLit, NoPanic]
  | x :: xs, ih, d, res => by
    have ihx := ih x List.mem_cons_self
    have ihxs : ∀ y ∈ xs, Safe y := fun y hy => ih y (List.mem_cons_of_mem _ hy)
    unfold runQuantLit
    split
    · exact runQuantLit_noPanic isAll hp xs ihxs d res
    · split
      · exact noPanic_err
      · rename_i h
        have h' : check x = true := by simpa using h
        exact noPanic_bind (ihx h' d) fun _ => noPanic_bind (hp _) fun _ =>
          runQuantLit_noPanic isAll hp xs ihxs d _

/-! ## what `lookupOp` says: the entry of the regenerated table that recognised the key -/

theorem findEntry_mem {k : Str} {es : List Entry} {e : Entry} (h : findEntry k es = some e) :
    e ∈ es ∧ e.key = k := by
  induction es with
  | nil => simp [findEntry] at h
  | cons x xs ih =>
    unfold findEntry at h
    split at h
    · cases h; exact ⟨List.mem_cons_self, by assumption⟩
    · have := ih h; exact ⟨List.mem_cons_of_mem _ this.1, this.2⟩

theorem lookupOp_eager {k : Str} {ar : Arity} (h : lookupOp k = some (.eager, ar)) :
    ∃ e ∈ Tables.eager, e.key = k ∧ e.arity = ar := by
  unfold lookupOp at h
  split at h
  · rename_i e he; cases h; exact ⟨e, (findEntry_mem he).1, (findEntry_mem he).2, rfl⟩
  · split at h
    · cases h
    · split at h <;> cases h

theorem lookupOp_lazy {k : Str} {ar : Arity} (h : lookupOp k = some (.lazy, ar)) :
    ∃ e ∈ Tables.lazy, e.key = k ∧ e.arity = ar := by
  unfold lookupOp at h
  split at h
  · cases h
  · split at h
    · rename_i e he; cases h; exact ⟨e, (findEntry_mem he).1, (findEntry_mem he).2, rfl⟩
    · split at h <;> cases h

theorem lookupOp_data {k : Str} {ar : Arity} (h : lookupOp k = some (.data, ar)) :
    ∃ e ∈ Tables.data, e.key = k ∧ e.arity = ar := by
  unfold lookupOp at h
  split at h
  · cases h
  · split at h
    · cases h
    · split at h
      · rename_i e he; cases h; exact ⟨e, (findEntry_mem he).1, (findEntry_mem he).2, rfl⟩
      · cases h

/-! ## eager and data operations: operands evaluated, then positional access within the validated count -/

theorem single_length {x : M Json} {items : List Json}
    (h : (x >>= fun r => (Pure.pure [r] : M (List Json))).out = .ok items) : items.length = 1 := by
  cases x with | mk l o =>
  cases o with
  | ok a => simp at h; simp [← h]
  | err => simp at h
  | panic => simp at h

theorem run_eager_noPanic (k : Str) (v d : Json) (ar : Arity) (h : lookupOp k = some (.eager, ar))
    (hc : check (.obj [(k, v)]) = true) (ihv : Safe v) (ihxs : ∀ xs, v = .arr xs → ∀ x ∈ xs, Safe x) :
    NoPanic (run (.obj [(k, v)]) d) := by
  obtain ⟨e, he, hk, ha⟩ := lookupOp_eager h
  subst hk ha
  unfold run
  simp only [h]
  unfold check at hc
  simp only [h] at hc
  cases v with
  | arr xs =>
    simp only [Bool.and_eq_true, Bool.or_eq_true] at hc
    have hcl : checkList xs = true := by rcases hc.2 with h | h; exact absurd h (by decide); exact h
    refine noPanic_bind' (runList_noPanic xs (ihxs xs rfl) hcl d) fun items hi => ?_
    exact index_safe_eager e he items (by rw [runList_length _ _ _ hi]; exact hc.1)
  | _ =>
    simp only [Bool.and_eq_true, Bool.or_eq_true] at hc
    refine noPanic_bind' (noPanic_bind (ihv (by rcases hc.2 with h | h; exact absurd h (by decide); exact h) d)
      fun _ => noPanic_pure _) fun items hi => ?_
    exact index_safe_eager e he items (by rw [single_length hi]; exact hc.1.2)

theorem run_data_noPanic (k : Str) (v d : Json) (ar : Arity) (h : lookupOp k = some (.data, ar))
    (hc : check (.obj [(k, v)]) = true) (ihv : Safe v) (ihxs : ∀ xs, v = .arr xs → ∀ x ∈ xs, Safe x) :
    NoPanic (run (.obj [(k, v)]) d) := by
  obtain ⟨e, he, hk, ha⟩ := lookupOp_data h
  subst hk ha
  unfold run
  simp only [h]
  unfold check at hc
  simp only [h] at hc
  cases v with
  | arr xs =>
    simp only [Bool.and_eq_true, Bool.or_eq_true] at hc
    have hcl : checkList xs = true := by rcases hc.2 with h | h; exact absurd h (by decide); exact h
    refine noPanic_bind' (runList_noPanic xs (ihxs xs rfl) hcl d) fun items hi => ?_
    exact index_safe_data e he d items (by rw [runList_length _ _ _ hi]; exact hc.1)
  | _ =>
    simp only [Bool.and_eq_true, Bool.or_eq_true] at hc
    refine noPanic_bind' (noPanic_bind (ihv (by rcases hc.2 with h | h; exact absurd h (by decide); exact h) d)
      fun _ => noPanic_pure _) fun items hi => ?_
    exact index_safe_data e he d items (by rw [single_length hi]; exact hc.1.2)

/-! ## lazy operations: the operand list has the shape the table arity promised -/

theorem check_exactly2 {k : Str} (hl : lookupOp k = some (.lazy, .exactly 2)) {v : Json}
    (hc : check (.obj [(k, v)]) = true) : ∃ c e, v = .arr [c, e] := by
  unfold check at hc
  simp only [hl] at hc
  cases v with
  | arr xs =>
    rcases xs with _ | ⟨a, _ | ⟨b, _ | ⟨c, rest⟩⟩⟩ <;> simp [Arity.isValidLen] at hc
    exact ⟨a, b, rfl⟩
  | _ => simp [Arity.canAcceptUnary] at hc

theorem check_exactly3 {k : Str} (hl : lookupOp k = some (.lazy, .exactly 3)) {v : Json}
    (hc : check (.obj [(k, v)]) = true) : ∃ c e i, v = .arr [c, e, i] := by
  unfold check at hc
  simp only [hl] at hc
  cases v with
  | arr xs =>
    rcases xs with _ | ⟨a, _ | ⟨b, _ | ⟨c, _ | ⟨c', rest⟩⟩⟩⟩ <;> simp [Arity.isValidLen] at hc
    exact ⟨a, b, c, rfl⟩
  | _ => simp [Arity.canAcceptUnary] at hc

theorem not_check_false {x : Json} (h : ¬ (!check x) = true) : check x = true := by simpa using h

theorem run_if_noPanic (k : Str) (hk : k = "if".toList ∨ k = "?:".toList) (v d : Json)
    (ihv : Safe v) (ihxs : ∀ xs, v = .arr xs → ∀ x ∈ xs, Safe x) :
    NoPanic (run (.obj [(k, v)]) d) := by
  have hl : lookupOp k = some (.lazy, .any) := by rcases hk with h | h <;> subst h <;> decide
  have hb : (k = "if".toList || k = "?:".toList) = true := by rcases hk with h | h <;> subst h <;> decide
  unfold run
  simp only [hl, hb, if_true]
  split
  · exact noPanic_pure _
  · exact guard_noPanic (ihxs _ rfl _ (by simp)) d
  · exact runIf_noPanic _ (ihxs _ rfl) _ _ d
  · exact guard_noPanic ihv d

theorem orState_noPanic (st : OrState) :
    NoPanic (match st with
      | .decided r => (Pure.pure r : M Json)
      | .current r => Pure.pure r
      | .uninit => M.err) := by
  cases st <;> simp [NoPanic]

theorem run_or_noPanic (v d : Json)
    (ihv : Safe v) (ihxs : ∀ xs, v = .arr xs → ∀ x ∈ xs, Safe x) :
    NoPanic (run (.obj [("or".toList, v)]) d) := by
  have hl : lookupOp "or".toList = some (.lazy, .atLeast 1) := by decide
  unfold run
  simp (decide := true) only [hl, if_true, if_false]
  split
  · exact noPanic_bind (runOrAnd_noPanic true _ (ihxs _ rfl) _ d) orState_noPanic
  · exact guard_noPanic ihv d

theorem run_and_noPanic (v d : Json)
    (ihv : Safe v) (ihxs : ∀ xs, v = .arr xs → ∀ x ∈ xs, Safe x) :
    NoPanic (run (.obj [("and".toList, v)]) d) := by
  have hl : lookupOp "and".toList = some (.lazy, .atLeast 1) := by decide
  unfold run
  simp (decide := true) only [hl, if_true, if_false]
  split
  · exact noPanic_bind (runOrAnd_noPanic false _ (ihxs _ rfl) _ d) orState_noPanic
  · exact guard_noPanic ihv d

theorem run_map_noPanic (v d : Json) (hc : check (.obj [("map".toList, v)]) = true)
    (ihxs : ∀ xs, v = .arr xs → ∀ x ∈ xs, Safe x) :
    NoPanic (run (.obj [("map".toList, v)]) d) := by
  have hl : lookupOp "map".toList = some (.lazy, .exactly 2) := by decide
  obtain ⟨c, e, rfl⟩ := check_exactly2 hl hc
  have ihc : Safe c := ihxs _ rfl c (by simp)
  have ihe : Safe e := ihxs _ rfl e (by simp)
  unfold run
  simp (decide := true) only [hl, if_true, if_false]
  split
  · exact noPanic_err
  · rename_i h1
    refine noPanic_bind (ihc (not_check_false h1) d) fun cv => ?_
    split
    · exact noPanic_err
    · split
      · exact noPanic_err
      · rename_i h2
        exact noPanic_bind (mapData_noPanic (fun x => ihe (not_check_false h2) x) _) fun _ => noPanic_pure _

theorem run_filter_noPanic (v d : Json) (hc : check (.obj [("filter".toList, v)]) = true)
    (ihxs : ∀ xs, v = .arr xs → ∀ x ∈ xs, Safe x) :
    NoPanic (run (.obj [("filter".toList, v)]) d) := by
  have hl : lookupOp "filter".toList = some (.lazy, .exactly 2) := by decide
  obtain ⟨c, e, rfl⟩ := check_exactly2 hl hc
  have ihc : Safe c := ihxs _ rfl c (by simp)
  have ihe : Safe e := ihxs _ rfl e (by simp)
  unfold run
  simp (decide := true) only [hl, if_true, if_false]
  split
  · exact noPanic_err
  · rename_i h1
    refine noPanic_bind (ihc (not_check_false h1) d) fun cv => ?_
    split
    · exact noPanic_err
    · split
      · exact noPanic_err
      · rename_i h2
        exact noPanic_bind (filterData_noPanic (fun x => ihe (not_check_false h2) x) _) fun _ => noPanic_pure _

theorem run_reduce_noPanic (v d : Json) (hc : check (.obj [("reduce".toList, v)]) = true)
    (ihxs : ∀ xs, v = .arr xs → ∀ x ∈ xs, Safe x) :
    NoPanic (run (.obj [("reduce".toList, v)]) d) := by
  have hl : lookupOp "reduce".toList = some (.lazy, .exactly 3) := by decide
  obtain ⟨c, e, i, rfl⟩ := check_exactly3 hl hc
  have ihc : Safe c := ihxs _ rfl c (by simp)
  have ihe : Safe e := ihxs _ rfl e (by simp)
  have ihi : Safe i := ihxs _ rfl i (by simp)
  unfold run
  simp (decide := true) only [hl, if_true, if_false]
  split
  · exact noPanic_err
  · rename_i h1
    refine noPanic_bind (ihc (not_check_false h1) d) fun cv => ?_
    split
    · exact noPanic_err
    · rename_i h2
      refine noPanic_bind (ihi (not_check_false h2) d) fun iv => ?_
      split
      · exact noPanic_err
      · split
        · exact noPanic_err
        · rename_i h3
          exact reduceData_noPanic (fun x => ihe (not_check_false h3) x) _ _

theorem sizeOf_lt_arr {x : Json} {xs : List Json} (h : x ∈ xs) : sizeOf x < sizeOf (Json.arr xs) := by
  have := List.sizeOf_lt_of_mem h
  simp only [Json.arr.sizeOf_spec]
  omega

/-- `all` / `some` / `none`: the elements of a literal first operand are rule text two levels down -/
theorem run_quant_noPanic (k : Str) (hk : k = "all".toList ∨ k = "some".toList ∨ k = "none".toList)
    (v d : Json) (hc : check (.obj [(k, v)]) = true) (ih : ∀ y, sizeOf y < sizeOf v → Safe y) :
    NoPanic (run (.obj [(k, v)]) d) := by
  have hl : lookupOp k = some (.lazy, .exactly 2) := by rcases hk with h | h | h <;> subst h <;> decide
  have h1 : (k = "if".toList || k = "?:".toList) = false := by rcases hk with h | h | h <;> subst h <;> decide
  have h2 : (k = "or".toList) = False := by rcases hk with h | h | h <;> subst h <;> decide
  have h3 : (k = "and".toList) = False := by rcases hk with h | h | h <;> subst h <;> decide
  have h4 : (k = "map".toList) = False := by rcases hk with h | h | h <;> subst h <;> decide
  have h5 : (k = "filter".toList) = False := by rcases hk with h | h | h <;> subst h <;> decide
  have h6 : (k = "reduce".toList) = False := by rcases hk with h | h | h <;> subst h <;> decide
  have h7 : (k = "all".toList || k = "some".toList || k = "none".toList) = true := by
    rcases hk with h | h | h <;> subst h <;> decide
  obtain ⟨c, p, rfl⟩ := check_exactly2 hl hc
  have ihc : Safe c := ih c (sizeOf_lt_arr (by simp))
  have ihp : Safe p := ih p (sizeOf_lt_arr (by simp))
  have ihcx : ∀ xs, c = .arr xs → ∀ x ∈ xs, Safe x := by
    intro xs hxs x hx
    subst hxs
    exact ih x (Nat.lt_trans (sizeOf_lt_arr hx) (sizeOf_lt_arr (by simp)))
  unfold run
  simp only [hl, h1, h2, h3, h4, h5, h6, h7, if_true, if_false, Bool.false_eq_true]
  have inner : ∀ isAll : Bool, NoPanic (match c with
      | .arr xs =>
        if xs.isEmpty = true then (Pure.pure (Json.bool false) : M Json)
        else
          if (!check p) = true then M.err
          else do
            let b ← runQuantLit isAll xs (fun x => run p x) d isAll
            Pure.pure (Json.bool b)
      | other =>
        if isObj other = true then
          if (!check other) = true then M.err
          else do
            let cv ← run other d
            quantValue isAll cv (check p) fun x => run p x
        else quantValue isAll other (check p) fun x => run p x) := by
    intro isAll
    split
    · split
      · exact noPanic_pure _
      · split
        · exact noPanic_err
        · rename_i h
          exact noPanic_bind (runQuantLit_noPanic isAll (fun x => ihp (not_check_false h) x) _ (ihcx _ rfl) d _)
            fun _ => noPanic_pure _
    · split
      · split
        · exact noPanic_err
        · rename_i h
          exact noPanic_bind (ihc (not_check_false h) d) fun cv =>
            quantValue_noPanic isAll cv _ (fun hp x => ihp hp x)
      · exact quantValue_noPanic isAll _ _ (fun hp x => ihp hp x)
  split
  · refine noPanic_bind (inner _) fun rv => ?_
    split
    · exact noPanic_pure _
    · exact noPanic_err
  · exact inner _

/-! ## the main theorem -/

theorem run_noPanic_lt : ∀ (n : Nat) (r : Json), sizeOf r < n → Safe r := by
  intro n
  induction n with
  | zero => intro r h; omega
  | succ n ih =>
    intro r hr hc d
    by_cases hshape : ∃ k v, r = .obj [(k, v)]
    · obtain ⟨k, v, rfl⟩ := hshape
      have hv : sizeOf v < n := by
        simp only [Json.obj.sizeOf_spec, List.cons.sizeOf_spec, List.nil.sizeOf_spec, Prod.mk.sizeOf_spec] at hr
        omega
      have ihv : Safe v := ih v hv
      have ihlt : ∀ y, sizeOf y < sizeOf v → Safe y := fun y hy => ih y (Nat.lt_trans hy hv)
      have ihxs : ∀ xs, v = .arr xs → ∀ x ∈ xs, Safe x := by
        intro xs hxs x hx
        subst hxs
        exact ihlt x (sizeOf_lt_arr hx)
      cases hl : lookupOp k with
      | none =>
        unfold run
        simp only [hl]
        exact noPanic_pure _
      | some p =>
        obtain ⟨kind, ar⟩ := p
        cases kind with
        | eager => exact run_eager_noPanic k v d ar hl hc ihv ihxs
        | data => exact run_data_noPanic k v d ar hl hc ihv ihxs
        | lazy =>
          obtain ⟨e, he, hk, -⟩ := lookupOp_lazy hl
          subst hk
          simp only [Tables.lazy, List.mem_cons, List.not_mem_nil, or_false] at he
          rcases he with rfl | rfl | rfl | rfl | rfl | rfl | rfl | rfl | rfl | rfl
          · exact run_if_noPanic _ (Or.inr rfl) v d ihv ihxs
          · exact run_quant_noPanic _ (Or.inl rfl) v d hc ihlt
          · exact run_and_noPanic v d ihv ihxs
          · exact run_filter_noPanic v d hc ihxs
          · exact run_if_noPanic _ (Or.inl rfl) v d ihv ihxs
          · exact run_map_noPanic v d hc ihxs
          · exact run_quant_noPanic _ (Or.inr (Or.inr rfl)) v d hc ihlt
          · exact run_or_noPanic v d ihv ihxs
          · exact run_reduce_noPanic v d hc ihxs
          · exact run_quant_noPanic _ (Or.inr (Or.inl rfl)) v d hc ihlt
    · unfold run
      split
      · exact absurd ⟨_, _, rfl⟩ hshape
      · exact noPanic_pure _

/-- **No panic.** A rule accepted by the parse phase evaluates to a value or an error on every data. -/
theorem run_noPanic (r d : Json) (h : check r = true) : NoPanic (run r d) :=
  run_noPanic_lt (sizeOf r + 1) r (Nat.lt_succ_self _) h d

/-! ## stretch: the numbers built by `to_number_value` are well-formed JSON numbers

`F64.WF` = "on the binary64 grid". Every result of the model's rounding function is on the grid, hence every
result of `add`/`sub`/`mul`/`div` is, whatever the operands; and `to_number_value` of a double on the grid is
a `Num` satisfying `Num.WF` (`u64` / negative `i64` / finite float). -/

section wf
set_option exponentiation.threshold 2200
open F64

theorem S_pos : 0 < F64.S := by unfold F64.S; exact Nat.two_pow_pos _

theorem bitLen_le_iff (n k : Nat) : bitLen n ≤ k ↔ n < 2 ^ k := by
  unfold bitLen
  split
  · rename_i h; subst h; simp [Nat.two_pow_pos]
  · rename_i h
    rw [← Nat.log2_lt h]; omega

/-- a 53-bit significand times a power of two, below the overflow threshold, is on the grid -/
theorem onGrid_mul_lt (m sh : Nat) (hm : m < 2 ^ 53) (hlt : m * 2 ^ sh < OVF) : OnGrid (m * 2 ^ sh) := by
  refine ⟨hlt, ?_⟩
  by_cases hL : bitLen (m * 2 ^ sh) ≤ 53
  · exact Or.inl hL
  · right
    have h1 : bitLen (m * 2 ^ sh) ≤ 53 + sh := by
      rw [bitLen_le_iff, Nat.pow_add]
      exact Nat.mul_lt_mul_of_lt_of_le hm (Nat.le_refl _) (Nat.two_pow_pos _)
    exact Nat.dvd_trans (Nat.pow_dvd_pow 2 (by omega)) (Nat.dvd_mul_left _ _)

theorem onGrid_mul_le (m sh : Nat) (hm : m ≤ 2 ^ 53) (hlt : m * 2 ^ sh < OVF) : OnGrid (m * 2 ^ sh) := by
  by_cases h : m < 2 ^ 53
  · exact onGrid_mul_lt m sh h hlt
  · have hm' : m = 2 ^ 52 * 2 := by omega
    have e : m * 2 ^ sh = 2 ^ 52 * 2 ^ (sh + 1) := by
      rw [hm', Nat.mul_assoc, ← Nat.pow_succ']
    rw [e] at hlt ⊢
    exact onGrid_mul_lt _ _ (by decide) hlt

theorem wf_ite (neg : Bool) (k : Nat) (h : k < OVF → OnGrid k) :
    WF (if k ≥ OVF then inf neg else fin neg k) := by
  by_cases hk : k ≥ OVF
  · rw [if_pos hk]; trivial
  · rw [if_neg hk]; exact h (Nat.lt_of_not_ge hk)

theorem onGrid_small (k : Nat) (hk : k ≤ 2 ^ 53) (hlt : k < OVF) : OnGrid k := by
  have := onGrid_mul_le k 0 hk (by simpa using hlt)
  simpa using this

theorem roundUnits_wf (neg : Bool) (num den : Nat) : WF (roundUnits neg num den) := by
  unfold roundUnits
  simp only
  apply wf_ite
  generalize num / den = q
  intro hk
  by_cases hL : bitLen q ≤ 53
  · rw [if_pos hL] at hk ⊢
    have hq : q < 2 ^ 53 := (bitLen_le_iff q 53).mp hL
    revert hk
    split <;> intro hk
    · exact onGrid_small _ (by omega) hk
    · exact onGrid_small _ (by omega) hk
  · rw [if_neg hL] at hk ⊢
    generalize hsh : bitLen q - 53 = sh at hk ⊢
    have hq : q < 2 ^ (53 + sh) := (bitLen_le_iff q _).mp (by omega)
    have hm : q >>> sh < 2 ^ 53 := by
      rw [Nat.shiftRight_eq_div_pow, Nat.div_lt_iff_lt_mul (Nat.two_pow_pos _), ← Nat.pow_add]
      exact hq
    rw [Nat.shiftLeft_eq] at hk ⊢
    revert hk
    split <;> intro hk
    · exact onGrid_mul_le _ _ (by omega) hk
    · exact onGrid_mul_le _ _ (by omega) hk
theorem OVF_pos : 0 < OVF := by unfold OVF; exact Nat.two_pow_pos _
theorem zero_wf (neg : Bool) : WF (fin neg 0) := onGrid_small 0 (by decide) OVF_pos
theorem one_wf (neg : Bool) : WF (fin neg S) := by
  have : OnGrid (1 * 2 ^ 1074) := onGrid_mul_le 1 1074 (by decide) (by unfold OVF; rw [Nat.one_mul]; exact Nat.pow_lt_pow_right (by decide) (by decide))
  simpa [WF, S] using this

theorem add_wf (x y : F64) : WF (add x y) := by
  unfold add
  split <;> try trivial
  · split <;> trivial
  · split
    · exact roundUnits_wf _ _ _
    · split
      · exact zero_wf _
      · split <;> exact roundUnits_wf _ _ _

theorem negate_wf (x : F64) (h : WF x) : WF (negate x) := by
  cases x <;> first | trivial | exact h

theorem mul_wf (x y : F64) : WF (mul x y) := by
  unfold mul
  split <;> try trivial
  · split <;> trivial
  · split <;> trivial
  · exact roundUnits_wf _ _ _

theorem div_wf (x y : F64) : WF (div x y) := by
  unfold div
  split <;> try trivial
  · split
    · split <;> trivial
    · exact roundUnits_wf _ _ _

theorem sub_wf (x y : F64) : WF (sub x y) := add_wf _ _
end wf

theorem ofI64_wf (i : Int) (h1 : -(2^63 : Int) ≤ i) (h2 : i < 2^63) : Num.WF (Num.ofI64 i) := by
  unfold Num.ofI64
  split
  · simp only [Num.WF]; omega
  · simp only [Num.WF]; omega

theorem num_wf {n : Num} (h : Num.WF n) : (Json.num n).wf = true := by
  unfold Json.wf; exact decide_eq_true h

theorem fract_mul {k : Nat} (hf : F64.fractIsZero (.fin n k) = true) : ∃ q, k = q * F64.S := by
  dsimp only [F64.fractIsZero] at hf
  have hf := eq_of_beq hf
  exact ⟨k / F64.S, (Nat.div_mul_cancel (Nat.dvd_of_mod_eq_zero hf)).symm⟩

theorem toNumberValue_wf (x : F64) (hx : F64.WF x) (v : Json) (h : toNumberValue x = some v) :
    v.wf = true := by
  have hS := S_pos
  unfold toNumberValue at h
  split at h
  · rename_i hb
    cases h
    simp only [Bool.and_eq_true] at hb
    obtain ⟨⟨hf, hge⟩, hlt⟩ := hb
    cases x with
    | nan => simp [F64.fractIsZero] at hf
    | inf => simp [F64.fractIsZero] at hf
    | fin n k =>
      obtain ⟨q, hq⟩ := fract_mul hf
      clear hx hf
      rw [hq] at hge hlt ⊢
      clear hq
      have e1 : (q * F64.S < 2 ^ 63 * F64.S) = (q < 2 ^ 63) := propext (Nat.mul_lt_mul_right hS)
      have e3 : (q * F64.S ≤ 2 ^ 63 * F64.S) = (q ≤ 2 ^ 63) := propext (Nat.mul_le_mul_right_iff hS)
      simp only [F64.ge, F64.le, F64.lt, F64.negate, I64_LIMIT, decide_eq_true_eq] at hge hlt
      simp only [F64.truncInt, Nat.mul_div_cancel _ hS]
      apply num_wf
      apply ofI64_wf
      · cases n
        · simp <;> omega
        · simp only [Bool.not_false, ↓reduceIte, Int.neg_le_neg_iff, Int.ofNat_le, e3] at hge
          simp <;> omega
      · cases n
        · simp only [Bool.false_eq_true, ↓reduceIte, Int.ofNat_lt, e1] at hlt
          simp <;> omega
        · simp <;> omega
  · split at h
    · rename_i hb
      cases h
      simp only [Bool.and_eq_true] at hb
      obtain ⟨⟨hf, hge⟩, hlt⟩ := hb
      cases x with
      | nan => simp [F64.fractIsZero] at hf
      | inf => simp [F64.fractIsZero] at hf
      | fin n k =>
        obtain ⟨q, hq⟩ := fract_mul hf
        clear hx hf
        rw [hq] at hge hlt ⊢
        clear hq
        have e2 : (q * F64.S < 2 ^ 64 * F64.S) = (q < 2 ^ 64) := propext (Nat.mul_lt_mul_right hS)
        simp only [F64.lt, U64_LIMIT, decide_eq_true_eq] at hlt
        simp only [F64.truncInt, Nat.mul_div_cancel _ hS]
        apply num_wf
        cases n
        · simp only [Bool.false_eq_true, ↓reduceIte, Int.ofNat_lt, e2] at hlt
          simp only [Num.WF]; simp; omega
        · simp only [Num.WF]; simp <;> omega
    · split at h
      · rename_i n hn
        cases h
        unfold Num.ofF64? at hn
        split at hn
        · cases hn
          rename_i hfin
          apply num_wf
          exact ⟨hfin, hx⟩
        · cases hn
      · cases h

theorem numResult_wf (r : Option F64) (hr : ∀ x, r = some x → F64.WF x) (v : Json)
    (h : (numResult r).out = .ok v) : v.wf = true := by
  unfold numResult at h
  cases r with
  | none => simp at h
  | some x =>
    cases ht : toNumberValue x with
    | none => simp [ht] at h
    | some w =>
      simp [ht] at h
      subst h
      exact toNumberValue_wf x (hr x rfl) w ht

theorem foldlM_inv {α β : Type} (P : β → Prop) (f : β → α → Option β)
    (hf : ∀ b a b', f b a = some b' → P b') :
    ∀ (l : List α) (b b' : β), P b → l.foldlM f b = some b' → P b'
  | [], b, b', hb, h => by simp at h; exact h ▸ hb
  | a :: l, b, b', hb, h => by
    rw [List.foldlM_cons] at h
    cases hfa : f b a with
    | none => simp [hfa] at h
    | some c =>
      simp [hfa] at h
      exact foldlM_inv P f hf l c b' (hf b a c hfa) h

theorem parseFloatAdd_wf (items : List Json) (x : F64) (h : JsOp.parseFloatAdd items = some x) : F64.WF x := by
  unfold JsOp.parseFloatAdd at h
  refine foldlM_inv F64.WF _ ?_ items _ x (zero_wf false) h
  intro b a b' hb
  split at hb
  · cases hb; exact add_wf _ _
  · cases hb

theorem parseFloatMul_wf (items : List Json) (x : F64) (h : JsOp.parseFloatMul items = some x) : F64.WF x := by
  unfold JsOp.parseFloatMul at h
  refine foldlM_inv F64.WF _ ?_ items _ x (one_wf false) h
  intro b a b' hb
  split at hb
  · cases hb; exact mul_wf _ _
  · cases hb

theorem abstractMinus_wf (a b : Json) (x : F64) (h : JsOp.abstractMinus a b = some x) : F64.WF x := by
  unfold JsOp.abstractMinus at h
  split at h
  · cases h; exact sub_wf _ _
  · cases h

theorem abstractDiv_wf (a b : Json) (x : F64) (h : JsOp.abstractDiv a b = some x) : F64.WF x := by
  unfold JsOp.abstractDiv at h
  split at h
  · cases h; exact div_wf _ _
  · cases h

theorem toNegative_wf (a : Json) (x : F64) (h : JsOp.toNegative a = some x) : F64.WF x := by
  unfold JsOp.toNegative at h
  split at h
  · cases h; exact mul_wf _ _
  · cases h

/-- `+ * - /` (all operand counts their arity admits, any operand values): a result is a well-formed value -/
theorem arith_result_wf (k : Str) (hk : k = "+".toList ∨ k = "*".toList ∨ k = "-".toList ∨ k = "/".toList)
    (items : List Json) (v : Json) (h : (execEager k items).out = .ok v) : v.wf = true := by
  rcases hk with rfl | rfl | rfl | rfl
  · have e : execEager "+".toList items = numResult (JsOp.parseFloatAdd items) := by simp [execEager]
    rw [e] at h
    exact numResult_wf _ (fun x hx => parseFloatAdd_wf items x hx) v h
  · have e : execEager "*".toList items = numResult (JsOp.parseFloatMul items) := by simp [execEager]
    rw [e] at h
    exact numResult_wf _ (fun x hx => parseFloatMul_wf items x hx) v h
  · rcases items with _ | ⟨a, _ | ⟨b, rest⟩⟩
    · simp [execEager] at h
    · have e : execEager "-".toList [a] = numResult (JsOp.toNegative a) := by simp [execEager]
      rw [e] at h
      exact numResult_wf _ (fun x hx => toNegative_wf a x hx) v h
    · have e : execEager "-".toList (a :: b :: rest) = numResult (JsOp.abstractMinus a b) := by simp [execEager]
      rw [e] at h
      exact numResult_wf _ (fun x hx => abstractMinus_wf a b x hx) v h
  · rcases items with _ | ⟨a, _ | ⟨b, rest⟩⟩
    · simp [execEager] at h
    · simp [execEager] at h
    · have e : execEager "/".toList (a :: b :: rest) = numResult (JsOp.abstractDiv a b) := by simp [execEager]
      rw [e] at h
      exact numResult_wf _ (fun x hx => abstractDiv_wf a b x hx) v h

end JL.Lemmas.C01
