import JL.Lemmas.Monad
import JL.Lemmas.C13
/-!
# Helper lemmas for C04: eager/data operations = "evaluate the operands left to right, once each, then apply a
function of the values"; the operators' own traces; positional references `{"var": i}`.
-/
namespace JL
open Json

/-! ## operand evaluation -/

theorem runList_nil (d : Json) : runList [] d = ⟨[], .ok []⟩ := by rw [runList]; rfl
theorem runList_cons (x : Json) (xs : List Json) (d : Json) :
    runList (x :: xs) d = (run x d >>= fun v => runList xs d >>= fun vs => pure (v :: vs)) := by
  rw [runList]

/-- operand evaluation is the in-order loop of `map` with the closure "evaluate on the outer data" -/
theorem runList_eq_mapData (as : List Json) (d : Json) : runList as d = mapData (fun a => run a d) as := by
  induction as with
  | nil => rw [runList_nil]; rfl
  | cons a as ih => rw [runList_cons, mapData_cons, ih]

theorem runList_length (as : List Json) (d : Json) (l vs : List Json) (h : runList as d = ⟨l, .ok vs⟩) :
    vs.length = as.length := by
  rw [runList_eq_mapData] at h
  exact mapData_length _ _ _ _ h

/-- the operand list of an operation: a bracketed list, or one bare operand (the unary sugar) -/
def operands : Json → List Json
  | .arr xs => xs
  | x => [x]

/-- an eager operation: evaluate the operands, then apply the operator's function to the values -/
theorem run_eager (k : Str) (ar : Arity) (v d : Json) (hk : lookupOp k = some (.eager, ar)) :
    run (.obj [(k, v)]) d = (runList (operands v) d >>= execEager k) := by
  conv => lhs; unfold run
  simp only [hk]
  cases v <;> simp [operands, runList_cons, runList_nil]

/-- a data operation: evaluate the operands, then apply the operator's function to the data and the values -/
theorem run_data (k : Str) (ar : Arity) (v d : Json) (hk : lookupOp k = some (.data, ar)) :
    run (.obj [(k, v)]) d = (runList (operands v) d >>= execData k d) := by
  conv => lhs; unfold run
  simp only [hk]
  cases v <;> simp [operands, runList_cons, runList_nil]

/-- the parse of an eager/data operation with a bracketed operand list: arity, then every operand -/
theorem check_strict_arr (k : Str) (kind : Kind) (ar : Arity) (as : List Json)
    (hk : lookupOp k = some (kind, ar)) (hkind : kind ≠ .lazy) :
    check (.obj [(k, .arr as)]) = (ar.isValidLen as.length && checkList as) := by
  conv => lhs; unfold check
  simp only [hk]
  cases kind
  · have : (Kind.eager == Kind.lazy) = false := by decide
    rw [this, Bool.false_or]
  · exact absurd rfl hkind
  · have : (Kind.data == Kind.lazy) = false := by decide
    rw [this, Bool.false_or]

/-! ## the operators' own traces -/

theorem logs_ite {α} {c : Prop} [Decidable c] {a b : M α} (ha : c → a.logs = []) (hb : ¬c → b.logs = []) :
    (if c then a else b).logs = [] := by
  split
  · exact ha ‹_›
  · exact hb ‹_›

theorem bind_logs_nil {α β} {x : M α} {f : α → M β} (hx : x.logs = []) (hf : ∀ a, (f a).logs = []) :
    (x >>= f).logs = [] := by
  cases x with | mk l o =>
  simp only at hx; subst hx
  cases o with
  | ok a => simpa using hf a
  | err => rfl
  | panic => rfl

theorem compare_logs (f : Json → Json → Bool) (vs : List Json) : (compare f vs).logs = [] := by
  unfold compare; split <;> rfl
theorem numResult_logs (r : Option F64) : (numResult r).logs = [] := by
  unfold numResult
  split
  · rfl
  · cases toNumberValue _ <;> rfl
theorem ofOption_logs {α} (o : Option α) : (M.ofOption o).logs = [] := by cases o <;> rfl

/-- the operator's own trace: only `log` has one — its evaluated operand, once -/
def ownTrace (k : Str) (vs : List Json) : List Json :=
  if k = "log".toList then (match vs with | a :: _ => [a] | [] => []) else []

theorem execEager_log_cons (a : Json) (rest : List Json) : execEager "log".toList (a :: rest) = ⟨[a], .ok a⟩ := rfl

theorem execEager_logs (k : Str) (vs : List Json) : (execEager k vs).logs = ownTrace k vs := by
  by_cases hlog : k = "log".toList
  · subst hlog
    cases vs with
    | nil => rfl
    | cons a rest => rw [execEager_log_cons]; rfl
  · unfold ownTrace
    rw [if_neg hlog]
    unfold execEager
    repeat' (apply logs_ite <;> intro _)
    all_goals first | rfl | exact compare_logs _ _ | exact numResult_logs _ | exact ofOption_logs _ | (exfalso; exact hlog ‹_›) | skip
    all_goals (repeat' split)
    all_goals first | rfl | exact compare_logs _ _ | exact numResult_logs _ | exact ofOption_logs _

theorem var_logs (d : Json) (vs : List Json) : (var d vs).logs = [] := by
  unfold var
  repeat' split
  all_goals rfl

theorem missingFold_logs (d : Json) (ks acc : List Json) : (missingFold d ks acc).logs = [] := by
  induction ks generalizing acc with
  | nil => rfl
  | cons k ks ih =>
    unfold missingFold
    repeat' split
    all_goals first | rfl | exact ih _

theorem missing_logs (d : Json) (vs : List Json) : (missing d vs).logs = [] := by
  unfold missing
  exact bind_logs_nil (missingFold_logs _ _ _) (fun _ => rfl)

theorem missingSomeFold_logs (d : Json) (t : Nat) (ks : List Json) (st : Nat × List Json) :
    (missingSomeFold d t ks st).logs = [] := by
  induction ks generalizing st with
  | nil => rfl
  | cons k ks ih =>
    obtain ⟨c, m⟩ := st
    unfold missingSomeFold
    repeat' split
    all_goals first | rfl | exact ih _

theorem missingSome_logs (d : Json) (vs : List Json) : (missingSome d vs).logs = [] := by
  unfold missingSome
  repeat' split
  all_goals first | rfl | exact bind_logs_nil (missingSomeFold_logs _ _ _ _) (fun a => by cases a; rfl)

/-- no data operator writes a trace of its own -/
theorem execData_logs (k : Str) (d : Json) (vs : List Json) : (execData k d vs).logs = [] := by
  unfold execData
  repeat' split
  all_goals first | rfl | exact var_logs _ _ | exact missing_logs _ _ | exact missingSome_logs _ _

/-! ## positional references into precomputed values -/

/-- the rule `{"var": i}`: a reference to position `i` of the data -/
def varRule (i : Nat) : Json := .obj [("var".toList, .num (.pos i))]
/-- `[{"var":0}, …, {"var":n-1}]` -/
def varRules (n : Nat) : List Json := (List.range n).map varRule

theorem varRules_length (n : Nat) : (varRules n).length = n := by simp [varRules]

theorem lookup_var : lookupOp "var".toList = some (.data, .variadic 0 3) := by decide

theorem check_varRule (i : Nat) : check (varRule i) = true := by
  unfold varRule check
  simp only [lookup_var]
  rfl

theorem checkList_map_varRule (is : List Nat) : checkList (is.map varRule) = true := by
  induction is with
  | nil => rw [List.map_nil, checkList]
  | cons i is ih => rw [List.map_cons, checkList, check_varRule, ih]; rfl

theorem checkList_varRules (n : Nat) : checkList (varRules n) = true := checkList_map_varRule _

/-- `{"var": i}` on an array of values is the value at position `i`, as it is, with no trace -/
theorem run_varRule (vs : List Json) (i : Nat) (hi : i < vs.length) (h63 : i < 2^63) :
    run (varRule i) (.arr vs) = ⟨[], .ok vs[i]⟩ := by
  unfold varRule
  conv => lhs; unfold run
  simp only [lookup_var]
  have h1 : run (.num (.pos i)) (.arr vs) = ⟨[], .ok (.num (.pos i))⟩ := by unfold run; rfl
  simp only [h1, M.bind_ok, M.pure_logs, M.pure_out, List.append_nil]
  have h2 : execData "var".toList (.arr vs) [.num (.pos i)] = ⟨[], .ok vs[i]⟩ := by
    unfold execData
    rw [if_pos rfl]
    unfold var
    simp only [Data.keyOf, Num.asI64, h63, if_true, Data.getKey, Data.get]
    simp [hi]
  rw [h2]
  rfl

theorem runList_map_varRule (vs : List Json) (is : List Nat) (h : ∀ i ∈ is, i < vs.length ∧ i < 2^63) :
    runList (is.map varRule) (.arr vs) = ⟨[], .ok (is.map (fun i => vs.getD i .null))⟩ := by
  induction is with
  | nil => rw [List.map_nil, runList_nil]; rfl
  | cons i is ih =>
    obtain ⟨h1, h2⟩ := h i List.mem_cons_self
    rw [List.map_cons, runList_cons, run_varRule vs i h1 h2, ih (fun j hj => h j (List.mem_cons_of_mem _ hj))]
    simp [List.getD, h1]

/-- evaluating `[{"var":0}, …, {"var":n-1}]` on the array `vs` of `n` values returns `vs`, with no trace -/
theorem runList_varRules (vs : List Json) (hn : vs.length ≤ 2^63) :
    runList (varRules vs.length) (.arr vs) = ⟨[], .ok vs⟩ := by
  unfold varRules
  rw [runList_map_varRule vs _ (fun i hi => by
    have := List.mem_range.mp hi
    exact ⟨this, by omega⟩)]
  congr 2
  apply List.ext_getElem
  · simp
  · intro i h1 h2
    simp [List.getD, h2]

end JL

namespace JL
open Json

theorem checkList_iff (as : List Json) : checkList as = true ↔ ∀ a ∈ as, check a = true := by
  induction as with
  | nil => rw [checkList]; simp
  | cons a as ih => rw [checkList]; simp [ih]

/-- `apply` succeeds only on rules that parse, and then it is `run` -/
theorem apply_out_ok {a d v : Json} (h : (apply a d).out = .ok v) : check a = true ∧ (run a d).out = .ok v := by
  unfold apply at h
  cases hc : check a with
  | true => rw [hc, if_pos rfl] at h; exact ⟨rfl, h⟩
  | false => rw [hc] at h; simp at h

/-- operand values given through the public entry point determine the operand evaluation -/
theorem runList_of_apply_vals (as vs : List Json) (d : Json)
    (h : as.map (fun a => (apply a d).out) = vs.map Out.ok) :
    checkList as = true ∧ runList as d = ⟨as.flatMap (fun a => (run a d).logs), .ok vs⟩ := by
  have hlen : as.length = vs.length := by simpa using congrArg List.length h
  have hi : ∀ i (h1 : i < as.length), (apply as[i] d).out = .ok (vs[i]'(hlen ▸ h1)) := by
    intro i h1
    have := congrArg (fun l => l[i]?) h
    simp only [List.getElem?_map] at this
    rw [List.getElem?_eq_getElem h1, List.getElem?_eq_getElem (hlen ▸ h1)] at this
    simpa using this
  constructor
  · rw [checkList_iff]
    intro a ha
    obtain ⟨i, h1, rfl⟩ := List.getElem_of_mem ha
    exact (apply_out_ok (hi i h1)).1
  · rw [runList_eq_mapData, mapData_ok_iff]
    refine ⟨?_, rfl⟩
    apply List.ext_getElem
    · simp [hlen]
    · intro i h1 h2
      simp only [List.length_map] at h1
      simp only [List.getElem_map]
      exact (apply_out_ok (hi i h1)).2

end JL
