import JL.Spec.Ref
import JL.Lemmas.C04
import JL.Lemmas.C05
import JL.Lemmas.C14
/-!
# Agreement of the two-phase model (`apply` = `check` then `run`) with the single-pass reference semantics
`Spec.Ref.eval`, on success: `Spec.Ref.eval r d = R.ofM (apply r d)` for every rule and data.

`R.ofM` keeps the successful outcomes of the model's monad (value and trace) and forgets which kind of failure
the others are; it is a monad morphism, which is what the proof runs on. The flag-carrying folds of the lazy
operators are first replaced by their recursive characterisations (lemmas of C05 and C14, C13 for
`map`/`filter`/`reduce`), then compared with the reference definitions by list induction; the induction over the
rule is on `sizeOf`.
-/
namespace JL.Lemmas.C04Ref
open JL Json JL.Spec.Ref JL.Spec.Ref.R

/-! ## the result monad `R` and the morphism `ofM` -/

theorem bind_def {α β} (x : R α) (f : α → R β) : (x >>= f) = andThen x f := rfl
@[simp] theorem pure_eq_ret {α} (a : α) : (pure a : R α) = ret a := rfl

@[simp] theorem ret_bind {α β} (a : α) (f : α → R β) : (ret a >>= f) = f a := by
  show andThen (some (a, [])) f = f a
  unfold andThen
  cases h : f a with
  | none => simp only [h]; rfl
  | some p => cases p; simp only [h, List.nil_append]; rfl

@[simp] theorem fail_bind {α β} (f : α → R β) : ((fail : R α) >>= f) = fail := rfl

@[simp] theorem bind_fail {α β} (x : R α) : (x >>= fun _ => (fail : R β)) = fail := by
  show andThen x _ = fail
  unfold andThen
  cases x with
  | none => rfl
  | some p => cases p; rfl

@[simp] theorem bind_ret {α} (x : R α) : (x >>= fun a => ret a) = x := by
  show andThen x _ = x
  unfold andThen
  cases x with
  | none => rfl
  | some p => cases p; simp only [ret, List.append_nil]; rfl

theorem bind_assoc {α β γ} (x : R α) (f : α → R β) (g : β → R γ) :
    (x >>= f >>= g) = (x >>= fun a => f a >>= g) := by
  show andThen (andThen x f) g = andThen x (fun a => andThen (f a) g)
  cases x with
  | none => rfl
  | some p =>
    obtain ⟨a, l⟩ := p
    simp only [andThen]
    cases hf : f a with
    | none => rfl
    | some q =>
      obtain ⟨b, l'⟩ := q
      simp only []
      cases hg : g b with
      | none => rfl
      | some s => obtain ⟨c, l''⟩ := s; simp only [List.append_assoc]; rfl

@[simp] theorem ofM_ok {α} (l : List Json) (a : α) : ofM (⟨l, .ok a⟩ : M α) = some (a, l) := rfl
@[simp] theorem ofM_err' {α} (l : List Json) : ofM (⟨l, .err⟩ : M α) = fail := rfl
@[simp] theorem ofM_panic' {α} (l : List Json) : ofM (⟨l, .panic⟩ : M α) = fail := rfl
@[simp] theorem ofM_pure {α} (a : α) : ofM (pure a : M α) = ret a := rfl
@[simp] theorem ofM_err {α} : ofM (M.err : M α) = fail := rfl
@[simp] theorem ofM_panic {α} : ofM (M.panic : M α) = fail := rfl

/-- `ofM` is a monad morphism -/
theorem ofM_bind {α β} (x : M α) (f : α → M β) : ofM (x >>= f) = (ofM x >>= fun a => ofM (f a)) := by
  cases x with | mk l o =>
  cases o with
  | ok a =>
    show ofM (⟨l ++ (f a).logs, (f a).out⟩ : M β) = andThen (some (a, l)) (fun a => ofM (f a))
    unfold andThen
    simp only []
    cases h : f a with | mk l' o' =>
    cases o' <;> simp only [ofM] <;> rfl
  | err => rfl
  | panic => rfl

theorem ofM_ite {α} (c : Prop) [Decidable c] (x y : M α) : ofM (if c then x else y) = if c then ofM x else ofM y := by
  split <;> rfl

/-- `ofM m` is the judgement "value `v`, trace `l`" iff `m` is the success `⟨l, ok v⟩` -/
theorem ofM_eq_val {α} (m : M α) (v : α) (l : List Json) : ofM m = R.val v l ↔ m = ⟨l, .ok v⟩ := by
  cases m with | mk l' o =>
  cases o with
  | ok a =>
    simp only [ofM_ok, R.val]
    constructor
    · intro h; injection h with h; injection h with h1 h2; subst h1; subst h2; rfl
    · intro h; injection h with h1 h2; injection h2 with h2; subst h1; subst h2; rfl
  | err =>
    simp only [ofM_err', R.val, fail]
    constructor
    · intro h; cases h
    · intro h; injection h with _ h2; cases h2
  | panic =>
    simp only [ofM_panic', R.val, fail]
    constructor
    · intro h; cases h
    · intro h; injection h with _ h2; cases h2

theorem ofM_apply (x d : Json) : ofM (apply x d) = if check x = true then ofM (run x d) else fail := by
  unfold apply; split <;> rfl

/-! ## the data loops -/

theorem ofM_mapData (f : Json → M Json) (xs : List Json) :
    ofM (mapData f xs) = mapR (fun x => ofM (f x)) xs := by
  induction xs with
  | nil => rfl
  | cons x xs ih =>
    rw [mapData_cons, mapR, ofM_bind]
    congr 1; funext y
    rw [ofM_bind, ih]
    rfl

theorem ofM_filterData (f : Json → M Json) (xs : List Json) :
    ofM (filterData f xs) = filterR (fun x => ofM (f x)) xs := by
  induction xs with
  | nil => rfl
  | cons x xs ih =>
    rw [filterData_cons, filterR, ofM_bind]
    congr 1; funext y
    rw [ofM_bind, ih]
    rfl

theorem ofM_reduceData (f : Json → M Json) (xs : List Json) (a : Json) :
    ofM (reduceData f xs a) = foldR (fun acc x => ofM (f (reduceCtx acc x))) xs a := by
  induction xs generalizing a with
  | nil => rfl
  | cons x xs ih =>
    rw [reduceData_cons, foldR, ofM_bind]
    congr 1; funext a'
    exact ih a'

theorem ofM_quantData (isAll : Bool) (p : Json → M Json) (xs : List Json) :
    ofM (quantData isAll p xs isAll) = quantR isAll (fun x => ofM (p x)) xs := by
  induction xs with
  | nil => rfl
  | cons x xs ih =>
    rw [JL.Lemmas.C14.quantData_step, quantR, ofM_bind]
    congr 1; funext r
    by_cases h : truthy r = isAll
    · simp [h, ih]
    · simp [h]; rfl

theorem mapR_fail_cons (x : Json) (xs : List Json) : mapR (fun _ => (fail : R Json)) (x :: xs) = fail := rfl
theorem filterR_fail_cons (x : Json) (xs : List Json) : filterR (fun _ => (fail : R Json)) (x :: xs) = fail := rfl
theorem foldR_fail_cons (x : Json) (xs : List Json) (a : Json) :
    foldR (fun _ _ => (fail : R Json)) (x :: xs) a = fail := rfl
theorem quantR_fail_cons (isAll : Bool) (x : Json) (xs : List Json) :
    quantR isAll (fun _ => (fail : R Json)) (x :: xs) = fail := rfl

/-! ## the list-level functions of the reference semantics, given agreement on the elements -/

/-- agreement on one rule, for every data -/
def Agree (x : Json) : Prop := ∀ d, eval x d = ofM (apply x d)

theorem evalList_eq : ∀ (xs : List Json), (∀ x ∈ xs, Agree x) → ∀ d,
    evalList xs d = if checkList xs = true then ofM (runList xs d) else fail
  | [], _, d => by rw [evalList, checkList, runList_nil]; rfl
  | x :: xs, ih, d => by
      have ihx := ih x List.mem_cons_self d
      have ihxs := evalList_eq xs (fun y hy => ih y (List.mem_cons_of_mem _ hy)) d
      rw [evalList, ihx, ihxs, ofM_apply, checkList, runList_cons]
      cases hx : check x
      · simp
      · cases hxs : checkList xs
        · simp
        · simp only [Bool.and_self, if_true, ofM_bind]
          rfl

theorem evalIf_eq : ∀ (xs : List Json), (∀ x ∈ xs, Agree x) → ∀ d,
    evalIf xs d = ofM (JL.Props.C05.ifSpec d xs)
  | [], _, d => by rw [evalIf, JL.Props.C05.ifSpec]; rfl
  | [e], ih, d => by rw [evalIf, JL.Props.C05.ifSpec]; exact ih e List.mem_cons_self d
  | c :: t :: rest, ih, d => by
      have ihc := ih c List.mem_cons_self d
      have iht := ih t (List.mem_cons_of_mem _ List.mem_cons_self) d
      have ihr := evalIf_eq rest (fun y hy => ih y (List.mem_cons_of_mem _ (List.mem_cons_of_mem _ hy))) d
      rw [evalIf, JL.Props.C05.ifSpec, ofM_bind, ihc]
      congr 1; funext cv
      cases truthy cv
      · simpa using ihr
      · simp only [if_true]; exact iht

theorem evalOrAnd_eq (isOr : Bool) : ∀ (xs : List Json), (∀ x ∈ xs, Agree x) → ∀ d,
    evalOrAnd isOr xs d = ofM (JL.Lemmas.C05.oaSpec isOr d xs)
  | [], _, d => by rw [evalOrAnd, JL.Lemmas.C05.oaSpec]; rfl
  | [e], ih, d => by
      rw [evalOrAnd, JL.Lemmas.C05.oaSpec, ih e List.mem_cons_self d]
      simp
      rfl
  | e :: y :: rest, ih, d => by
      have ihe := ih e List.mem_cons_self d
      have ihr := evalOrAnd_eq isOr (y :: rest) (fun z hz => ih z (List.mem_cons_of_mem _ hz)) d
      rw [evalOrAnd, JL.Lemmas.C05.oaSpec, ofM_bind, ihe]
      congr 1; funext v
      by_cases h : truthy v = isOr
      · simp [h]; rfl
      · simp [h, ihr]

theorem evalQuantLit_eq (isAll : Bool) (P : Json → M Json) : ∀ (xs : List Json), (∀ x ∈ xs, Agree x) → ∀ d,
    evalQuantLit isAll xs (fun x => ofM (P x)) d = ofM (runQuantLit isAll xs P d isAll)
  | [], _, d => by rw [evalQuantLit, runQuantLit]; rfl
  | i :: is, ih, d => by
      have ihi := ih i List.mem_cons_self d
      have ihr := evalQuantLit_eq isAll P is (fun z hz => ih z (List.mem_cons_of_mem _ hz)) d
      rw [evalQuantLit, JL.Lemmas.C14.runQuantLit_step, ofM_bind, ihi]
      congr 1; funext iv
      rw [ofM_bind]
      congr 1; funext r
      by_cases h : truthy r = isAll
      · simp [h, ihr]
      · simp [h]; rfl

theorem evalQuantLit_fail_cons (isAll : Bool) (i : Json) (is : List Json) (d : Json) :
    evalQuantLit isAll (i :: is) (fun _ => (fail : R Json)) d = fail := by
  rw [evalQuantLit]; simp


open JL.Lemmas.C13 (collOf parsed run_map run_filter run_reduce lookup_map lookup_filter lookup_reduce)
open JL.Lemmas.C14 (quantBody run_all run_some run_none lookup_all lookup_some lookup_none)
open JL.Props.C14 (negate)

/-! ## structure of rules: sizes, the lazy keys -/


theorem sizeOf_lt_unary (k : Str) (v : Json) : sizeOf v < sizeOf (Json.obj [(k, v)]) := by
  simp only [Json.obj.sizeOf_spec, List.cons.sizeOf_spec, Prod.mk.sizeOf_spec, List.nil.sizeOf_spec]
  omega

theorem sizeOf_lt_elem (xs : List Json) (x : Json) (h : x ∈ xs) : sizeOf x < sizeOf (Json.arr xs) := by
  have := List.sizeOf_lt_of_mem h
  simp only [Json.arr.sizeOf_spec]
  omega

theorem sizeOf_lt_arr_elem (k : Str) (xs : List Json) (x : Json) (h : x ∈ xs) :
    sizeOf x < sizeOf (Json.obj [(k, .arr xs)]) :=
  Nat.lt_trans (sizeOf_lt_elem xs x h) (sizeOf_lt_unary k _)

theorem findEntry_some {k : Str} {es : List Entry} {e : Entry} (h : findEntry k es = some e) : e ∈ es ∧ e.key = k := by
  induction es with
  | nil => simp [findEntry] at h
  | cons a es ih =>
    unfold findEntry at h
    split at h
    · injection h with h; subst h; exact ⟨List.mem_cons_self, ‹_›⟩
    · exact ⟨List.mem_cons_of_mem _ (ih h).1, (ih h).2⟩

def lazyKeys : List Str := ["if", "?:", "or", "and", "map", "filter", "reduce", "all", "some", "none"].map String.toList

theorem lookup_lazy_mem (k : Str) (ar : Arity) (h : lookupOp k = some (.lazy, ar)) : k ∈ lazyKeys := by
  unfold lookupOp at h
  split at h
  · injection h with h; injection h with h1 _; cases h1
  · split at h
    · rename_i e he
      obtain ⟨hm, hk⟩ := findEntry_some he
      subst hk
      simp only [Tables.lazy, List.mem_cons, List.not_mem_nil, or_false] at hm
      rcases hm with h | h | h | h | h | h | h | h | h | h <;> subst h <;> decide
    · split at h
      · injection h with h; injection h with h1 _; cases h1
      · cases h

/-! ## eager and data operations, non-operations -/


theorem agree_nonop (k : Str) (v : Json) (h : lookupOp k = none) : Agree (.obj [(k, v)]) := by
  intro d
  rw [ofM_apply]
  unfold eval check run
  simp only [h]
  rfl

theorem check_strict_unary (k : Str) (kind : Kind) (ar : Arity) (x : Json)
    (hk : lookupOp k = some (kind, ar)) (hkind : kind ≠ .lazy) (hx : ∀ xs, x ≠ .arr xs) :
    check (.obj [(k, x)]) = (ar.canAcceptUnary && ar.isValidLen 1 && check x) := by
  conv => lhs; unfold check
  simp only [hk]
  have : (kind == Kind.lazy) = false := by cases kind <;> first | rfl | exact absurd rfl hkind
  cases x <;> first | exact absurd rfl (hx _) | simp [this]

theorem operands_unary (x : Json) (hx : ∀ xs, x ≠ .arr xs) : operands x = [x] := by
  cases x <;> first | exact absurd rfl (hx _) | rfl

theorem agree_eager_arr (k : Str) (ar : Arity) (xs : List Json) (hk : lookupOp k = some (.eager, ar))
    (ih : ∀ x ∈ xs, Agree x) : Agree (.obj [(k, .arr xs)]) := by
  intro d
  rw [ofM_apply, check_strict_arr k .eager ar xs hk (by decide), run_eager k ar _ d hk]
  conv => lhs; unfold eval
  simp only [hk, evalList_eq xs ih d, operands]
  cases ar.isValidLen xs.length
  · simp
  · cases checkList xs
    · simp
    · simp [ofM_bind, opEager]

theorem agree_eager_unary (k : Str) (ar : Arity) (x : Json) (hk : lookupOp k = some (.eager, ar))
    (hx : ∀ xs, x ≠ .arr xs) (ih : Agree x) : Agree (.obj [(k, x)]) := by
  intro d
  rw [ofM_apply, check_strict_unary k .eager ar x hk (by decide) hx, run_eager k ar _ d hk, operands_unary x hx]
  have he : eval (.obj [(k, x)]) d =
      if (ar.canAcceptUnary && ar.isValidLen 1) = true then (eval x d >>= fun r => opEager k [r]) else fail := by
    conv => lhs; unfold eval
    simp only [hk]
  rw [he, ih d, ofM_apply, runList_cons, runList_nil]
  cases (ar.canAcceptUnary && ar.isValidLen 1)
  · simp
  · cases check x
    · simp
    · simp [ofM_bind, opEager]

theorem agree_data_arr (k : Str) (ar : Arity) (xs : List Json) (hk : lookupOp k = some (.data, ar))
    (ih : ∀ x ∈ xs, Agree x) : Agree (.obj [(k, .arr xs)]) := by
  intro d
  rw [ofM_apply, check_strict_arr k .data ar xs hk (by decide), run_data k ar _ d hk]
  conv => lhs; unfold eval
  simp only [hk, evalList_eq xs ih d, operands]
  cases ar.isValidLen xs.length
  · simp
  · cases checkList xs
    · simp
    · simp [ofM_bind, opData]

theorem agree_data_unary (k : Str) (ar : Arity) (x : Json) (hk : lookupOp k = some (.data, ar))
    (hx : ∀ xs, x ≠ .arr xs) (ih : Agree x) : Agree (.obj [(k, x)]) := by
  intro d
  rw [ofM_apply, check_strict_unary k .data ar x hk (by decide) hx, run_data k ar _ d hk, operands_unary x hx]
  have he : eval (.obj [(k, x)]) d =
      if (ar.canAcceptUnary && ar.isValidLen 1) = true then (eval x d >>= fun r => opData k d [r]) else fail := by
    conv => lhs; unfold eval
    simp only [hk]
  rw [he, ih d, ofM_apply, runList_cons, runList_nil]
  cases (ar.canAcceptUnary && ar.isValidLen 1)
  · simp
  · cases check x
    · simp
    · simp [ofM_bind, opData]

/-! ## `if`, `?:`, `or`, `and` -/

theorem agree_if_arr (k : Str) (hk : k = "if".toList ∨ k = "?:".toList) (xs : List Json)
    (ih : ∀ x ∈ xs, Agree x) : Agree (.obj [(k, .arr xs)]) := by
  intro d
  have hl : lookupOp k = some (.lazy, .any) := by rcases hk with h | h <;> subst h <;> decide
  have hb : (k = "if".toList || k = "?:".toList) = true := by rcases hk with h | h <;> subst h <;> decide
  rw [ofM_apply, JL.Lemmas.C05.check_if k hk, if_pos rfl, JL.Lemmas.C05.run_if_arr k hk, ← evalIf_eq xs ih d]
  conv => lhs; unfold eval
  simp only [hl, hb, Arity.isValidLen, Bool.not_true, Bool.false_eq_true, if_false, if_true]

theorem agree_if_unary (k : Str) (hk : k = "if".toList ∨ k = "?:".toList) (x : Json)
    (hx : ∀ xs, x ≠ .arr xs) (ih : Agree x) : Agree (.obj [(k, x)]) := by
  intro d
  have hl : lookupOp k = some (.lazy, .any) := by rcases hk with h | h <;> subst h <;> decide
  have hb : (k = "if".toList || k = "?:".toList) = true := by rcases hk with h | h <;> subst h <;> decide
  have hb4 : (k = "if".toList || k = "?:".toList || k = "or".toList || k = "and".toList) = true := by
    rcases hk with h | h <;> subst h <;> decide
  rw [ofM_apply, JL.Lemmas.C05.check_if k hk, if_pos rfl, JL.Lemmas.C05.run_if_unary k hk x d hx]
  conv => lhs; unfold eval
  simp only [hl, hb4]
  rw [show (JL.Props.C05.ev d x) = apply x d from rfl, ← ih d]
  simp [Arity.isValidLen, Arity.canAcceptUnary]

theorem agree_oa_arr (k : Str) (isOr : Bool) (hk : (k = "or".toList ∧ isOr = true) ∨ (k = "and".toList ∧ isOr = false))
    (xs : List Json) (ih : ∀ x ∈ xs, Agree x) : Agree (.obj [(k, .arr xs)]) := by
  intro d
  have hl : lookupOp k = some (.lazy, .atLeast 1) := by rcases hk with ⟨h, _⟩ | ⟨h, _⟩ <;> subst h <;> decide
  have hk' : k = "or".toList ∨ k = "and".toList := by rcases hk with ⟨h, _⟩ | ⟨h, _⟩ <;> simp [h]
  have hrun : run (.obj [(k, .arr xs)]) d = JL.Lemmas.C05.oaSpec isOr d xs := by
    rcases hk with ⟨h, h'⟩ | ⟨h, h'⟩ <;> subst h <;> subst h'
    · rw [JL.Lemmas.C05.run_or_arr, JL.Lemmas.C05.oaSpec_or]
    · rw [JL.Lemmas.C05.run_and_arr, JL.Lemmas.C05.oaSpec_and]
  have heval : eval (.obj [(k, .arr xs)]) d = if decide (1 ≤ xs.length) = true then evalOrAnd isOr xs d else fail := by
    conv => lhs; unfold eval
    simp only [hl, Arity.isValidLen]
    rcases hk with ⟨h, h'⟩ | ⟨h, h'⟩ <;> subst h <;> subst h'
    · have h1 : ("or".toList = "if".toList || "or".toList = "?:".toList) = false := by decide
      cases decide (1 ≤ xs.length) <;> simp
    · have h1 : ("and".toList = "if".toList || "and".toList = "?:".toList) = false := by decide
      have h2 : ("and".toList = "or".toList) = False := by decide
      cases decide (1 ≤ xs.length) <;> simp
  rw [ofM_apply, JL.Lemmas.C05.check_oa k hk', hrun, heval, evalOrAnd_eq isOr xs ih d]

theorem agree_oa_unary (k : Str) (hk : k = "or".toList ∨ k = "and".toList) (x : Json)
    (hx : ∀ xs, x ≠ .arr xs) (ih : Agree x) : Agree (.obj [(k, x)]) := by
  intro d
  have hl : lookupOp k = some (.lazy, .atLeast 1) := by rcases hk with h | h <;> subst h <;> decide
  have hb : (k = "if".toList || k = "?:".toList || k = "or".toList || k = "and".toList) = true := by
    rcases hk with h | h <;> subst h <;> decide
  have hrun : run (.obj [(k, x)]) d = apply x d := by
    rcases hk with h | h <;> subst h
    · exact JL.Lemmas.C05.run_or_unary x d hx
    · exact JL.Lemmas.C05.run_and_unary x d hx
  rw [ofM_apply, JL.Lemmas.C05.check_oa_unary k hk x hx, if_pos rfl, hrun, ← ih d]
  conv => lhs; unfold eval
  simp only [hl, hb]
  simp [Arity.isValidLen, Arity.canAcceptUnary]

/-! ## `map`, `filter`, `reduce` -/

theorem agree_fun (e : Json) (ih : Agree e) : (fun x => eval e x) = fun x => ofM (apply e x) := funext ih

theorem apply_fun_of_check (e : Json) (h : check e = true) : (fun x => ofM (apply e x)) = fun x => ofM (run e x) := by
  funext x; rw [ofM_apply, if_pos h]
theorem apply_fun_of_not_check (e : Json) (h : check e = false) : (fun x => ofM (apply e x)) = fun _ => (fail : R Json) := by
  funext x; rw [ofM_apply, h]; rfl

/-- the middle part of `map`/`filter`/`reduce` -/
theorem coll_part {β} (cv e : Json) (K : List Json → M β) (KR : List Json → R β) (emptyR : R β)
    (hnil : ofM (K []) = emptyR)
    (hcons : ∀ x xs, KR (x :: xs) = if check e = true then ofM (K (x :: xs)) else fail) :
    ofM (M.ofOption (collOf cv) >>= fun items => parsed e >>= fun _ => K items) =
      (coll cv >>= fun items => if items.isEmpty = true then (if check e = true then emptyR else fail) else KR items) := by
  have key : ∀ items : List Json, ofM (parsed e >>= fun _ => K items) =
      (if items.isEmpty = true then (if check e = true then emptyR else fail) else KR items) := by
    intro items
    cases items with
    | nil => cases hc : check e <;> simp [parsed, hc, hnil]
    | cons x xs => rw [hcons]; cases hc : check e <;> simp [parsed, hc]
  cases cv <;> simp [collOf, coll, key]

theorem check_map_arr (xs : List Json) : check (.obj [("map".toList, .arr xs)]) = (xs.length == 2) := by
  unfold check; simp only [lookup_map]; simp [Arity.isValidLen]

theorem agree_map (xs : List Json) (ih : ∀ x ∈ xs, Agree x) : Agree (.obj [("map".toList, .arr xs)]) := by
  intro d
  rw [ofM_apply, check_map_arr]
  have h1 : ("map".toList = "if".toList || "map".toList = "?:".toList) = false := by decide
  have h2 : ("map".toList = "or".toList) = False := by decide
  have h3 : ("map".toList = "and".toList) = False := by decide
  conv => lhs; unfold eval
  simp only [lookup_map, h1, h2, h3, if_false, if_true, Bool.false_eq_true, Arity.isValidLen]
  match xs, ih with
  | [], _ => rfl
  | [_], _ => rfl
  | _ :: _ :: _ :: _, _ => rfl
  | [c, e], ih =>
    have ihc := ih c List.mem_cons_self d
    have ihe := agree_fun e (ih e (List.mem_cons_of_mem _ List.mem_cons_self))
    simp only [List.length_cons, List.length_nil, BEq.rfl, Bool.not_true, Bool.false_eq_true, if_false, if_true]
    rw [run_map, ofM_bind, ihc, ihe]
    congr 1; funext cv
    refine (coll_part cv e (fun items => mapData (fun x => run e x) items >>= fun rs => pure (Json.arr rs))
      (fun items => mapR (fun x => ofM (apply e x)) items >>= fun rs => ret (Json.arr rs)) (ret (Json.arr [])) rfl ?_).symm
    intro x xs
    cases hc : check e
    · rw [apply_fun_of_not_check e hc]; rfl
    · rw [apply_fun_of_check e hc, ← ofM_mapData, ofM_bind]; rfl

/-! ## `all`, `some`, `none` -/

/-- `all`/`some` over a collection that is a value -/
def quantValR (isAll : Bool) (cv : Json) (pR : Json → R Json) : R Bool :=
  match quantItems cv with
  | none => fail
  | some items => if items.isEmpty then ret false else quantR isAll pR items

theorem ofM_quantValue (isAll : Bool) (cv p : Json) :
    ofM (quantValue isAll cv (check p) (fun x => run p x)) =
      (quantValR isAll cv (fun x => ofM (apply p x)) >>= fun b => ret (.bool b)) := by
  unfold quantValue quantValR
  cases quantItems cv with
  | none => rfl
  | some items =>
    cases items with
    | nil => rfl
    | cons x xs =>
      cases hc : check p
      · rw [apply_fun_of_not_check p hc]; rfl
      · rw [apply_fun_of_check p hc]
        simp only [List.isEmpty_cons, Bool.false_eq_true, if_false, Bool.not_true, ofM_bind, ofM_quantData]
        rfl

/-- the body of the reference semantics of `all`/`some`/`none` before the final (possibly negating) step -/
def quantBodyR (isAll : Bool) (c p d : Json) : R Bool :=
  match c with
  | .arr elems =>
      if elems.isEmpty then ret false
      else evalQuantLit isAll elems (fun x => eval p x) d
  | other => do
      let cv ← (if isObj other then eval other d else ret other)
      quantValR isAll cv (fun x => eval p x)

theorem ofM_quantBody (isAll : Bool) (c p d : Json) (ihc : Agree c) (ihp : Agree p)
    (ihe : ∀ elems, c = .arr elems → ∀ x ∈ elems, Agree x) :
    ofM (quantBody isAll c p d) = (quantBodyR isAll c p d >>= fun b => ret (.bool b)) := by
  unfold quantBody quantBodyR
  rw [agree_fun p ihp]
  cases c with
  | arr elems =>
    cases elems with
    | nil => rfl
    | cons x xs =>
      simp only [List.isEmpty_cons, Bool.false_eq_true, if_false]
      cases hc : check p
      · rw [apply_fun_of_not_check p hc, evalQuantLit_fail_cons]; rfl
      · rw [apply_fun_of_check p hc, evalQuantLit_eq isAll _ _ (ihe _ rfl) d]
        simp only [Bool.not_true, Bool.false_eq_true, if_false, ofM_bind]
        rfl
  | obj kvs =>
    simp only [isObj, if_true]
    rw [ihc d, ofM_apply]
    cases hc : check (.obj kvs)
    · rfl
    · simp only [Bool.not_true, Bool.false_eq_true, if_false, if_true, ofM_bind, ofM_quantValue, bind_assoc]
  | null => simp only [isObj, Bool.false_eq_true, if_false, ofM_quantValue, ret_bind]
  | bool b => simp only [isObj, Bool.false_eq_true, if_false, ofM_quantValue, ret_bind]
  | num n => simp only [isObj, Bool.false_eq_true, if_false, ofM_quantValue, ret_bind]
  | str s => simp only [isObj, Bool.false_eq_true, if_false, ofM_quantValue, ret_bind]

theorem check_filter_arr (xs : List Json) : check (.obj [("filter".toList, .arr xs)]) = (xs.length == 2) := by
  unfold check; simp only [lookup_filter]; simp [Arity.isValidLen]
theorem check_reduce_arr (xs : List Json) : check (.obj [("reduce".toList, .arr xs)]) = (xs.length == 3) := by
  unfold check; simp only [lookup_reduce]; simp [Arity.isValidLen]

theorem agree_filter (xs : List Json) (ih : ∀ x ∈ xs, Agree x) : Agree (.obj [("filter".toList, .arr xs)]) := by
  intro d
  rw [ofM_apply, check_filter_arr]
  have h1 : ("filter".toList = "if".toList || "filter".toList = "?:".toList) = false := by decide
  have h2 : ("filter".toList = "or".toList) = False := by decide
  have h3 : ("filter".toList = "and".toList) = False := by decide
  have h4 : ("filter".toList = "map".toList) = False := by decide
  conv => lhs; unfold eval
  simp only [lookup_filter, h1, h2, h3, h4, if_false, if_true, Bool.false_eq_true, Arity.isValidLen]
  match xs, ih with
  | [], _ => rfl
  | [_], _ => rfl
  | _ :: _ :: _ :: _, _ => rfl
  | [c, e], ih =>
    have ihc := ih c List.mem_cons_self d
    have ihe := agree_fun e (ih e (List.mem_cons_of_mem _ List.mem_cons_self))
    simp only [List.length_cons, List.length_nil, BEq.rfl, Bool.not_true, Bool.false_eq_true, if_false, if_true]
    rw [run_filter, ofM_bind, ihc, ihe]
    congr 1; funext cv
    refine (coll_part cv e (fun items => filterData (fun x => run e x) items >>= fun rs => pure (Json.arr rs))
      (fun items => filterR (fun x => ofM (apply e x)) items >>= fun rs => ret (Json.arr rs)) (ret (Json.arr [])) rfl ?_).symm
    intro x xs
    cases hc : check e
    · rw [apply_fun_of_not_check e hc]; rfl
    · rw [apply_fun_of_check e hc, ← ofM_filterData, ofM_bind]; rfl

theorem agree_reduce (xs : List Json) (ih : ∀ x ∈ xs, Agree x) : Agree (.obj [("reduce".toList, .arr xs)]) := by
  intro d
  rw [ofM_apply, check_reduce_arr]
  have h1 : ("reduce".toList = "if".toList || "reduce".toList = "?:".toList) = false := by decide
  have h2 : ("reduce".toList = "or".toList) = False := by decide
  have h3 : ("reduce".toList = "and".toList) = False := by decide
  have h4 : ("reduce".toList = "map".toList) = False := by decide
  have h5 : ("reduce".toList = "filter".toList) = False := by decide
  conv => lhs; unfold eval
  simp only [lookup_reduce, h1, h2, h3, h4, h5, if_false, if_true, Bool.false_eq_true, Arity.isValidLen]
  match xs, ih with
  | [], _ => rfl
  | [_], _ => rfl
  | [_, _], _ => rfl
  | _ :: _ :: _ :: _ :: _, _ => rfl
  | [c, e, i], ih =>
    have ihc := ih c List.mem_cons_self d
    have ihi := ih i (List.mem_cons_of_mem _ (List.mem_cons_of_mem _ List.mem_cons_self)) d
    have ihe : (fun (acc x : Json) => eval e (reduceCtx acc x)) = fun acc x => ofM (apply e (reduceCtx acc x)) := by
      funext acc x; exact ih e (List.mem_cons_of_mem _ List.mem_cons_self) _
    simp only [List.length_cons, List.length_nil, BEq.rfl, Bool.not_true, Bool.false_eq_true, if_false, if_true]
    rw [run_reduce, ofM_bind, ihc, ihe]
    congr 1; funext cv
    rw [ofM_bind, ihi]
    congr 1; funext iv
    refine (coll_part cv e (fun items => reduceData (fun x => run e x) items iv)
      (fun items => foldR (fun acc x => ofM (apply e (reduceCtx acc x))) items iv) (ret iv) rfl ?_).symm
    intro x xs
    cases hc : check e
    · have : (fun (acc x : Json) => ofM (apply e (reduceCtx acc x))) = fun _ _ => (fail : R Json) := by
        funext acc x; rw [ofM_apply, hc]; rfl
      rw [this]; rfl
    · have : (fun (acc x : Json) => ofM (apply e (reduceCtx acc x))) = fun acc x => ofM (run e (reduceCtx acc x)) := by
        funext acc x; rw [ofM_apply, if_pos hc]
      rw [this, ← ofM_reduceData]; rfl

theorem agree_quant (k : Str) (hk : k = "all".toList ∨ k = "some".toList ∨ k = "none".toList) (xs : List Json)
    (ih : ∀ x ∈ xs, Agree x) (ih2 : ∀ c ∈ xs, ∀ elems, c = .arr elems → ∀ x ∈ elems, Agree x) :
    Agree (.obj [(k, .arr xs)]) := by
  intro d
  have hl : lookupOp k = some (.lazy, .exactly 2) := by rcases hk with h | h | h <;> subst h <;> decide
  have h1 : (k = "if".toList || k = "?:".toList) = false := by rcases hk with h | h | h <;> subst h <;> decide
  have h2 : (k = "or".toList) = False := by rcases hk with h | h | h <;> subst h <;> decide
  have h3 : (k = "and".toList) = False := by rcases hk with h | h | h <;> subst h <;> decide
  have h4 : (k = "map".toList) = False := by rcases hk with h | h | h <;> subst h <;> decide
  have h5 : (k = "filter".toList) = False := by rcases hk with h | h | h <;> subst h <;> decide
  have h6 : (k = "reduce".toList) = False := by rcases hk with h | h | h <;> subst h <;> decide
  have h7 : (k = "all".toList || k = "some".toList || k = "none".toList) = true := by
    rcases hk with h | h | h <;> subst h <;> decide
  rw [ofM_apply, JL.Lemmas.C14.check_quant k hk]
  conv => lhs; unfold eval
  simp only [hl, h1, h2, h3, h4, h5, h6, h7, if_false, if_true, Bool.false_eq_true, Arity.isValidLen]
  match xs, ih, ih2 with
  | [], _, _ => rfl
  | [_], _, _ => rfl
  | _ :: _ :: _ :: _, _, _ => rfl
  | [c, p], ih, ih2 =>
    have ihc := ih c List.mem_cons_self
    have ihp := ih p (List.mem_cons_of_mem _ List.mem_cons_self)
    have ihe := ih2 c List.mem_cons_self
    simp only [List.length_cons, List.length_nil, BEq.rfl, Bool.not_true, Bool.false_eq_true, if_false, if_true]
    show (quantBodyR (decide (k = "all".toList)) c p d >>= fun b => ret (Json.bool (if k = "none".toList then !b else b))) = _
    rcases hk with h | h | h <;> subst h
    · rw [run_all, ofM_quantBody true c p d ihc ihp ihe]
      rfl
    · rw [run_some, ofM_quantBody false c p d ihc ihp ihe]
      rfl
    · rw [run_none, ofM_bind, ofM_quantBody false c p d ihc ihp ihe, bind_assoc]
      congr 1


/-! ## the induction over the rule -/

theorem arr_or_not (v : Json) : (∃ xs, v = .arr xs) ∨ (∀ xs, v ≠ .arr xs) := by
  cases v <;> first | exact Or.inl ⟨_, rfl⟩ | exact Or.inr (fun _ h => by cases h)

/-- a lazy operator whose arity is exactly 2 or 3 does not accept a bare operand: both semantics fail -/
theorem agree_lazy_exact_unary (k : Str) (n : Nat) (x : Json) (hl : lookupOp k = some (.lazy, .exactly n)) (hn : n ≠ 1)
    (hx : ∀ xs, x ≠ .arr xs) : Agree (.obj [(k, x)]) := by
  intro d
  have hc : check (.obj [(k, x)]) = false := by
    unfold check
    simp only [hl]
    cases x <;> first | exact absurd rfl (hx _) | simp [Arity.canAcceptUnary, hn]
  rw [ofM_apply, hc]
  conv => lhs; unfold eval
  simp only [hl]
  simp [Arity.canAcceptUnary, hn]

theorem agree_literal (r : Json) (h : ∀ k v, r ≠ .obj [(k, v)]) : Agree r := by
  intro d
  have h1 : eval r d = ret r := by
    unfold eval
    split
    · exact absurd rfl (h _ _)
    · rfl
  have h2 : check r = true := by
    unfold check
    split
    · exact absurd rfl (h _ _)
    · rfl
  have h3 : run r d = pure r := by
    unfold run
    split
    · exact absurd rfl (h _ _)
    · rfl
  rw [ofM_apply, h1, h2, h3]; rfl

/-- one step of the induction over the rule -/
theorem agree_step (r : Json) (ih : ∀ r', sizeOf r' < sizeOf r → Agree r') : Agree r := by
  by_cases hr : ∃ k v, r = .obj [(k, v)]
  · obtain ⟨k, v, rfl⟩ := hr
    have ihv : Agree v := ih v (sizeOf_lt_unary k v)
    cases hl : lookupOp k with
    | none => exact agree_nonop k v hl
    | some p =>
      obtain ⟨kind, ar⟩ := p
      rcases arr_or_not v with ⟨xs, rfl⟩ | hx
      · have ihxs : ∀ x ∈ xs, Agree x := fun x hx => ih x (sizeOf_lt_arr_elem k xs x hx)
        cases kind with
        | eager => exact agree_eager_arr k ar xs hl ihxs
        | data => exact agree_data_arr k ar xs hl ihxs
        | «lazy» =>
          have hm := lookup_lazy_mem k ar hl
          have hm' : k = "if".toList ∨ k = "?:".toList ∨ k = "or".toList ∨ k = "and".toList ∨ k = "map".toList ∨
              k = "filter".toList ∨ k = "reduce".toList ∨ k = "all".toList ∨ k = "some".toList ∨ k = "none".toList := by
            simpa [lazyKeys] using hm
          rcases hm' with h | h | h | h | h | h | h | h | h | h
          · exact agree_if_arr k (Or.inl h) xs ihxs
          · exact agree_if_arr k (Or.inr h) xs ihxs
          · exact agree_oa_arr k true (Or.inl ⟨h, rfl⟩) xs ihxs
          · exact agree_oa_arr k false (Or.inr ⟨h, rfl⟩) xs ihxs
          · subst h; exact agree_map xs ihxs
          · subst h; exact agree_filter xs ihxs
          · subst h; exact agree_reduce xs ihxs
          all_goals
            refine agree_quant k (by simp [h]) xs ihxs ?_
            intro c hc elems he x hx
            subst he
            exact ih x (Nat.lt_trans (sizeOf_lt_elem elems x hx) (sizeOf_lt_arr_elem k xs _ hc))
      · cases kind with
        | eager => exact agree_eager_unary k ar v hl hx ihv
        | data => exact agree_data_unary k ar v hl hx ihv
        | «lazy» =>
          have hm := lookup_lazy_mem k ar hl
          have hm' : k = "if".toList ∨ k = "?:".toList ∨ k = "or".toList ∨ k = "and".toList ∨ k = "map".toList ∨
              k = "filter".toList ∨ k = "reduce".toList ∨ k = "all".toList ∨ k = "some".toList ∨ k = "none".toList := by
            simpa [lazyKeys] using hm
          rcases hm' with h | h | h | h | h | h | h | h | h | h
          · exact agree_if_unary k (Or.inl h) v hx ihv
          · exact agree_if_unary k (Or.inr h) v hx ihv
          · exact agree_oa_unary k (Or.inl h) v hx ihv
          · exact agree_oa_unary k (Or.inr h) v hx ihv
          · subst h; exact agree_lazy_exact_unary _ 2 v lookup_map (by decide) hx
          · subst h; exact agree_lazy_exact_unary _ 2 v lookup_filter (by decide) hx
          · subst h; exact agree_lazy_exact_unary _ 3 v lookup_reduce (by decide) hx
          · subst h; exact agree_lazy_exact_unary _ 2 v lookup_all (by decide) hx
          · subst h; exact agree_lazy_exact_unary _ 2 v lookup_some (by decide) hx
          · subst h; exact agree_lazy_exact_unary _ 2 v lookup_none (by decide) hx
  · exact agree_literal r (fun k v h => hr ⟨k, v, h⟩)

/-- **Agreement**: the single-pass reference semantics yields exactly the successful outcomes of the model -/
theorem eval_eq_ofM_apply (r d : Json) : eval r d = ofM (apply r d) := by
  have : ∀ n, ∀ r, sizeOf r < n → Agree r := by
    intro n
    induction n with
    | zero => intro r h; omega
    | succ n ihn =>
      intro r h
      exact agree_step r (fun r' h' => ihn r' (by omega))
  exact this (sizeOf r + 1) r (by omega) d


end JL.Lemmas.C04Ref
