import JL.Lemmas.RoundTripSer
import JL.Lemmas.RoundTripSeventeen
/-!
# Round trips text ↔ number (umbrella module)

* `RoundTripDigits`  — decimal text of a natural number
* `RoundTripParse`   — `str_to_number` / `parse_float_string` on a literal of known shape
* `RoundTripRound`   — every value in the rounding interval of a double rounds to it (`roundK_inside`)
* `RoundTripShortest`— `shortest` returns digits inside the interval; `ofDecimal_shortest`
* `RoundTripLayout`  — `format`'s layout keeps the value; `strToNumber_format`
* `RoundTripSeventeen` — the digit search never falls through (`shortest_ne_zero`)
* `RoundTripSer`     — `Json.ser` is one line

This file: integers, and the statements at the level of `Num` / `Json`.
-/
namespace JL.Lemmas.RoundTrip
open JL JL.F64 JL.Json JL.JsOp JL.Lemmas.StrNum

theorem ofDecimal_exp_zero (neg : Bool) (d : Nat) (hd : d ≠ 0) :
    ofDecimal neg d 0 = roundUnits neg (d * S) 1 := by
  unfold ofDecimal
  have hd' : (d == 0) = false := by simpa using hd
  have h1 : ¬ ((0 : Int) > 400) := by decide
  have h2 : ¬ ((0 : Int) + ((natToStr d).length : Int) < -400) := by omega
  generalize S = s
  simp only [hd', Bool.false_eq_true, if_false, h1, h2]
  simp

theorem natToStr_litText (neg : Bool) (n : Nat) :
    (if neg then ['-'] else []) ++ natToStr n = litText neg (natToStr n) [] false [] := by
  simp [litText]

theorem strToNumber_signed_nat (neg : Bool) (n : Nat) :
    strToNumber ((if neg then ['-'] else []) ++ natToStr n) = some (ofDecimal neg n 0) := by
  rw [natToStr_litText, strToNumber_litText neg (natToStr n) [] false [] 0 (natToStr_digits n) (by simp)
    (natToStr_ne_nil n) (fun _ => rfl) (Or.inl ⟨rfl, rfl⟩)]
  simp [digitsVal_natToStr]

theorem parseFloatString_signed_nat (neg : Bool) (n : Nat) :
    parseFloatString ((if neg then ['-'] else []) ++ natToStr n) = some (ofDecimal neg n 0) := by
  rw [natToStr_litText, parseFloatString_litText neg (natToStr n) [] false [] 0 (natToStr_digits n) (by simp)
    (natToStr_ne_nil n) (fun _ => rfl) (Or.inl ⟨rfl, rfl⟩)]
  simp [digitsVal_natToStr]

theorem ofDecimal_nat (n : Nat) : ofDecimal false n 0 = ofNat n := by
  by_cases hn : n = 0
  · subst hn; decide +kernel
  · rw [ofDecimal_exp_zero false n hn]; rfl

theorem ofDecimal_negNat (m : Nat) (hm : 1 ≤ m) : ofDecimal true m 0 = ofInt (-(m : Int)) := by
  rw [ofDecimal_exp_zero true m (by omega)]
  unfold ofInt
  have h1 : decide (-(m : Int) < 0) = true := by simp; omega
  have h2 : (-(m : Int)).natAbs = m := by omega
  rw [h1, h2]

/-- **integers**: the decimal text of any natural number converts to the nearest double (no size bound) -/
theorem strToNumber_natToStr (n : Nat) : strToNumber (natToStr n) = some (ofNat n) := by
  have := strToNumber_signed_nat false n
  simpa [ofDecimal_nat] using this

/-- … and `-m` for `m ≥ 1` converts to the nearest double of the negative integer -/
theorem strToNumber_neg_natToStr (m : Nat) (hm : 1 ≤ m) :
    strToNumber ('-' :: natToStr m) = some (ofInt (-(m : Int))) := by
  have := strToNumber_signed_nat true m
  simpa [ofDecimal_negNat m hm] using this

theorem parseFloatString_natToStr (n : Nat) : parseFloatString (natToStr n) = some (ofNat n) := by
  have := parseFloatString_signed_nat false n
  simpa [ofDecimal_nat] using this

theorem parseFloatString_neg_natToStr (m : Nat) (hm : 1 ≤ m) :
    parseFloatString ('-' :: natToStr m) = some (ofInt (-(m : Int))) := by
  have := parseFloatString_signed_nat true m
  simpa [ofDecimal_negNat m hm] using this

/-! ## floats, unconditionally -/

/-- for a finite non-zero double the digits found by `shortest` convert back to it -/
theorem ofDecimal_shortest' (neg : Bool) (k : Nat) (hk0 : k ≠ 0) (hk : OnGrid k) :
    ofDecimal neg (shortest k).1 (shortest k).2 = fin neg k :=
  ofDecimal_shortest neg k _ _ hk0 hk rfl (shortest_ne_zero k hk0 hk)

/-- `Number(format x) = x` for every finite double (both zeros included) -/
theorem strToNumber_format' (x : F64) (hf : x.isFinite = true) (hx : WF x) : strToNumber (format x) = some x := by
  cases x with
  | nan => simp [isFinite] at hf
  | inf a => simp [isFinite] at hf
  | fin a k => exact strToNumber_format a k hx (shortestOK_of_onGrid k hx)

theorem parseFloatString_format' (x : F64) (hf : x.isFinite = true) (hx : WF x) :
    parseFloatString (format x) = some x := by
  cases x with
  | nan => simp [isFinite] at hf
  | inf a => simp [isFinite] at hf
  | fin a k => exact parseFloatString_format a k hx (shortestOK_of_onGrid k hx)

/-! ## numbers as `serde_json` holds them -/

/-- **`Number(text of x) = x`** for every JSON number -/
theorem strToNumber_numToStr (x : Num) (hx : Num.WF x) : strToNumber x.toStr = some x.toF64 := by
  cases x with
  | pos n => exact strToNumber_natToStr n
  | neg m => exact strToNumber_neg_natToStr m hx.1
  | flt f =>
    cases f with
    | nan => exact absurd hx.1 (by decide)
    | inf a => exact absurd hx.1 (by simp [isFinite])
    | fin a k => exact strToNumber_format a k hx.2 (shortestOK_of_onGrid k hx.2)

/-- **`parseFloat(text of x) = x`** -/
theorem parseFloatString_numToStr (x : Num) (hx : Num.WF x) :
    parseFloatString x.toStr = some x.toF64 := by
  cases x with
  | pos n => exact parseFloatString_natToStr n
  | neg m => exact parseFloatString_neg_natToStr m hx.1
  | flt f =>
    cases f with
    | nan => exact absurd hx.1 (by decide)
    | inf a => exact absurd hx.1 (by simp [isFinite])
    | fin a k => exact parseFloatString_format a k hx.2 (shortestOK_of_onGrid k hx.2)

theorem toString_singleton_num (x : Num) : JsOp.toString (.arr [.num x]) = x.toStr := by
  unfold JsOp.toString
  unfold JsOp.toStringElems
  unfold JsOp.toStringElems
  unfold JsOp.toString
  rfl

end JL.Lemmas.RoundTrip
