import JL.StrArr
import JL.Spec.DeepEq
/-!
# Lemmas for C15 — `in`: substring test, and `deep_eq` / `number_eq` against the specification `Spec.SpecEq`
-/
namespace JL.Lemmas.C15
open JL Json ArrOp JL.Spec

/-! ## `isPrefix`, `isInfix` -/

theorem isPrefix_iff : ∀ (n h : Str), isPrefix n h = true ↔ ∃ suf, h = n ++ suf
  | [], h => by simp [isPrefix]
  | _ :: _, [] => by simp [isPrefix]
  | a :: as, b :: bs => by
      simp only [isPrefix, Bool.and_eq_true, beq_iff_eq, isPrefix_iff as bs, List.cons_append, List.cons.injEq]
      constructor
      · rintro ⟨rfl, suf, rfl⟩; exact ⟨suf, rfl, rfl⟩
      · rintro ⟨suf, rfl, rfl⟩; exact ⟨rfl, suf, rfl⟩

theorem isInfix_iff (n : Str) : ∀ h : Str, isInfix n h = true ↔ ∃ pre suf, h = pre ++ n ++ suf
  | [] => by
      simp only [isInfix, List.isEmpty_iff]
      constructor
      · rintro rfl; exact ⟨[], [], rfl⟩
      · rintro ⟨pre, suf, h⟩
        have := congrArg List.length h
        simp only [List.length_nil, List.length_append] at this
        exact List.eq_nil_of_length_eq_zero (by omega)
  | c :: cs => by
      simp only [isInfix, Bool.or_eq_true, isPrefix_iff, isInfix_iff n cs]
      constructor
      · rintro (⟨suf, h⟩ | ⟨pre, suf, h⟩)
        · exact ⟨[], suf, by simpa using h⟩
        · exact ⟨c :: pre, suf, by simp [h]⟩
      · rintro ⟨pre, suf, h⟩
        cases pre with
        | nil => exact Or.inl ⟨suf, by simpa using h⟩
        | cons p pre =>
          simp only [List.cons_append, List.cons.injEq] at h
          exact Or.inr ⟨pre, suf, h.2⟩

/-! ## `number_eq` -/

/-- `1e30_f64` is the double `1000000000000000019884624838656` -/
def K30 : Nat := 1000000000000000019884624838656

theorem F1e30_eq : F1e30 = .fin false (K30 * F64.S) := by decide +kernel

theorem S_pos : 0 < F64.S := by unfold F64.S; exact Nat.two_pow_pos 1074

theorem fin_cond (s : Bool) (k : Nat) :
    ((F64.fin s k).fractIsZero && F64.lt (F64.fin s k).abs F1e30) = decide (k % F64.S = 0 ∧ k < K30 * F64.S) := by
  rw [F1e30_eq]
  simp only [F64.fractIsZero, F64.abs, F64.lt, Bool.false_eq_true, if_false, Bool.decide_and, Int.ofNat_lt]
  rfl

/-- `as_int` on a finite float: the integrality test `fract() == 0.0` and the `1e30` threshold, in units -/
theorem asInt_fin (s : Bool) (k : Nat) :
    asInt (.flt (.fin s k)) = if k % F64.S = 0 ∧ k < K30 * F64.S then some (F64.fin s k).truncInt else none := by
  show (if (_ && _) = true then _ else _) = _
  rw [fin_cond]
  simp only [decide_eq_true_eq]

/-- when `as_int` succeeds the number is that integer exactly -/
theorem asInt_some (a : Num) (x : Int) (h : asInt a = some x) : numValue a = x * (F64.S : Int) := by
  cases a with
  | pos n => simp only [asInt, Option.some.injEq] at h; subst h; rfl
  | neg m => simp only [asInt, Option.some.injEq] at h; subst h; simp only [numValue, Int.neg_mul]
  | flt f =>
    cases f with
    | nan => simp [asInt, F64.fractIsZero] at h
    | inf s => simp [asInt, F64.fractIsZero] at h
    | fin s k =>
      rw [asInt_fin] at h
      by_cases hc : k % F64.S = 0 ∧ k < K30 * F64.S
      · rw [if_pos hc] at h
        simp only [Option.some.injEq, F64.truncInt] at h
        subst h
        have hk : (k / F64.S) * F64.S = k := Nat.div_mul_cancel (Nat.dvd_of_mod_eq_zero hc.1)
        have hk' : ((k / F64.S : Nat) : Int) * (F64.S : Int) = (k : Int) := by
          rw [← Int.natCast_mul, hk]
        cases s
        · simp only [numValue, Bool.false_eq_true, if_false]; exact hk'.symm
        · simp only [numValue, if_true, Int.neg_mul, hk']
      · rw [if_neg hc] at h; cases h

/-- … and is below `1e30` in magnitude: every `u64` and `i64` is, floats by the explicit test -/
theorem asInt_lt (a : Num) (x : Int) (wa : a.WF) (h : asInt a = some x) : x.natAbs < K30 := by
  cases a with
  | pos n =>
    simp only [asInt, Option.some.injEq] at h; subst h
    simp only [Num.WF] at wa; simp only [Int.natAbs_natCast, K30]; omega
  | neg m =>
    simp only [asInt, Option.some.injEq] at h; subst h
    simp only [Num.WF] at wa; simp only [Int.natAbs_neg, Int.natAbs_natCast, K30]; omega
  | flt f =>
    cases f with
    | nan => simp [asInt, F64.fractIsZero] at h
    | inf s => simp [asInt, F64.fractIsZero] at h
    | fin s k =>
      rw [asInt_fin] at h
      by_cases hc : k % F64.S = 0 ∧ k < K30 * F64.S
      · rw [if_pos hc] at h
        simp only [Option.some.injEq, F64.truncInt] at h
        subst h
        have : k / F64.S < K30 := Nat.div_lt_of_lt_mul (by rw [Nat.mul_comm]; exact hc.2)
        cases s
        · show (((k / F64.S : Nat) : Int)).natAbs < K30
          rw [Int.natAbs_natCast]; exact this
        · show (-((k / F64.S : Nat) : Int)).natAbs < K30
          rw [Int.natAbs_neg, Int.natAbs_natCast]; exact this
      · rw [if_neg hc] at h; cases h

/-- when `as_int` fails the number is a float that has a fractional part or is at least `1e30` in magnitude -/
theorem asInt_none (a : Num) (wa : a.WF) (h : asInt a = none) :
    ∃ s k, a = .flt (.fin s k) ∧ (k % F64.S ≠ 0 ∨ K30 * F64.S ≤ k) := by
  cases a with
  | pos n => simp [asInt] at h
  | neg m => simp [asInt] at h
  | flt f =>
    cases f with
    | nan => simp [Num.WF, F64.isFinite] at wa
    | inf s => simp [Num.WF, F64.isFinite] at wa
    | fin s k =>
      refine ⟨s, k, rfl, ?_⟩
      rw [asInt_fin] at h
      by_cases hc : k % F64.S = 0 ∧ k < K30 * F64.S
      · rw [if_pos hc] at h; cases h
      · by_cases h0 : k % F64.S = 0
        · right; exact Nat.le_of_not_lt (fun hlt => hc ⟨h0, hlt⟩)
        · left; exact h0

theorem natAbs_numValue_fin (s : Bool) (k : Nat) : (numValue (.flt (.fin s k))).natAbs = k := by
  cases s <;> simp [numValue]

/-- an exact integer below `1e30` and a float that is fractional or `≥ 1e30` denote different numbers -/
theorem mixed_ne (a b : Num) (x : Int) (wa : a.WF) (wb : b.WF) (ha : asInt a = some x) (hb : asInt b = none) :
    numValue a ≠ numValue b := by
  obtain ⟨s, k, rfl, hk⟩ := asInt_none b wb hb
  have h1 := asInt_some a x ha
  have h2 := asInt_lt a x wa ha
  intro heq
  have h3 : x.natAbs * F64.S = k := by
    have := congrArg Int.natAbs heq
    rw [natAbs_numValue_fin, h1, Int.natAbs_mul, Int.natAbs_natCast] at this
    exact this
  rcases hk with hk | hk
  · apply hk; rw [← h3]; exact Nat.mul_mod_left _ _
  · rw [← h3] at hk
    have := Nat.le_of_mul_le_mul_right hk S_pos
    omega

theorem eq_fin_iff (s s' : Bool) (k k' : Nat) :
    F64.eq (.fin s k) (.fin s' k') = true ↔ numValue (.flt (.fin s k)) = numValue (.flt (.fin s' k')) := by
  cases s <;> cases s' <;> simp [F64.eq, numValue] <;> omega

/-- `number_eq` decides equality of the denoted numbers -/
theorem number_eq_spec (a b : Num) (wa : a.WF) (wb : b.WF) :
    numberEq a b = true ↔ numValue a = numValue b := by
  unfold numberEq
  cases ha : asInt a with
  | none =>
    cases hb : asInt b with
    | none =>
      obtain ⟨s, k, rfl, -⟩ := asInt_none a wa ha
      obtain ⟨s', k', rfl, -⟩ := asInt_none b wb hb
      simp only [Num.toF64]
      exact eq_fin_iff s s' k k'
    | some y =>
      simp only [Bool.false_eq_true, false_iff]
      exact fun h => mixed_ne b a y wb wa hb ha h.symm
  | some x =>
    cases hb : asInt b with
    | none =>
      simp only [Bool.false_eq_true, false_iff]
      exact mixed_ne a b x wa wb ha hb
    | some y =>
      simp only [beq_iff_eq, asInt_some a x ha, asInt_some b y hb]
      have hS : (F64.S : Int) ≠ 0 := by have := S_pos; omega
      exact (Int.mul_eq_mul_right_iff hS).symm

/-! ## the key order: `strLt` is a strict order, so sorted keys are distinct -/

theorem strLt_irrefl : ∀ a : Str, strLt a a = false
  | [] => rfl
  | c :: cs => by
      have : ¬ (c.val < c.val) := by rw [UInt32.lt_iff_toNat_lt]; omega
      simp only [strLt, this, if_false]; exact strLt_irrefl cs

theorem strLt_trans : ∀ a b c : Str, strLt a b = true → strLt b c = true → strLt a c = true
  | [], [], _, h, _ => by simp [strLt] at h
  | [], _ :: _, [], _, h => by simp [strLt] at h
  | [], _ :: _, _ :: _, _, _ => rfl
  | _ :: _, [], _, h, _ => by simp [strLt] at h
  | _ :: _, _ :: _, [], _, h => by simp [strLt] at h
  | a :: as, b :: bs, c :: cs, h1, h2 => by
      have ih := strLt_trans as bs cs
      simp only [strLt, UInt32.lt_iff_toNat_lt] at h1 h2 ⊢
      generalize a.val.toNat = x at *
      generalize b.val.toNat = y at *
      generalize c.val.toNat = z at *
      by_cases hxy : x < y
      · by_cases hyz : y < z
        · have : x < z := by omega
          simp [this]
        · by_cases hzy : z < y
          · simp [hyz, hzy] at h2
          · have : x < z := by omega
            simp [this]
      · by_cases hyx : y < x
        · simp [hxy, hyx] at h1
        · simp only [hxy, hyx, if_false] at h1
          by_cases hyz : y < z
          · have : x < z := by omega
            simp [this]
          · by_cases hzy : z < y
            · simp [hyz, hzy] at h2
            · simp only [hyz, hzy, if_false] at h2
              have e1 : ¬ x < z := by omega
              have e2 : ¬ z < x := by omega
              simp only [e1, e2, if_false]
              exact ih h1 h2

/-- the keys of an object -/
abbrev keys (x : List (Str × Json)) : List Str := x.map Prod.fst

theorem keysSorted_pairwise : ∀ x : List (Str × Json), keysSorted x = true →
    (keys x).Pairwise (fun k l => strLt k l = true)
  | [], _ => List.Pairwise.nil
  | [_], _ => by simp [keys]
  | (k₁, v₁) :: (k₂, v₂) :: rest, h => by
      simp only [keysSorted, Bool.and_eq_true] at h
      have ih := keysSorted_pairwise ((k₂, v₂) :: rest) h.2
      simp only [keys, List.map_cons] at ih ⊢
      refine List.pairwise_cons.mpr ⟨?_, ih⟩
      intro l hl
      rcases List.mem_cons.mp hl with rfl | hl
      · exact h.1
      · exact strLt_trans _ _ _ h.1 ((List.pairwise_cons.mp ih).1 l hl)

theorem keysSorted_nodup (x : List (Str × Json)) (h : keysSorted x = true) : (keys x).Nodup := by
  refine List.Pairwise.imp ?_ (keysSorted_pairwise x h)
  intro a b hab e
  subst e
  rw [strLt_irrefl] at hab
  cases hab

/-! ## `Map::get` on association lists with distinct keys -/

theorem mem_of_lookup : ∀ (y : List (Str × Json)) (k : Str) (b : Json), Json.lookup k y = some b → (k, b) ∈ y
  | [], _, _, h => by simp [Json.lookup] at h
  | (k', v) :: rest, k, b, h => by
      simp only [Json.lookup] at h
      split at h
      · rename_i e; subst e; simp only [Option.some.injEq] at h; subst h; exact List.mem_cons_self
      · exact List.mem_cons_of_mem _ (mem_of_lookup rest k b h)

theorem lookup_of_mem : ∀ (y : List (Str × Json)) (k : Str) (b : Json), (keys y).Nodup → (k, b) ∈ y →
    Json.lookup k y = some b
  | [], _, _, _, h => by cases h
  | (k', v) :: rest, k, b, nd, h => by
      simp only [keys, List.map_cons, List.nodup_cons] at nd
      simp only [Json.lookup]
      rcases List.mem_cons.mp h with e | h
      · cases e; simp
      · have hk : k ∈ keys rest := List.mem_map.mpr ⟨(k, b), h, rfl⟩
        have : ¬ k' = k := fun e => nd.1 (e ▸ hk)
        simp only [this, if_false]
        exact lookup_of_mem rest k b nd.2 h

theorem lookup_iff_mem (y : List (Str × Json)) (k : Str) (b : Json) (nd : (keys y).Nodup) :
    Json.lookup k y = some b ↔ (k, b) ∈ y := ⟨mem_of_lookup y k b, lookup_of_mem y k b nd⟩

/-- two duplicate-free lists of the same length, one included in the other: also the converse inclusion -/
theorem subset_of_length_eq {xs ys : List Str} (nx : xs.Nodup) (hsub : xs ⊆ ys) (hlen : xs.length = ys.length) :
    ys ⊆ xs := by
  intro k hk
  refine Classical.byContradiction fun hnot => ?_
  have hsub' : xs ⊆ ys.erase k := by
    intro a ha
    have : a ≠ k := fun e => hnot (e ▸ ha)
    exact (List.mem_erase_of_ne this).mpr (hsub ha)
  have h1 := List.Nodup.length_le_of_subset nx hsub'
  have h2 := List.length_erase_of_mem hk
  have h3 : 0 < ys.length := List.length_pos_of_mem hk
  omega

/-! ## the list helpers of `deep_eq`, unfolded -/

theorem lookupEq_eq (k : Str) (a : Json) : ∀ y, lookupEq k a y = (Json.lookup k y).map (deepEq a)
  | [] => by simp [lookupEq, Json.lookup]
  | (k', b) :: rest => by
      simp only [lookupEq, Json.lookup]
      split
      · rfl
      · exact lookupEq_eq k a rest

theorem deepEqKvs_iff : ∀ (x y : List (Str × Json)),
    deepEqKvs x y = true ↔ ∀ p ∈ x, ∃ b, Json.lookup p.1 y = some b ∧ deepEq p.2 b = true
  | [], y => by simp [deepEqKvs]
  | (k, a) :: rest, y => by
      simp only [deepEqKvs, Bool.and_eq_true, deepEqKvs_iff rest y, List.forall_mem_cons, lookupEq_eq]
      refine and_congr ?_ Iff.rfl
      cases Json.lookup k y <;> simp

theorem idx_cons {P : Json → Json → Prop} (a b : Json) (as bs : List Json) :
    ((a :: as).length = (b :: bs).length ∧ ∀ (i : Nat) (h₁ : i < (a :: as).length) (h₂ : i < (b :: bs).length),
        P (a :: as)[i] (b :: bs)[i]) ↔
    P a b ∧ (as.length = bs.length ∧ ∀ (i : Nat) (h₁ : i < as.length) (h₂ : i < bs.length), P as[i] bs[i]) := by
  constructor
  · rintro ⟨hl, h⟩
    refine ⟨h 0 (by simp) (by simp), by simpa using hl, ?_⟩
    intro i h₁ h₂
    exact h (i + 1) (by simpa using h₁) (by simpa using h₂)
  · rintro ⟨h0, hl, h⟩
    refine ⟨by simp [hl], ?_⟩
    intro i h₁ h₂
    cases i with
    | zero => exact h0
    | succ i => exact h i (by simpa using h₁) (by simpa using h₂)

theorem deepEqList_iff : ∀ (xs ys : List Json), deepEqList xs ys = true ↔
    (xs.length = ys.length ∧ ∀ (i : Nat) (h₁ : i < xs.length) (h₂ : i < ys.length), deepEq xs[i] ys[i] = true)
  | [], [] => by simp [deepEqList]
  | [], _ :: _ => by simp [deepEqList]
  | _ :: _, [] => by simp [deepEqList]
  | a :: as, b :: bs => by
      rw [idx_cons (P := fun a b => deepEq a b = true)]
      simp only [deepEqList, Bool.and_eq_true, deepEqList_iff as bs]

theorem wf_of_mem : ∀ (xs : List Json), wfList xs = true → ∀ x ∈ xs, x.wf = true
  | [], _, _, h => by cases h
  | a :: as, w, x, h => by
      simp only [wfList, Bool.and_eq_true] at w
      rcases List.mem_cons.mp h with rfl | h
      · exact w.1
      · exact wf_of_mem as w.2 x h

theorem wf_of_mem_kvs : ∀ (x : List (Str × Json)), wfKvs x = true → ∀ p ∈ x, p.2.wf = true
  | [], _, _, h => by cases h
  | (k, a) :: rest, w, p, h => by
      simp only [wfKvs, Bool.and_eq_true] at w
      rcases List.mem_cons.mp h with rfl | h
      · exact w.1
      · exact wf_of_mem_kvs rest w.2 p h

theorem wf_obj (x : List (Str × Json)) (h : (Json.obj x).wf = true) : wfKvs x = true ∧ (keys x).Nodup := by
  have : (wfKvs x && keysSorted x) = true := h
  simp only [Bool.and_eq_true] at this
  exact ⟨this.1, keysSorted_nodup x this.2⟩

/-! ## `deep_eq` against the specification -/

/-- objects with distinct keys: the code's test (same size, every entry of the first found in the second with an equal
value) is the map equality of the specification, for any relation `R` on the values -/
theorem obj_core (R : Json → Json → Prop) (x y : List (Str × Json)) (nx : (keys x).Nodup) (ny : (keys y).Nodup) :
    (x.length = y.length ∧ ∀ p ∈ x, ∃ b, Json.lookup p.1 y = some b ∧ R p.2 b) ↔
    ((∀ k, (∃ a, (k, a) ∈ x) ↔ (∃ b, (k, b) ∈ y)) ∧ (∀ k a b, (k, a) ∈ x → (k, b) ∈ y → R a b)) := by
  constructor
  · rintro ⟨hlen, h⟩
    have hsub : keys x ⊆ keys y := by
      intro k hk
      obtain ⟨p, hp, rfl⟩ := List.mem_map.mp hk
      obtain ⟨b, hb, -⟩ := h p hp
      exact List.mem_map.mpr ⟨(p.1, b), mem_of_lookup y _ _ hb, rfl⟩
    have hsup : keys y ⊆ keys x := subset_of_length_eq nx hsub (by simpa [keys] using hlen)
    refine ⟨fun k => ⟨?_, ?_⟩, ?_⟩
    · rintro ⟨a, ha⟩
      obtain ⟨q, hq, e⟩ := List.mem_map.mp (hsub (List.mem_map.mpr ⟨(k, a), ha, rfl⟩))
      exact ⟨q.2, by cases q; cases e; exact hq⟩
    · rintro ⟨b, hb⟩
      obtain ⟨q, hq, e⟩ := List.mem_map.mp (hsup (List.mem_map.mpr ⟨(k, b), hb, rfl⟩))
      exact ⟨q.2, by cases q; cases e; exact hq⟩
    · intro k a b ha hb
      obtain ⟨b', hb', r⟩ := h (k, a) ha
      rw [lookup_of_mem y k b ny hb] at hb'
      cases hb'; exact r
  · rintro ⟨hk, hv⟩
    have hsub : keys x ⊆ keys y := by
      intro k h
      obtain ⟨p, hp, rfl⟩ := List.mem_map.mp h
      obtain ⟨b, hb⟩ := (hk p.1).mp ⟨p.2, hp⟩
      exact List.mem_map.mpr ⟨(p.1, b), hb, rfl⟩
    have hsup : keys y ⊆ keys x := by
      intro k h
      obtain ⟨p, hp, rfl⟩ := List.mem_map.mp h
      obtain ⟨a, ha⟩ := (hk p.1).mpr ⟨p.2, hp⟩
      exact List.mem_map.mpr ⟨(p.1, a), ha, rfl⟩
    refine ⟨?_, ?_⟩
    · have h1 := List.Nodup.length_le_of_subset nx hsub
      have h2 := List.Nodup.length_le_of_subset ny hsup
      simp only [keys, List.length_map] at h1 h2
      omega
    · intro p hp
      obtain ⟨b, hb⟩ := (hk p.1).mp ⟨p.2, hp⟩
      exact ⟨b, lookup_of_mem y _ _ ny hb, hv p.1 p.2 b hp hb⟩

theorem deepEq_sound_aux (n : Nat) : ∀ a b : Json, sizeOf a ≤ n → a.wf = true → b.wf = true →
    deepEq a b = true → SpecEq a b := by
  induction n with
  | zero => intro a; cases a <;> simp
  | succ n ih =>
    intro a b hs wa wb h
    cases a <;> cases b <;> simp only [deepEq, Bool.false_eq_true] at h
    case null.null => exact .null
    case bool.bool x y => simp only [beq_iff_eq] at h; subst h; exact .bool _
    case str.str x y => simp only [beq_iff_eq] at h; subst h; exact .str _
    case num.num x y =>
      have wx : Num.WF x := of_decide_eq_true wa
      have wy : Num.WF y := of_decide_eq_true wb
      exact .num ((number_eq_spec x y wx wy).mp h)
    case arr.arr xs ys =>
      rw [deepEqList_iff] at h
      have wxs : wfList xs = true := wa
      have wys : wfList ys = true := wb
      simp only [Json.arr.sizeOf_spec] at hs
      refine .arr h.1 (fun i h₁ h₂ => ?_)
      have hm := List.getElem_mem h₁
      have := List.sizeOf_lt_of_mem hm
      exact ih _ _ (by omega) (wf_of_mem xs wxs _ hm) (wf_of_mem ys wys _ (List.getElem_mem h₂)) (h.2 i h₁ h₂)
    case obj.obj x y =>
      obtain ⟨wx, nx⟩ := wf_obj x wa
      obtain ⟨wy, ny⟩ := wf_obj y wb
      simp only [Bool.and_eq_true, beq_iff_eq, deepEqKvs_iff] at h
      simp only [Json.obj.sizeOf_spec] at hs
      have h' : x.length = y.length ∧ ∀ p ∈ x, ∃ b, Json.lookup p.1 y = some b ∧
          (p ∈ x ∧ b.wf = true ∧ deepEq p.2 b = true) := by
        refine ⟨h.1, fun p hp => ?_⟩
        obtain ⟨b, hb, hd⟩ := h.2 p hp
        exact ⟨b, hb, hp, wf_of_mem_kvs y wy _ (mem_of_lookup y _ _ hb), hd⟩
      -- the relation carried through `obj_core`: "deepEq holds, on a member of `x`, against a well-formed value"
      have key := (obj_core (fun a b => ∃ k, (k, a) ∈ x ∧ b.wf = true ∧ deepEq a b = true) x y nx ny).mp
        ⟨h'.1, fun p hp => by
          obtain ⟨b, hb, hp', wb', hd⟩ := h'.2 p hp
          exact ⟨b, hb, p.1, hp', wb', hd⟩⟩
      refine .obj key.1 (fun k a b ha hb => ?_)
      obtain ⟨k', hk', wb', hd⟩ := key.2 k a b ha hb
      have h1 := List.sizeOf_lt_of_mem hk'
      simp only [Prod.mk.sizeOf_spec] at h1
      exact ih a b (by omega) (wf_of_mem_kvs x wx _ hk') wb' hd

theorem deepEq_sound (a b : Json) (wa : a.wf = true) (wb : b.wf = true) (h : deepEq a b = true) : SpecEq a b :=
  deepEq_sound_aux (sizeOf a) a b (Nat.le_refl _) wa wb h

theorem deepEq_complete {a b : Json} (h : SpecEq a b) : a.wf = true → b.wf = true → deepEq a b = true := by
  induction h with
  | null => intros; simp [deepEq]
  | bool b => intros; simp [deepEq]
  | str s => intros; simp [deepEq]
  | @num x y hv =>
    intro wa wb
    simp only [deepEq]
    exact (number_eq_spec x y (of_decide_eq_true wa) (of_decide_eq_true wb)).mpr hv
  | @arr xs ys hl _ ih =>
    intro wa wb
    have wxs : wfList xs = true := wa
    have wys : wfList ys = true := wb
    simp only [deepEq]
    rw [deepEqList_iff]
    exact ⟨hl, fun i h₁ h₂ => ih i h₁ h₂ (wf_of_mem xs wxs _ (List.getElem_mem h₁)) (wf_of_mem ys wys _ (List.getElem_mem h₂))⟩
  | @obj x y hk _ ih =>
    intro wa wb
    obtain ⟨wx, nx⟩ := wf_obj x wa
    obtain ⟨wy, ny⟩ := wf_obj y wb
    simp only [deepEq, Bool.and_eq_true, beq_iff_eq, deepEqKvs_iff]
    refine (obj_core (fun a b => deepEq a b = true) x y nx ny).mpr ⟨hk, fun k a b ha hb => ?_⟩
    exact ih k a b ha hb (wf_of_mem_kvs x wx _ ha) (wf_of_mem_kvs y wy _ hb)

/-- `deep_eq` decides the specification on well-formed values -/
theorem deep_eq_spec (a b : Json) (wa : a.wf = true) (wb : b.wf = true) : deepEq a b = true ↔ SpecEq a b :=
  ⟨deepEq_sound a b wa wb, fun h => deepEq_complete h wa wb⟩

/-! ## the specification is an equivalence relation (reflexive on well-formed values) -/

theorem specEq_symm {a b : Json} (h : SpecEq a b) : SpecEq b a := by
  induction h with
  | null => exact .null
  | bool b => exact .bool b
  | str s => exact .str s
  | num hv => exact .num hv.symm
  | arr hl _ ih => exact .arr hl.symm (fun i h₁ h₂ => ih i h₂ h₁)
  | obj hk _ ih => exact .obj (fun k => (hk k).symm) (fun k a b ha hb => ih k b a hb ha)

theorem specEq_trans {a b c : Json} (h1 : SpecEq a b) (h2 : SpecEq b c) : SpecEq a c := by
  induction h1 generalizing c with
  | null => exact h2
  | bool b => exact h2
  | str s => exact h2
  | num hv => cases h2 with | num hv' => exact .num (hv.trans hv')
  | arr hl _ ih =>
    cases h2 with
    | arr hl' h' => exact .arr (hl.trans hl') (fun i h₁ h₃ => ih i h₁ (hl ▸ h₁) (h' i (hl ▸ h₁) h₃))
  | obj hk _ ih =>
    cases h2 with
    | obj hk' hv' =>
      refine .obj (fun k => (hk k).trans (hk' k)) (fun k a c ha hc => ?_)
      obtain ⟨b, hb⟩ := (hk k).mp ⟨a, ha⟩
      exact ih k a b ha hb (hv' k b c hb hc)

theorem specEq_refl_aux (n : Nat) : ∀ a : Json, sizeOf a ≤ n → a.wf = true → SpecEq a a := by
  induction n with
  | zero => intro a; cases a <;> simp
  | succ n ih =>
    intro a hs wa
    cases a with
    | null => exact .null
    | bool b => exact .bool b
    | str s => exact .str s
    | num x => exact .num rfl
    | arr xs =>
      have wxs : wfList xs = true := wa
      simp only [Json.arr.sizeOf_spec] at hs
      refine .arr rfl (fun i h₁ h₂ => ?_)
      have hm := List.getElem_mem h₁
      have := List.sizeOf_lt_of_mem hm
      exact ih _ (by omega) (wf_of_mem xs wxs _ hm)
    | obj x =>
      obtain ⟨wx, nx⟩ := wf_obj x wa
      simp only [Json.obj.sizeOf_spec] at hs
      refine .obj (fun k => Iff.rfl) (fun k a b ha hb => ?_)
      have e : a = b := by
        have h1 := lookup_of_mem x k a nx ha
        rw [lookup_of_mem x k b nx hb] at h1
        cases h1; rfl
      subst e
      have h1 := List.sizeOf_lt_of_mem ha
      simp only [Prod.mk.sizeOf_spec] at h1
      exact ih a (by omega) (wf_of_mem_kvs x wx _ ha)

theorem specEq_refl (a : Json) (wa : a.wf = true) : SpecEq a a := specEq_refl_aux _ a (Nat.le_refl _) wa

/-! ## the specification read case by case -/

theorem specEq_num_iff (a b : Num) : SpecEq (.num a) (.num b) ↔ numValue a = numValue b :=
  ⟨fun h => by cases h; assumption, .num⟩
theorem specEq_arr_iff (xs ys : List Json) : SpecEq (.arr xs) (.arr ys) ↔
    xs.length = ys.length ∧ ∀ (i : Nat) (h₁ : i < xs.length) (h₂ : i < ys.length), SpecEq xs[i] ys[i] :=
  ⟨fun h => by cases h with | arr hl h => exact ⟨hl, h⟩, fun h => .arr h.1 h.2⟩
theorem specEq_obj_iff (x y : List (Str × Json)) : SpecEq (.obj x) (.obj y) ↔
    (∀ k, (∃ a, (k, a) ∈ x) ↔ (∃ b, (k, b) ∈ y)) ∧ (∀ k a b, (k, a) ∈ x → (k, b) ∈ y → SpecEq a b) :=
  ⟨fun h => by cases h with | obj hk hv => exact ⟨hk, hv⟩, fun h => .obj h.1 h.2⟩
theorem specEq_str_iff (s t : Str) : SpecEq (.str s) (.str t) ↔ s = t :=
  ⟨fun h => by cases h; rfl, fun h => h ▸ .str s⟩
theorem specEq_bool_iff (s t : Bool) : SpecEq (.bool s) (.bool t) ↔ s = t :=
  ⟨fun h => by cases h; rfl, fun h => h ▸ .bool s⟩

/-- the JSON type of a value -/
def kind : Json → Nat
  | .null => 0 | .bool _ => 1 | .num _ => 2 | .str _ => 3 | .arr _ => 4 | .obj _ => 5

/-- values of different JSON types are never equal -/
theorem specEq_kind {a b : Json} (h : SpecEq a b) : kind a = kind b := by cases h <;> rfl

/-! ## objects with sorted keys: map equality is position-by-position equality -/

/-- two strictly increasing lists with the same members are the same list -/
theorem sorted_ext : ∀ xs ys : List Str, xs.Pairwise (fun k l => strLt k l = true) →
    ys.Pairwise (fun k l => strLt k l = true) → xs ⊆ ys → ys ⊆ xs → xs = ys
  | [], [], _, _, _, _ => rfl
  | [], b :: _, _, _, _, h => by cases h (List.mem_cons_self)
  | a :: _, [], _, _, h, _ => by cases h (List.mem_cons_self)
  | a :: as, b :: bs, px, py, hxy, hyx => by
      rw [List.pairwise_cons] at px py
      have hab : a = b := by
        refine Classical.byContradiction fun hne => ?_
        have h1 : a ∈ bs := by
          rcases List.mem_cons.mp (hxy List.mem_cons_self) with e | h
          · exact absurd e hne
          · exact h
        have h2 : b ∈ as := by
          rcases List.mem_cons.mp (hyx List.mem_cons_self) with e | h
          · exact absurd e.symm hne
          · exact h
        have := strLt_trans _ _ _ (px.1 b h2) (py.1 a h1)
        rw [strLt_irrefl] at this; cases this
      subst hab
      have notin : ∀ l : List Str, (∀ a' ∈ l, strLt a a' = true) → a ∉ l := by
        intro l hl ha
        have := hl a ha
        rw [strLt_irrefl] at this; cases this
      congr 1
      refine sorted_ext as bs px.2 py.2 ?_ ?_
      · intro k hk
        rcases List.mem_cons.mp (hxy (List.mem_cons_of_mem _ hk)) with e | h
        · subst e; exact absurd hk (notin as px.1)
        · exact h
      · intro k hk
        rcases List.mem_cons.mp (hyx (List.mem_cons_of_mem _ hk)) with e | h
        · subst e; exact absurd hk (notin bs py.1)
        · exact h

/-- position-by-position: the same key and related values at every position, and the same number of entries -/
def Pointwise (R : Json → Json → Prop) : List (Str × Json) → List (Str × Json) → Prop
  | [], [] => True
  | (k, a) :: xs, (l, b) :: ys => k = l ∧ R a b ∧ Pointwise R xs ys
  | _, _ => False

/-- map equality of two association lists, for a relation `R` on the values -/
def MapEq (R : Json → Json → Prop) (x y : List (Str × Json)) : Prop :=
  (∀ k, (∃ a, (k, a) ∈ x) ↔ (∃ b, (k, b) ∈ y)) ∧ (∀ k a b, (k, a) ∈ x → (k, b) ∈ y → R a b)

theorem mapEq_keys_subset {R} {x y : List (Str × Json)} (h : MapEq R x y) : keys x ⊆ keys y ∧ keys y ⊆ keys x := by
  constructor
  · intro k hk
    obtain ⟨p, hp, rfl⟩ := List.mem_map.mp hk
    obtain ⟨b, hb⟩ := (h.1 p.1).mp ⟨p.2, hp⟩
    exact List.mem_map.mpr ⟨(p.1, b), hb, rfl⟩
  · intro k hk
    obtain ⟨p, hp, rfl⟩ := List.mem_map.mp hk
    obtain ⟨a, ha⟩ := (h.1 p.1).mpr ⟨p.2, hp⟩
    exact List.mem_map.mpr ⟨(p.1, a), ha, rfl⟩

theorem mem_keys {x : List (Str × Json)} {k : Str} {a : Json} (h : (k, a) ∈ x) : k ∈ keys x :=
  List.mem_map.mpr ⟨(k, a), h, rfl⟩

theorem mapEq_iff_pointwise (R : Json → Json → Prop) : ∀ x y : List (Str × Json),
    (keys x).Pairwise (fun k l => strLt k l = true) → (keys y).Pairwise (fun k l => strLt k l = true) →
    (MapEq R x y ↔ Pointwise R x y)
  | [], [], _, _ => by simp [MapEq, Pointwise]
  | [], (l, b) :: ys, _, _ => by
      simp only [Pointwise, iff_false]
      intro h
      obtain ⟨a, ha⟩ := (h.1 l).mpr ⟨b, List.mem_cons_self⟩
      cases ha
  | (k, a) :: xs, [], _, _ => by
      simp only [Pointwise, iff_false]
      intro h
      obtain ⟨b, hb⟩ := (h.1 k).mp ⟨a, List.mem_cons_self⟩
      cases hb
  | (k, a) :: xs, (l, b) :: ys, px, py => by
      have ih := mapEq_iff_pointwise R xs ys
      simp only [keys, List.map_cons] at px py
      have px' := List.pairwise_cons.mp px
      have py' := List.pairwise_cons.mp py
      have nk : ∀ (l : List Str) (c : Str), (∀ a' ∈ l, strLt c a' = true) → c ∉ l := by
        intro l c hl hc
        have := hl c hc
        rw [strLt_irrefl] at this; cases this
      simp only [Pointwise]
      constructor
      · intro h
        have hs := mapEq_keys_subset h
        have e := sorted_ext _ _ px py hs.1 hs.2
        simp only [List.cons.injEq] at e
        obtain ⟨rfl, et⟩ := e
        refine ⟨rfl, h.2 k a b List.mem_cons_self List.mem_cons_self, (ih px'.2 py'.2).mp ⟨fun k' => ?_, ?_⟩⟩
        · constructor
          · rintro ⟨a', ha'⟩
            have : k' ∈ keys ys := by
              have := mem_keys ha'
              rw [keys, et] at this; exact this
            obtain ⟨q, hq, rfl⟩ := List.mem_map.mp this
            exact ⟨q.2, hq⟩
          · rintro ⟨b', hb'⟩
            have : k' ∈ keys xs := by
              have := mem_keys hb'
              rw [keys, ← et] at this; exact this
            obtain ⟨q, hq, rfl⟩ := List.mem_map.mp this
            exact ⟨q.2, hq⟩
        · intro k' a' b' ha' hb'
          exact h.2 k' a' b' (List.mem_cons_of_mem _ ha') (List.mem_cons_of_mem _ hb')
      · rintro ⟨rfl, hr, hp⟩
        have hm := (ih px'.2 py'.2).mpr hp
        have hs := mapEq_keys_subset hm
        refine ⟨fun k' => ?_, ?_⟩
        · constructor
          · rintro ⟨a', ha'⟩
            rcases List.mem_cons.mp ha' with e | ha'
            · cases e; exact ⟨b, List.mem_cons_self⟩
            · obtain ⟨b', hb'⟩ := (hm.1 k').mp ⟨a', ha'⟩
              exact ⟨b', List.mem_cons_of_mem _ hb'⟩
          · rintro ⟨b', hb'⟩
            rcases List.mem_cons.mp hb' with e | hb'
            · cases e; exact ⟨a, List.mem_cons_self⟩
            · obtain ⟨a', ha'⟩ := (hm.1 k').mpr ⟨b', hb'⟩
              exact ⟨a', List.mem_cons_of_mem _ ha'⟩
        · intro k' a' b' ha' hb'
          rcases List.mem_cons.mp ha' with e | ha' <;> rcases List.mem_cons.mp hb' with e' | hb'
          · cases e; cases e'; exact hr
          · cases e
            exact absurd (hs.2 (mem_keys hb')) (nk _ _ px'.1)
          · cases e'
            exact absurd (hs.1 (mem_keys ha')) (nk _ _ py'.1)
          · exact hm.2 k' a' b' ha' hb'

/-- on well-formed objects the specification's map equality is pointwise equality of the sorted association lists -/
theorem specEq_obj_sorted (x y : List (Str × Json)) (wx : (Json.obj x).wf = true) (wy : (Json.obj y).wf = true) :
    SpecEq (.obj x) (.obj y) ↔ Pointwise SpecEq x y := by
  have sx : keysSorted x = true := by
    have : (wfKvs x && keysSorted x) = true := wx
    simp only [Bool.and_eq_true] at this; exact this.2
  have sy : keysSorted y = true := by
    have : (wfKvs y && keysSorted y) = true := wy
    simp only [Bool.and_eq_true] at this; exact this.2
  rw [specEq_obj_iff]
  exact mapEq_iff_pointwise SpecEq x y (keysSorted_pairwise x sx) (keysSorted_pairwise y sy)

end JL.Lemmas.C15
