import JL.Spec.Path
import JL.Lemmas.Monad
namespace JL.Lemmas.C11
open JL Json Data JL.Spec.Path

/-- the raw split is never empty -/
theorem rawSegs_ne_nil (delim : Char) (cs : List Char) : rawSegs delim cs ≠ [] := by
  fun_induction rawSegs delim cs <;> simp_all [pushHead]
  all_goals (split <;> simp_all)

/-- prepend a whole string to the first segment -/
def prependHead (s : Str) : List Str → List Str
  | [] => [s]
  | h :: t => (s ++ h) :: t

theorem prependHead_pushHead (s : Str) (c : Char) (l : List Str) :
    prependHead s (pushHead c l) = prependHead (s ++ [c]) l := by
  cases l <;> simp [prependHead, pushHead]

/-- the loop, started with `result`/`slice`, computes `result ++ (slice prepended to the raw split)`,
the last raw segment being left in the slice -/
theorem splitLoop_spec (delim : Char) (cs : List Char) (result : List Str) (slice : Str) :
    splitLoop delim cs result slice false =
      (result ++ (prependHead slice (rawSegs delim cs)).dropLast,
       ((prependHead slice (rawSegs delim cs)).getLast?).getD []) := by
  fun_induction rawSegs delim cs generalizing result slice with
  | case1 => simp [splitLoop, prependHead]
  | case2 => simp [splitLoop, prependHead]
  | case3 d ds ih =>
    simp [splitLoop, ih, prependHead_pushHead]
  | case4 cs h1 ih =>
    obtain ⟨h, t, e⟩ := List.exists_cons_of_ne_nil (rawSegs_ne_nil delim cs)
    simp [splitLoop, h1, ih, prependHead, e]
  | case5 c cs h1 h2 ih =>
    simp [splitLoop, h1, h2, ih, prependHead_pushHead]

theorem prependHead_nil (l : List Str) (h : l ≠ []) : prependHead [] l = l := by
  cases l <;> simp_all [prependHead]

theorem dropTrailingEmpty_eq (l : List Str) (h : l ≠ []) :
    dropTrailingEmpty l =
      if (l.getLast?.getD []).isEmpty then l.dropLast else l.dropLast ++ [l.getLast?.getD []] := by
  fun_induction dropTrailingEmpty l with
  | case1 => simp at h
  | case2 => simp
  | case3 s hs => cases s <;> simp_all
  | case4 s t rest ih =>
    simp at ih
    simp [List.getLast?_cons_cons, ih]
    split <;> simp

/-- **`split_with_escape` is the recursive splitter of the specification**, for every input and delimiter -/
theorem splitWithEscape_eq_split (input : Str) (delim : Char) :
    splitWithEscape input delim = split input delim := by
  unfold splitWithEscape split
  rw [splitLoop_spec, prependHead_nil _ (rawSegs_ne_nil _ _), dropTrailingEmpty_eq _ (rawSegs_ne_nil _ _)]
  simp

/-! ## plain segments and concatenation of paths -/

theorem rawSegs_plain (s : Str) (h : Plain s) : rawSegs '.' s = [s] := by
  induction s with
  | nil => simp [rawSegs]
  | cons c cs ih =>
    have hc := h c (by simp)
    have hcs : Plain cs := fun x hx => h x (by simp [hx])
    unfold rawSegs
    simp [hc.1, hc.2, ih hcs, pushHead]

theorem split_plain (s : Str) (h : Plain s) : split s '.' = if s = [] then [] else [s] := by
  simp [split, rawSegs_plain s h, dropTrailingEmpty]

theorem pushHead_append (c : Char) (l r : List Str) (h : l ≠ []) : pushHead c l ++ r = pushHead c (l ++ r) := by
  cases l <;> simp_all [pushHead]

theorem rawSegs_esc (delim d : Char) (ds : List Char) :
    rawSegs delim ('\\' :: d :: ds) = pushHead d (rawSegs delim ds) := by
  rw [rawSegs]; simp
theorem rawSegs_delim (delim : Char) (hd : delim ≠ '\\') (cs : List Char) :
    rawSegs delim (delim :: cs) = [] :: rawSegs delim cs := by
  rw [rawSegs.eq_def]; simp [hd]
theorem rawSegs_other (delim c : Char) (h1 : c ≠ '\\') (h2 : c ≠ delim) (cs : List Char) :
    rawSegs delim (c :: cs) = pushHead c (rawSegs delim cs) := by
  rw [rawSegs.eq_def]; simp [h1, h2]
theorem endsEscaped_esc (d : Char) (ds : List Char) : endsEscaped ('\\' :: d :: ds) = endsEscaped ds := by
  rw [endsEscaped]; simp
theorem endsEscaped_other (c : Char) (h1 : c ≠ '\\') (cs : List Char) : endsEscaped (c :: cs) = endsEscaped cs := by
  rw [endsEscaped.eq_def]; simp [h1]

/-- a path that does not end inside an escape, followed by a delimiter and a second path, splits into
the raw segments of the first followed by those of the second -/
theorem rawSegs_append_delim (delim : Char) (hd : delim ≠ '\\') (p q : List Char) (hp : endsEscaped p = false) :
    rawSegs delim (p ++ delim :: q) = rawSegs delim p ++ rawSegs delim q := by
  fun_induction rawSegs delim p with
  | case1 => simp [rawSegs_delim _ hd]
  | case2 => simp [endsEscaped] at hp
  | case3 d ds ih =>
    rw [endsEscaped_esc] at hp
    simp [rawSegs_esc, ih hp, pushHead_append _ _ _ (rawSegs_ne_nil _ _)]
  | case4 ds h1 ih =>
    rw [endsEscaped_other _ h1] at hp
    simp [rawSegs_delim _ h1, ih hp]
  | case5 d ds h1 h2 ih =>
    rw [endsEscaped_other _ h1] at hp
    simp [rawSegs_other _ _ h1 h2, ih hp, pushHead_append _ _ _ (rawSegs_ne_nil _ _)]

theorem dropTrailingEmpty_append (a b : List Str) (hb : b ≠ []) :
    dropTrailingEmpty (a ++ b) = a ++ dropTrailingEmpty b := by
  induction a with
  | nil => simp
  | cons x xs ih =>
    cases hxb : xs ++ b with
    | nil => simp_all
    | cons y ys => rw [List.cons_append, hxb, dropTrailingEmpty, ← hxb, ih]; simp

theorem split_append_delim (delim : Char) (hd : delim ≠ '\\') (p q : List Char) (hp : endsEscaped p = false) :
    split (p ++ delim :: q) delim = rawSegs delim p ++ split q delim := by
  simp [split, rawSegs_append_delim delim hd p q hp, dropTrailingEmpty_append _ _ (rawSegs_ne_nil _ _)]

/-- when the last raw segment is not empty nothing is dropped -/
theorem dropTrailingEmpty_of_last (l : List Str) (h : l.getLast? ≠ some []) : dropTrailingEmpty l = l := by
  fun_induction dropTrailingEmpty l <;> simp_all [List.getLast?_cons_cons]

/-- the split is empty exactly for the empty path and the lone backslash -/
theorem dropTrailingEmpty_eq_nil (l : List Str) : dropTrailingEmpty l = [] ↔ l = [] ∨ l = [[]] := by
  fun_induction dropTrailingEmpty l <;> simp_all

theorem pushHead_ne (c : Char) (l : List Str) : pushHead c l ≠ [[]] := by
  cases l <;> simp [pushHead]

theorem rawSegs_eq_single_nil (delim : Char) (q : List Char) : rawSegs delim q = [[]] ↔ q = [] ∨ q = ['\\'] := by
  fun_induction rawSegs delim q with
  | case1 => simp
  | case2 => simp
  | case3 d ds ih => simp [pushHead_ne]
  | case4 ds h1 ih => simp [rawSegs_ne_nil, h1]
  | case5 d ds h1 h2 ih => simp [pushHead_ne, h1]

theorem split_eq_nil (delim : Char) (q : List Char) : split q delim = [] ↔ q = [] ∨ q = ['\\'] := by
  simp [split, dropTrailingEmpty_eq_nil, rawSegs_ne_nil, rawSegs_eq_single_nil]

/-! ## decimal text of integers: plain, non-empty, and read back by `parse::<i64>` -/

theorem isDigit_plain (c : Char) (h : c.isDigit = true) : c ≠ '.' ∧ c ≠ '\\' ∧ c ≠ '-' ∧ c ≠ '+' ∧ JL.isDigit c = true := by
  refine ⟨?_, ?_, ?_, ?_, ?_⟩
  · rintro rfl; simp [Char.isDigit] at h
  · rintro rfl; simp [Char.isDigit] at h
  · rintro rfl; simp [Char.isDigit] at h
  · rintro rfl; simp [Char.isDigit] at h
  · simpa [Char.isDigit, JL.isDigit, Char.le_def, UInt32.le_iff_toNat_le] using h

theorem natToStr_digits (n : Nat) : ∀ c ∈ natToStr n, c.isDigit = true :=
  fun _ hc => Nat.isDigit_of_mem_toDigits (by decide) (by decide) hc

theorem natToStr_ne_nil (n : Nat) : natToStr n ≠ [] := Nat.toDigits_ne_nil

theorem natToStr_plain (n : Nat) : Plain (natToStr n) :=
  fun c hc => ⟨(isDigit_plain c (natToStr_digits n c hc)).1, (isDigit_plain c (natToStr_digits n c hc)).2.1⟩

theorem intToStr_ne_nil (i : Int) : intToStr i ≠ [] := by
  unfold intToStr; split <;> simp [natToStr_ne_nil]

theorem intToStr_plain (i : Int) : Plain (intToStr i) := by
  unfold intToStr; split
  · intro c hc
    simp at hc
    rcases hc with rfl | hc
    · decide
    · exact natToStr_plain _ c hc
  · exact natToStr_plain _

/-- the decimal text of an integer is a single path segment -/
theorem split_intToStr (i : Int) : splitWithEscape (intToStr i) '.' = [intToStr i] := by
  rw [splitWithEscape_eq_split, split_plain _ (intToStr_plain i)]; simp [intToStr_ne_nil]

theorem digitVal_digitChar (d : Nat) (h : d < 10) : digitVal (Nat.digitChar d) = d := by
  have : d = 0 ∨ d = 1 ∨ d = 2 ∨ d = 3 ∨ d = 4 ∨ d = 5 ∨ d = 6 ∨ d = 7 ∨ d = 8 ∨ d = 9 := by omega
  rcases this with rfl | rfl | rfl | rfl | rfl | rfl | rfl | rfl | rfl | rfl <;> decide

theorem digitsVal_append (xs : List Char) (c : Char) : digitsVal (xs ++ [c]) = digitsVal xs * 10 + digitVal c := by
  simp [digitsVal, List.foldl_append]

theorem digitsVal_natToStr (n : Nat) : digitsVal (natToStr n) = n := by
  induction n using Nat.strongRecOn with
  | _ n ih =>
    unfold natToStr
    rw [Nat.toDigits_eq_if (by decide)]
    split
    · rename_i h; simp [digitsVal, digitVal_digitChar n h]
    · rename_i h
      have := ih (n / 10) (by omega)
      unfold natToStr at this
      rw [digitsVal_append, this, digitVal_digitChar _ (Nat.mod_lt _ (by decide))]
      omega

theorem natToStr_all_isDigit (n : Nat) : (natToStr n).all isDigit = true := by
  simp only [List.all_eq_true]
  exact fun c hc => (isDigit_plain c (natToStr_digits n c hc)).2.2.2.2

/-- **`parse::<i64>` reads back the decimal text of every `i64`** -/
theorem parseI64_intToStr (i : Int) (hlo : -(2 ^ 63 : Int) ≤ i) (hhi : i < 2 ^ 63) :
    parseI64 (intToStr i) = some i := by
  unfold intToStr
  split
  · rename_i hneg
    unfold parseI64
    simp [natToStr_all_isDigit, natToStr_ne_nil, digitsVal_natToStr]
    omega
  · rename_i hneg
    have h1 := natToStr_all_isDigit i.toNat
    have h2 := natToStr_ne_nil i.toNat
    have h3 := digitsVal_natToStr i.toNat
    have h4 := natToStr_digits i.toNat
    generalize natToStr i.toNat = s at h1 h2 h3 h4
    unfold parseI64
    split
    rename_i x neg ds heq
    split at heq
    · rename_i r; exact absurd rfl (isDigit_plain '-' (h4 _ (by simp))).2.2.1
    · rename_i r; exact absurd rfl (isDigit_plain '+' (h4 _ (by simp))).2.2.2.1
    · simp only [Prod.mk.injEq] at heq
      obtain ⟨rfl, rfl⟩ := heq
      simp [h1, h2, h3]
      omega

/-! ## walking -/

theorem walk_append (p q : List Str) (d : Json) : walk (p ++ q) d = (walk p d).bind (walk q) := by
  induction p generalizing d with
  | nil => simp [walk]
  | cons s rest ih =>
    simp only [List.cons_append, walk]
    cases step d s <;> simp [ih]

theorem walk_single (s : Str) (d : Json) : walk [s] d = step d s := by
  simp only [walk]; cases step d s <;> rfl

theorem step_not_indexable (d : Json) (s : Str) (h : ¬ Indexable d) : step d s = none := by
  cases d <;> simp_all [step, Indexable]

theorem walk_not_indexable (d : Json) (segs : List Str) (h : ¬ Indexable d) (hs : segs ≠ []) : walk segs d = none := by
  cases segs with
  | nil => simp at hs
  | cons s rest => simp [walk, step_not_indexable d s h]

/-- `get_str_key` in one formula -/
theorem getStrKey_eq (d : Json) (k : Str) :
    getStrKey d k = if k = [] then some d else if Indexable d then walk (split k '.') d else none := by
  unfold getStrKey
  cases k with
  | nil => simp
  | cons c cs => cases d <;> simp [Indexable, splitWithEscape_eq_split]

/-- for a non-empty key other than the lone backslash the `Indexable` test is redundant -/
theorem getStrKey_eq_walk (d : Json) (k : Str) (h1 : k ≠ []) (h2 : k ≠ ['\\']) :
    getStrKey d k = walk (split k '.') d := by
  rw [getStrKey_eq]; simp only [h1, if_false]
  split
  · rfl
  · rename_i hi
    rw [walk_not_indexable d _ hi]
    simp [split_eq_nil, h1, h2]

/-- `get_key` is `walk` along the segments the key denotes -/
theorem getKey_number_eq (d : Json) (i : Int) (hlo : -(2 ^ 63 : Int) ≤ i) (hhi : i < 2 ^ 63) :
    getKey d (.number i) = getStrKey d (intToStr i) := by
  have hp := parseI64_intToStr i hlo hhi
  rw [getStrKey_eq]; simp only [intToStr_ne_nil, if_false]
  cases d <;> simp [getKey, Indexable, split_plain _ (intToStr_plain i), intToStr_ne_nil, walk_single, step, hp]
  rw [getStrKey_eq]; simp [intToStr_ne_nil, Indexable, split_plain _ (intToStr_plain i), walk_single, step]

theorem getKey_eq_walk (d : Json) (key : Key) (hk : ∀ i, key = .number i → -(2 ^ 63 : Int) ≤ i ∧ i < 2 ^ 63) :
    getKey d key =
      if wholeData key then some d
      else if Indexable d then walk (keyPath key) d else none := by
  cases key with
  | null => simp [getKey, wholeData]
  | string k =>
    cases k with
    | nil => simp [getKey, getStrKey, wholeData]
    | cons c cs => simp [getKey, getStrKey_eq, keyPath, wholeData]
  | number i =>
    obtain ⟨h1, h2⟩ := hk i rfl
    rw [getKey_number_eq d i h1 h2, getStrKey_eq]
    simp [intToStr_ne_nil, keyPath, split_plain _ (intToStr_plain i), wholeData]

/-! ## frame -/

theorem walk_frame (segs : List Str) (d d' : Json) (h : agreeOnPath segs d d') : walk segs d = walk segs d' := by
  induction segs generalizing d d' with
  | nil => simp [agreeOnPath] at h; subst h; rfl
  | cons seg rest ih =>
    cases d <;> cases d' <;> simp [agreeOnPath, Indexable] at h <;> simp only [walk, step]
    case str.str a b =>
      cases hp : parseI64 seg with
      | none => rfl
      | some i => simp [hp] at h; simp [h]
    case arr.arr a b =>
      cases hp : parseI64 seg with
      | none => rfl
      | some i =>
        simp [hp] at h
        cases ha : Data.get a i <;> cases hb : Data.get b i <;> simp [ha, hb] at h ⊢
        exact ih _ _ h
    case obj.obj a b =>
      cases ha : lookup seg a <;> cases hb : lookup seg b <;> simp [ha, hb] at h ⊢
      exact ih _ _ h

theorem agree_indexable (segs : List Str) (d d' : Json) (h : agreeOnPath segs d d') : Indexable d ↔ Indexable d' := by
  cases segs with
  | nil => simp [agreeOnPath] at h; subst h; rfl
  | cons seg rest => cases d <;> cases d' <;> simp_all [agreeOnPath, Indexable]

theorem getKey_frame (key : Key) (hk : ∀ i, key = .number i → -(2 ^ 63 : Int) ≤ i ∧ i < 2 ^ 63)
    (d d' : Json) (h : agreeOnPath (keyPath key) d d') : getKey d key = getKey d' key := by
  rw [getKey_eq_walk d key hk, getKey_eq_walk d' key hk, walk_frame _ _ _ h]
  simp only [agree_indexable _ _ _ h]
  cases hw : wholeData key
  · rfl
  · have : keyPath key = [] := by
      cases key with
      | null => rfl
      | string k => cases k <;> simp_all [wholeData, keyPath, split, rawSegs, dropTrailingEmpty]
      | number i => simp [wholeData] at hw
    rw [this, agreeOnPath] at h
    simp [h]

/-- an integer key taken from a well-formed JSON number is an `i64` -/
theorem keyOf_number_range (k : Json) (hwf : k.wf = true) (i : Int) (h : keyOf k = some (.number i)) :
    -(2 ^ 63 : Int) ≤ i ∧ i < 2 ^ 63 := by
  cases k <;> simp [keyOf] at h
  rename_i n
  cases n with
  | pos n =>
    simp [Num.asI64] at h
    split at h <;> simp at h
    rename_i j hj
    split at hj <;> simp at hj
    omega
  | neg m =>
    simp [Num.asI64] at h
    simp [Json.wf, Num.WF] at hwf
    have := of_decide_eq_true hwf
    omega
  | flt f => simp [Num.asI64] at h

theorem keyOf_range (k : Json) (hwf : k.wf = true) (key : Key) (h : keyOf k = some key) :
    ∀ i, key = .number i → -(2 ^ 63 : Int) ≤ i ∧ i < 2 ^ 63 := by
  intro i hi; subst hi; exact keyOf_number_range k hwf i h

/-- which operands are rejected as keys -/
theorem keyOf_eq_none (k : Json) :
    keyOf k = none ↔ (∃ b, k = .bool b) ∨ (∃ xs, k = .arr xs) ∨ (∃ kvs, k = .obj kvs) ∨ (∃ n, k = .num n ∧ n.asI64 = none) := by
  cases k <;> simp [keyOf]
  rename_i n
  cases n.asI64 <;> simp

/-! ## composition of paths -/

/-- except for the lone backslash, `get_str_key` is `walk` along the split key, on every value -/
theorem getStrKey_eq_walk' (d : Json) (k : Str) (h2 : k ≠ ['\\']) : getStrKey d k = walk (split k '.') d := by
  cases k with
  | nil => simp [getStrKey, split, rawSegs, dropTrailingEmpty, walk]
  | cons c cs => exact getStrKey_eq_walk d _ (by simp) h2

theorem getStrKey_compose (d : Json) (p q : Str) (hp1 : endsEscaped p = false)
    (hp2 : (rawSegs '.' p).getLast? ≠ some []) (hq : q ≠ ['\\']) :
    getStrKey d (p ++ '.' :: q) = (getStrKey d p).bind (fun v => getStrKey v q) := by
  have hpne : p ≠ ['\\'] := by rintro rfl; simp [endsEscaped] at hp1
  have hpq : p ++ '.' :: q ≠ ['\\'] := by
    cases p with
    | nil => simp
    | cons c cs => cases cs <;> simp
  rw [getStrKey_eq_walk' d _ hpq, getStrKey_eq_walk' d p hpne, split_append_delim '.' (by decide) p q hp1,
    walk_append]
  simp only [split, dropTrailingEmpty_of_last _ hp2]
  congr 1
  funext v
  exact (getStrKey_eq_walk' v q hq).symm

theorem endsEscaped_plain (s : Str) (h : Plain s) : endsEscaped s = false := by
  induction s with
  | nil => rfl
  | cons c cs ih =>
    rw [endsEscaped_other c (h c (by simp)).2]
    exact ih (fun x hx => h x (by simp [hx]))

theorem plain_ne_backslash (s : Str) (h : Plain s) : s ≠ ['\\'] := by
  rintro rfl; exact (h '\\' (by simp)).2 rfl

theorem split_joinWith (ps : List Str) (hne : ps ≠ []) (h : ∀ s ∈ ps, Plain s ∧ s ≠ []) :
    split (joinWith ['.'] ps) '.' = ps := by
  induction ps with
  | nil => simp at hne
  | cons x rest ih =>
    have hx := h x (by simp)
    cases rest with
    | nil => simp [joinWith, split_plain x hx.1, hx.2]
    | cons y rest' =>
      have := ih (by simp) (fun s hs => h s (by simp [hs]))
      simp only [joinWith, List.append_assoc, List.singleton_append]
      rw [split_append_delim '.' (by decide) _ _ (endsEscaped_plain x hx.1), rawSegs_plain x hx.1, this]
      rfl

theorem joinWith_ne_nil (ps : List Str) (hne : ps ≠ []) (h : ∀ s ∈ ps, s ≠ []) : joinWith ['.'] ps ≠ [] := by
  cases ps with
  | nil => simp at hne
  | cons x rest =>
    have hx := h x (by simp)
    cases rest <;> simp [joinWith, hx]

/-! ## from `apply` to the data operators -/

theorem lookupOp_var : lookupOp "var".toList = some (Kind.data, Arity.variadic 0 3) := by decide +kernel
theorem lookupOp_missing : lookupOp "missing".toList = some (Kind.data, Arity.any) := by decide +kernel
theorem lookupOp_missing_some : lookupOp "missing_some".toList = some (Kind.data, Arity.exactly 2) := by decide +kernel

/-- evaluation of a data operator: operands first (left to right), then the operator on the data -/
theorem run_data (k : Str) (ar : Arity) (h : lookupOp k = some (Kind.data, ar)) (v d : Json) :
    run (.obj [(k, v)]) d =
    (match v with | .arr xs => runList xs d | x => do let r ← run x d; pure [r]) >>= execData k d := by
  conv => lhs; unfold run
  simp only [h]
  rfl

theorem ok_bind {α β} (a : α) (f : α → M β) : ((⟨[], .ok a⟩ : M α) >>= f) = f a :=
  M.pure_bind a f

/-- a literal: anything that is not a one-key object evaluates to itself -/
def Literal : Json → Prop
  | .obj [_] => False
  | _ => True

theorem run_literal (r d : Json) (h : Literal r) : run r d = ⟨[], .ok r⟩ := by
  unfold run
  split
  · simp [Literal] at h
  · rfl

theorem check_literal (r : Json) (h : Literal r) : check r = true := by
  unfold check
  split
  · simp [Literal] at h
  · rfl

theorem runList_literals (xs : List Json) (d : Json) (h : ∀ x ∈ xs, Literal x) : runList xs d = ⟨[], .ok xs⟩ := by
  induction xs with
  | nil => rfl
  | cons x rest ih =>
    unfold runList
    rw [run_literal x d (h x (by simp)), ih (fun y hy => h y (by simp [hy]))]
    rfl

theorem checkList_literals (xs : List Json) (h : ∀ x ∈ xs, Literal x) : checkList xs = true := by
  induction xs with
  | nil => rfl
  | cons x rest ih =>
    unfold checkList
    rw [check_literal x (h x (by simp)), ih (fun y hy => h y (by simp [hy]))]
    rfl

/-- `{"var": [operands…]}` that passed the parse phase: the operands are evaluated, then `var` runs on them -/
theorem apply_var (xs : List Json) (d : Json) (hc : check (.obj [("var".toList, .arr xs)]) = true) :
    apply (.obj [("var".toList, .arr xs)]) d = runList xs d >>= var d := by
  unfold apply; rw [if_pos hc, run_data _ _ lookupOp_var]; rfl

/-- literal operands (at most two) -/
theorem apply_var_literals (xs : List Json) (d : Json) (hl : ∀ x ∈ xs, Literal x) (hn : xs.length < 3) :
    apply (.obj [("var".toList, .arr xs)]) d = var d xs := by
  have hc : check (.obj [("var".toList, .arr xs)]) = true := by
    unfold check
    simp only [lookupOp_var]
    simp [Arity.isValidLen, hn, checkList_literals xs hl]
  rw [apply_var xs d hc, runList_literals xs d hl, ok_bind]

end JL.Lemmas.C11
