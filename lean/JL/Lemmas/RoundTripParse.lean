import JL.Lemmas.StrNumRadix
import JL.Lemmas.RoundTripDigits
/-!
# Round trips, part 2 — `str_to_number` / `parse_float_string` on a text of known decimal-literal shape

`[-] I [. F] [e[±]D]` with `I` a non-empty digit run reads back as `ofDecimal neg (digitsVal (I ++ F)) (ev − |F|)`.
-/
namespace JL.Lemmas.RoundTrip
open JL JL.JsOp JL.Spec JL.Lemmas.StrNum

/-- the characters a number's JSON text is made of -/
def NumChar (c : Char) : Prop :=
  isDigit c = true ∨ c = '-' ∨ c = '+' ∨ c = '.' ∨ c = 'e' ∨ c = 'E'

theorem numChar_facts (c : Char) (h : NumChar c) :
    isJsWhitespace c = false ∧ 32 ≤ c.toNat ∧
      c ≠ 'x' ∧ c ≠ 'X' ∧ c ≠ 'o' ∧ c ≠ 'O' ∧ c ≠ 'b' ∧ c ≠ 'B' ∧ c ≠ 'I' := by
  have hlt : c.toNat < 128 := by
    rcases h with h | rfl | rfl | rfl | rfl | rfl
    · have := (isDigit_iff c).mp h; omega
    all_goals decide
  revert h
  exact char_lt_128 (fun c => NumChar c → isJsWhitespace c = false ∧ 32 ≤ c.toNat ∧
      c ≠ 'x' ∧ c ≠ 'X' ∧ c ≠ 'o' ∧ c ≠ 'O' ∧ c ≠ 'b' ∧ c ≠ 'B' ∧ c ≠ 'I') c hlt
    (by unfold NumChar; decide +kernel)

theorem dropWhile_head_false {α} (p : α → Bool) (t : List α) (h : ∀ c ∈ t, p c = false) :
    t.dropWhile p = t := by
  cases t with
  | nil => rfl
  | cons c cs => exact List.dropWhile_cons_of_neg (by simp [h c (by simp)])

theorem trimStart_of_no_ws (t : Str) (h : ∀ c ∈ t, isJsWhitespace c = false) : trimStart t = t :=
  dropWhile_head_false _ _ h

theorem trimBoth_of_no_ws (t : Str) (h : ∀ c ∈ t, isJsWhitespace c = false) : trimBoth t = t := by
  unfold trimBoth trimEnd
  rw [trimStart_of_no_ws t h, dropWhile_head_false _ _ (fun c hc => h c (List.mem_reverse.mp hc)),
    List.reverse_reverse]

theorem radixLiteral_numChars (t : Str) (h : ∀ c ∈ t, NumChar c) : radixLiteral t = none := by
  unfold radixLiteral
  split
  · rename_i p digits
    have hp := numChar_facts p (h p (by simp))
    obtain ⟨-, -, h1, h2, h3, h4, h5, h6, -⟩ := hp
    simp [h1, h2, h3, h4, h5, h6]
  · rfl

/-! ## the grammar reading on an explicit shape (converse of `lit_shape`) -/

theorem expLit_parse (X : Str) (ev : Int) (hX : ExpLit X ev) :
    ES.exponentPart X = if X = [] then none else some (ev, []) := by
  rcases hX with ⟨rfl, rfl⟩ | ⟨c, sg, neg, D, rfl, hc, hsg, hne, hD, rfl⟩
  · rfl
  · rw [exponentPart_eq, if_pos hc]
    obtain ⟨d, D', rfl⟩ : ∃ d D', D = d :: D' := by cases D <;> simp_all
    have hd := digit_facts d (hD d (by simp))
    have hsign : ES.sign (sg ++ d :: D') = (neg, d :: D') := by
      rcases hsg with ⟨rfl, rfl⟩ | ⟨rfl, rfl⟩ | ⟨rfl, rfl⟩
      · simp only [List.nil_append]
        unfold ES.sign
        split
        · rename_i heq; simp at heq; exact absurd heq.1 hd.1
        · rename_i heq; simp at heq; exact absurd heq.1 hd.2.1
        · rfl
      · rfl
      · rfl
    have htw : (d :: D').takeWhile isDigit = d :: D' := by
      have := takeWhile_digits_append (d :: D') [] hD rfl
      simpa using this
    have hdw : (d :: D').dropWhile isDigit = [] := by
      have := List.dropWhile_append_of_pos (p := isDigit) (l₁ := d :: D') (l₂ := []) hD
      simpa using this
    simp only [hsign, htw, hdw]
    simp

theorem lit_parse (I F : Str) (dot : Bool) (X : Str) (ev : Int)
    (hI : ∀ c ∈ I, isDigit c = true) (hF : ∀ c ∈ F, isDigit c = true) (hpos : I ≠ [])
    (hdot : dot = false → F = []) (hX : ExpLit X ev) :
    ES.unsignedDecimalLiteral (I ++ ((if dot then '.' :: F else []) ++ X)) =
      some (digitsVal (I ++ F), ev - (F.length : Int), []) := by
  obtain ⟨hX1, hX2⟩ := expLit_head X ev hX
  have hIlen : I.length ≠ 0 := by cases I <;> simp_all
  unfold ES.unsignedDecimalLiteral
  have hm : ES.decimalMantissa (I ++ ((if dot then '.' :: F else []) ++ X)) =
      some (digitsVal (I ++ F), F.length, X) := by
    rw [mantissa_eq]
    cases dot with
    | true =>
      simp only [if_true, List.cons_append]
      have h1 : (I ++ '.' :: (F ++ X)).takeWhile isDigit = I :=
        takeWhile_digits_append I _ hI (by simp [List.takeWhile_cons]; decide)
      have h2 : (I ++ '.' :: (F ++ X)).dropWhile isDigit = '.' :: (F ++ X) := by
        rw [List.dropWhile_append_of_pos hI]
        exact List.dropWhile_cons_of_neg (by decide)
      have h3 : (F ++ X).takeWhile isDigit = F := takeWhile_digits_append F _ hF hX1
      have h4 : (F ++ X).dropWhile isDigit = X := by
        rw [List.dropWhile_append_of_pos hF]
        cases X with
        | nil => rfl
        | cons x X' =>
          apply List.dropWhile_cons_of_neg
          intro hx
          simp [hx] at hX1
      rw [h1, h2]
      simp only [h3, h4]
      rw [if_neg (by omega)]
    | false =>
      obtain rfl := hdot rfl
      simp only [Bool.false_eq_true, if_false, List.nil_append, List.append_nil]
      have h1 : (I ++ X).takeWhile isDigit = I := takeWhile_digits_append I _ hI hX1
      have h2 : (I ++ X).dropWhile isDigit = X := by
        rw [List.dropWhile_append_of_pos hI]
        cases X with
        | nil => rfl
        | cons x X' =>
          apply List.dropWhile_cons_of_neg
          intro hx
          simp [hx] at hX1
      rw [h1, h2]
      split
      · exact absurd rfl (hX2 _)
      · rw [if_neg hIlen]; rfl
  rw [hm]
  simp only [expLit_parse X ev hX]
  by_cases hXe : X = []
  · subst hXe
    rcases hX with ⟨-, rfl⟩ | ⟨c, sg, neg, D, h, -⟩
    · simp
    · simp at h
  · simp [hXe]

/-- the shape of a number's text -/
def litText (neg : Bool) (I F : Str) (dot : Bool) (X : Str) : Str :=
  (if neg then ['-'] else []) ++ (I ++ ((if dot then '.' :: F else []) ++ X))

theorem digit_numChar (c : Char) (h : isDigit c = true) : NumChar c := Or.inl h

theorem expLit_numChars (X : Str) (ev : Int) (hX : ExpLit X ev) : ∀ c ∈ X, NumChar c := by
  rcases hX with ⟨rfl, -⟩ | ⟨c, sg, neg, D, rfl, hc, hsg, -, hD, -⟩
  · simp
  · intro x hx
    simp only [List.mem_cons, List.mem_append] at hx
    rcases hx with rfl | hx | hx
    · rcases hc with rfl | rfl <;> simp [NumChar]
    · rcases hsg with ⟨rfl, -⟩ | ⟨rfl, -⟩ | ⟨rfl, -⟩ <;> simp at hx <;> subst hx <;> simp [NumChar]
    · exact Or.inl (hD x hx)

theorem litText_numChars (neg : Bool) (I F : Str) (dot : Bool) (X : Str) (ev : Int)
    (hI : ∀ c ∈ I, isDigit c = true) (hF : ∀ c ∈ F, isDigit c = true) (hX : ExpLit X ev) :
    ∀ c ∈ litText neg I F dot X, NumChar c := by
  intro c hc
  unfold litText at hc
  simp only [List.mem_append] at hc
  rcases hc with hc | hc | hc | hc
  · cases neg <;> simp at hc; subst hc; simp [NumChar]
  · exact Or.inl (hI c hc)
  · cases dot <;> simp at hc
    rcases hc with rfl | hc
    · simp [NumChar]
    · exact Or.inl (hF c hc)
  · exact expLit_numChars X ev hX c hc

theorem sign_litText (neg : Bool) (I R : Str) (hI : ∀ c ∈ I, isDigit c = true) (hpos : I ≠ []) :
    ES.sign ((if neg then ['-'] else []) ++ (I ++ R)) = (neg, I ++ R) := by
  cases neg with
  | true => rfl
  | false =>
    obtain ⟨d, D', rfl⟩ : ∃ d D', I = d :: D' := by cases I <;> simp_all
    have hd := digit_facts d (hI d (by simp))
    simp only [Bool.false_eq_true, if_false, List.nil_append, List.cons_append]
    unfold ES.sign
    split
    · rename_i heq; simp at heq; exact absurd heq.1 hd.1
    · rename_i heq; simp at heq; exact absurd heq.1 hd.2.1
    · rfl

theorem not_infinity (I R : Str) (hI : ∀ c ∈ I, isDigit c = true) (hpos : I ≠ []) :
    ¬ (ES.infinityWord.isPrefixOf (I ++ R) = true) ∧ I ++ R ≠ ES.infinityWord := by
  obtain ⟨d, D', rfl⟩ : ∃ d D', I = d :: D' := by cases I <;> simp_all
  have hd := (numChar_facts d (Or.inl (hI d (by simp)))).2.2.2.2.2.2.2.2
  constructor
  · simp [ES.infinityWord, List.isPrefixOf]
    intro h; exact absurd h.symm hd
  · simp [ES.infinityWord]
    intro h; exact absurd h hd

/-- JS `Number(text)` on the text of a decimal literal with a non-empty integer part -/
theorem strToNumber_litText (neg : Bool) (I F : Str) (dot : Bool) (X : Str) (ev : Int)
    (hI : ∀ c ∈ I, isDigit c = true) (hF : ∀ c ∈ F, isDigit c = true) (hpos : I ≠ [])
    (hdot : dot = false → F = []) (hX : ExpLit X ev) :
    strToNumber (litText neg I F dot X) =
      some (F64.ofDecimal neg (digitsVal (I ++ F)) (ev - (F.length : Int))) := by
  have hnc := litText_numChars neg I F dot X ev hI hF hX
  have hws : ∀ c ∈ litText neg I F dot X, isJsWhitespace c = false := fun c hc => (numChar_facts c (hnc c hc)).1
  have hne : litText neg I F dot X ≠ [] := by
    unfold litText; cases neg <;> cases I <;> simp_all
  rw [strToNumber_unfold, trimBoth_of_no_ws _ hws, radixLiteral_numChars _ hnc]
  have hemp : (litText neg I F dot X).isEmpty = false := by
    cases h : litText neg I F dot X <;> simp_all
  simp only [hemp, Bool.false_eq_true, if_false]
  rw [modelDec_eq]
  unfold specDec litText
  rw [sign_litText neg I _ hI hpos]
  simp only [(not_infinity I _ hI hpos).2, if_false, lit_parse I F dot X ev hI hF hpos hdot hX]

/-- `parseFloat(text)` on the same texts -/
theorem parseFloatString_litText (neg : Bool) (I F : Str) (dot : Bool) (X : Str) (ev : Int)
    (hI : ∀ c ∈ I, isDigit c = true) (hF : ∀ c ∈ F, isDigit c = true) (hpos : I ≠ [])
    (hdot : dot = false → F = []) (hX : ExpLit X ev) :
    parseFloatString (litText neg I F dot X) =
      some (F64.ofDecimal neg (digitsVal (I ++ F)) (ev - (F.length : Int))) := by
  have hnc := litText_numChars neg I F dot X ev hI hF hX
  have hws : ∀ c ∈ litText neg I F dot X, isJsWhitespace c = false := fun c hc => (numChar_facts c (hnc c hc)).1
  rw [parseFloatString_eq]
  unfold ES.parseFloat
  rw [skipWS_eq, trimStart_of_no_ws _ hws]
  unfold litText
  rw [sign_litText neg I _ hI hpos]
  simp only [(not_infinity I _ hI hpos).1, lit_parse I F dot X ev hI hF hpos hdot hX]
  simp

end JL.Lemmas.RoundTrip
