import JL.Lemmas.C11
/-!
# Lemmas for C12 (`missing` / `missing_some`)
-/
namespace JL.Lemmas.C12
open JL Json Data JL.Spec.Missing

/-! ## `var` on one or two operands -/

theorem var_of_key (d k : Json) (rest : List Json) (key : Key) (hk : keyOf k = some key) :
    var d (k :: rest) = ⟨[], .ok ((getKey d key).getD (rest.head?.getD .null))⟩ := by
  unfold var; simp only [hk]
  cases getKey d key <;> cases rest <;> rfl

theorem var_bad (d k : Json) (rest : List Json) (hk : keyOf k = none) : var d (k :: rest) = ⟨[], .err⟩ := by
  unfold var; simp [hk]

/-! ## `missing` -/

theorem missingFold_filter (d : Json) (ks acc : List Json) (hv : ∀ k ∈ ks, ValidKey k) :
    missingFold d ks acc = ⟨[], .ok (acc ++ ks.filter (isAbsent d))⟩ := by
  induction ks generalizing acc with
  | nil => simp [missingFold]
  | cons k rest ih =>
    have hk : keyOf k ≠ none := hv k (by simp)
    have hr : ∀ k ∈ rest, ValidKey k := fun x hx => hv x (by simp [hx])
    unfold missingFold
    cases hkk : keyOf k with
    | none => exact absurd hkk hk
    | some key =>
      cases key with
      | null => simp [ih _ hr, isAbsent, hkk]
      | string s =>
        simp only
        cases hg : getKey d (.string s) <;> simp [ih _ hr, isAbsent, hkk, hg]
      | number i =>
        simp only
        cases hg : getKey d (.number i) <;> simp [ih _ hr, isAbsent, hkk, hg]

theorem missingFold_err (d : Json) (ks acc : List Json) (hv : ∃ k ∈ ks, ¬ ValidKey k) :
    missingFold d ks acc = ⟨[], .err⟩ := by
  induction ks generalizing acc with
  | nil => simp at hv
  | cons k rest ih =>
    unfold missingFold
    cases hkk : keyOf k with
    | none => rfl
    | some key =>
      have hr : ∃ k ∈ rest, ¬ ValidKey k := by
        obtain ⟨x, hx, hx2⟩ := hv
        simp at hx
        rcases hx with rfl | hx
        · simp [ValidKey, hkk] at hx2
        · exact ⟨x, hx, hx2⟩
      cases key with
      | null => simp [ih _ hr]
      | string s => simp only; cases getKey d (.string s) <;> simp [ih _ hr]
      | number i => simp only; cases getKey d (.number i) <;> simp [ih _ hr]

theorem missing_eq (d : Json) (args : List Json) :
    missing d args = missingFold d (adjust args) [] >>= fun ks => pure (.arr ks) := by
  cases args with
  | nil => rfl
  | cons a rest => cases a <;> rfl

/-! ## `Json.beq` on valid keys is equality -/

theorem beq_valid (a b : Json) (ha : ValidKey a) : Json.beq a b = true ↔ a = b := by
  cases a <;> cases b <;> simp [ValidKey, keyOf, Json.beq] at ha ⊢
  rename_i n m
  cases n <;> cases m <;> simp_all [Num.beq, Num.asI64]

/-! ## `dedupFrom` -/

theorem contains_append (xs ys : List Json) (x : Json) :
    Json.contains (xs ++ ys) x = (Json.contains xs x || Json.contains ys x) := by
  simp [Json.contains]

theorem dedupFrom_sublist (seen xs : List Json) : (dedupFrom seen xs).Sublist xs := by
  induction xs generalizing seen with
  | nil => simp [dedupFrom]
  | cons x rest ih =>
    unfold dedupFrom
    split
    · exact (ih seen).trans (List.sublist_cons_self _ _)
    · exact (ih _).cons_cons _

theorem dedupFrom_not_seen (seen xs : List Json) : ∀ y ∈ dedupFrom seen xs, Json.contains seen y = false := by
  induction xs generalizing seen with
  | nil => simp [dedupFrom]
  | cons x rest ih =>
    unfold dedupFrom
    split
    · exact ih seen
    · rename_i hx
      intro y hy
      simp at hy
      rcases hy with rfl | hy
      · simpa using hx
      · have := ih _ y hy
        simp [contains_append] at this
        exact this.1

theorem dedupFrom_pairwise (seen xs : List Json) :
    (dedupFrom seen xs).Pairwise (fun a b => Json.beq a b = false) := by
  induction xs generalizing seen with
  | nil => simp [dedupFrom]
  | cons x rest ih =>
    unfold dedupFrom
    split
    · exact ih seen
    · refine List.Pairwise.cons ?_ (ih _)
      intro y hy
      have := dedupFrom_not_seen _ _ y hy
      simp [Json.contains] at this
      exact this.2

theorem dedupFrom_covers (seen xs : List Json) :
    ∀ x ∈ xs, x ∈ dedupFrom seen xs ∨ Json.contains (seen ++ dedupFrom seen xs) x = true := by
  induction xs generalizing seen with
  | nil => simp
  | cons y rest ih =>
    intro x hx
    unfold dedupFrom
    simp at hx
    split
    · rename_i hy
      rcases hx with rfl | hx
      · right; simp [contains_append, hy]
      · exact ih seen x hx
    · rcases hx with rfl | hx
      · left; simp
      · rcases ih (seen ++ [y]) x hx with h | h
        · left; simp [h]
        · right
          simp only [Json.contains] at h ⊢
          grind

/-- on valid keys: membership is preserved and the result has no duplicates -/
theorem mem_dedupFrom (seen xs : List Json) (hv : ∀ k ∈ xs, ValidKey k) (hs : ∀ k ∈ seen, ValidKey k) (k : Json) :
    k ∈ dedupFrom seen xs ↔ k ∈ xs ∧ k ∉ seen := by
  have hc : ∀ (l : List Json), (∀ k ∈ l, ValidKey k) → ∀ x, Json.contains l x = true ↔ x ∈ l := by
    intro l hl x
    simp only [Json.contains, List.any_eq_true]
    constructor
    · rintro ⟨y, hy, hb⟩; rw [(beq_valid y x (hl y hy)).1 hb] at hy; exact hy
    · intro hx; exact ⟨x, hx, (beq_valid x x (hl x hx)).2 rfl⟩
  induction xs generalizing seen with
  | nil => simp [dedupFrom]
  | cons x rest ih =>
    have hr : ∀ k ∈ rest, ValidKey k := fun y hy => hv y (by simp [hy])
    unfold dedupFrom
    split
    · rename_i hx
      have hx' := (hc seen hs x).1 hx
      refine (ih seen hr hs).trans ?_
      simp only [List.mem_cons]
      grind
    · rename_i hx
      have hx' : x ∉ seen := fun h => hx ((hc seen hs x).2 h)
      have hs' : ∀ k ∈ seen ++ [x], ValidKey k := by
        intro y hy; simp at hy; rcases hy with hy | rfl
        · exact hs y hy
        · exact hv _ (by simp)
      have := ih (seen ++ [x]) hr hs'
      simp only [List.mem_cons, List.mem_append] at this ⊢
      grind

theorem nodup_dedupFrom (seen xs : List Json) (hv : ∀ k ∈ xs, ValidKey k) : (dedupFrom seen xs).Nodup := by
  have hp := dedupFrom_pairwise seen xs
  have hsub := dedupFrom_sublist seen xs
  refine List.Pairwise.imp_of_mem ?_ hp
  intro a b ha _ hab heq
  subst heq
  have := (beq_valid a a (hv a (hsub.subset ha))).2 rfl
  simp [this] at hab

/-! ## the early-exit fold of `missing_some` -/

/-- once the threshold is reached nothing more is examined -/
theorem fold_skip (d : Json) (n : Nat) (keys : List Json) (c : Nat) (m : List Json) (h : n ≤ c) :
    missingSomeFold d n keys (c, m) = ⟨[], .ok (c, m)⟩ := by
  induction keys with
  | nil => rfl
  | cons k rest ih => unfold missingSomeFold; simp [h, ih]

theorem present_cons (d k : Json) (rest : List Json) :
    present d (k :: rest) = (if isPresent d k then 1 else 0) + present d rest := by
  simp [present, List.countP_cons]; omega

/-- no invalid key is met before the threshold: the early-exit fold succeeds; its count reaches the threshold
exactly when the total number of present positions does, and otherwise its list is the de-duplicated
list of all absent keys -/
theorem fold_ok (d : Json) (n : Nat) (keys : List Json) (c : Nat) (m : List Json)
    (hv : ∀ pre k post, keys = pre ++ k :: post → keyOf k = none → n ≤ c + present d pre) :
    ∃ c' m', missingSomeFold d n keys (c, m) = ⟨[], .ok (c', m')⟩ ∧
      (if n ≤ c + present d keys then n ≤ c'
       else c' = c + present d keys ∧ m' = m ++ dedupFrom m (keys.filter (isAbsent d))) := by
  induction keys generalizing c m with
  | nil => exact ⟨c, m, rfl, by simp [present, dedupFrom]⟩
  | cons k rest ih =>
    by_cases hc : n ≤ c
    · refine ⟨c, m, fold_skip d n _ c m hc, ?_⟩
      have : n ≤ c + present d (k :: rest) := by omega
      simp [this, hc]
    · have hrest : ∀ c', c' = c + (if isPresent d k then 1 else 0) →
          ∀ pre k' post, rest = pre ++ k' :: post → keyOf k' = none → n ≤ c' + present d pre := by
        intro c' hc' pre k' post he hk'
        have := hv (k :: pre) k' post (by simp [he]) hk'
        rw [present_cons] at this
        omega
      unfold missingSomeFold
      simp only [ge_iff_le, hc, if_false]
      cases hkk : keyOf k with
      | none =>
        have := hv [] k rest rfl hkk
        simp [present] at this
        exact absurd this hc
      | some key =>
        have hnull : key = .null → isPresent d k = false ∧ isAbsent d k = false := by
          rintro rfl; simp [isPresent, isAbsent, hkk]
        cases key with
        | null =>
          obtain ⟨hp, ha⟩ := hnull rfl
          obtain ⟨c', m', h1, h2⟩ := ih c m (hrest c (by simp [hp]))
          refine ⟨c', m', h1, ?_⟩
          simpa [present_cons, hp, ha] using h2
        | string s =>
          simp only
          cases hg : getKey d (.string s) with
          | none =>
            have hp : isPresent d k = false := by simp [isPresent, hkk, hg]
            have ha : isAbsent d k = true := by simp [isAbsent, hkk, hg]
            obtain ⟨c', m', h1, h2⟩ := ih c (if Json.contains m k then m else m ++ [k]) (hrest c (by simp [hp]))
            refine ⟨c', m', h1, ?_⟩
            simp only [present_cons, hp, List.filter_cons, ha, if_true]
            simp only [Bool.false_eq_true, if_false, Nat.zero_add]
            split at h2
            · rename_i h3; simpa [h3] using h2
            · rename_i h3
              simp only [h3, if_false]
              refine ⟨h2.1, ?_⟩
              rw [h2.2, dedupFrom]
              split <;> simp
          | some v =>
            have hp : isPresent d k = true := by simp [isPresent, hkk, hg]
            have ha : isAbsent d k = false := by simp [isAbsent, hkk, hg]
            obtain ⟨c', m', h1, h2⟩ := ih (c + 1) m (hrest (c + 1) (by simp [hp]))
            refine ⟨c', m', h1, ?_⟩
            simp only [present_cons, hp, List.filter_cons, ha, if_true]
            have e : c + (1 + present d rest) = c + 1 + present d rest := by omega
            simpa [e] using h2
        | number i =>
          simp only
          cases hg : getKey d (.number i) with
          | none =>
            have hp : isPresent d k = false := by simp [isPresent, hkk, hg]
            have ha : isAbsent d k = true := by simp [isAbsent, hkk, hg]
            obtain ⟨c', m', h1, h2⟩ := ih c (if Json.contains m k then m else m ++ [k]) (hrest c (by simp [hp]))
            refine ⟨c', m', h1, ?_⟩
            simp only [present_cons, hp, List.filter_cons, ha, if_true]
            simp only [Bool.false_eq_true, if_false, Nat.zero_add]
            split at h2
            · rename_i h3; simpa [h3] using h2
            · rename_i h3
              simp only [h3, if_false]
              refine ⟨h2.1, ?_⟩
              rw [h2.2, dedupFrom]
              split <;> simp
          | some v =>
            have hp : isPresent d k = true := by simp [isPresent, hkk, hg]
            have ha : isAbsent d k = false := by simp [isAbsent, hkk, hg]
            obtain ⟨c', m', h1, h2⟩ := ih (c + 1) m (hrest (c + 1) (by simp [hp]))
            refine ⟨c', m', h1, ?_⟩
            simp only [present_cons, hp, List.filter_cons, ha, if_true]
            have e : c + (1 + present d rest) = c + 1 + present d rest := by omega
            simpa [e] using h2

/-- an invalid key met before the threshold is reached: error -/
theorem fold_err (d : Json) (n : Nat) (keys : List Json) (c : Nat) (m : List Json)
    (hb : ∃ pre k post, keys = pre ++ k :: post ∧ keyOf k = none ∧ c + present d pre < n) :
    missingSomeFold d n keys (c, m) = ⟨[], .err⟩ := by
  induction keys generalizing c m with
  | nil => obtain ⟨pre, k, post, h, _⟩ := hb; simp at h
  | cons x rest ih =>
    obtain ⟨pre, k, post, he, hk, hlt⟩ := hb
    have hc : ¬ n ≤ c := by omega
    unfold missingSomeFold
    simp only [ge_iff_le, hc, if_false]
    cases pre with
    | nil =>
      simp at he
      obtain ⟨rfl, rfl⟩ := he
      simp [hk]
    | cons y pre' =>
      simp at he
      obtain ⟨rfl, rfl⟩ := he
      rw [present_cons] at hlt
      cases hkk : keyOf x with
      | none => rfl
      | some key =>
        cases key with
        | null =>
          have hp : isPresent d x = false := by simp [isPresent, hkk]
          exact ih c m ⟨pre', k, post, rfl, hk, by simp [hp] at hlt; omega⟩
        | string s =>
          simp only
          cases hg : getKey d (.string s) with
          | none =>
            have hp : isPresent d x = false := by simp [isPresent, hkk, hg]
            exact ih c _ ⟨pre', k, post, rfl, hk, by simp [hp] at hlt; omega⟩
          | some v =>
            have hp : isPresent d x = true := by simp [isPresent, hkk, hg]
            exact ih (c + 1) m ⟨pre', k, post, rfl, hk, by simp [hp] at hlt; omega⟩
        | number i =>
          simp only
          cases hg : getKey d (.number i) with
          | none =>
            have hp : isPresent d x = false := by simp [isPresent, hkk, hg]
            exact ih c _ ⟨pre', k, post, rfl, hk, by simp [hp] at hlt; omega⟩
          | some v =>
            have hp : isPresent d x = true := by simp [isPresent, hkk, hg]
            exact ih (c + 1) m ⟨pre', k, post, rfl, hk, by simp [hp] at hlt; omega⟩

/-- `missing_some` on a `u64` threshold and an array of keys -/
theorem missingSome_eq (d : Json) (thr : Num) (n : Nat) (hn : thr.asU64 = some n) (keys rest : List Json) :
    missingSome d (.num thr :: .arr keys :: rest) =
      missingSomeFold d n keys (0, []) >>= fun st => pure (.arr (if st.1 ≥ n then [] else st.2)) := by
  unfold missingSome
  simp only [hn]

theorem missingSome_ok (d : Json) (thr : Num) (n : Nat) (hn : thr.asU64 = some n) (keys rest : List Json)
    (hv : ¬ BadBefore d n keys) :
    missingSome d (.num thr :: .arr keys :: rest) =
      ⟨[], .ok (.arr (if n ≤ present d keys then [] else dedup (keys.filter (isAbsent d))))⟩ := by
  rw [missingSome_eq d thr n hn]
  have hv' : ∀ pre k post, keys = pre ++ k :: post → keyOf k = none → n ≤ 0 + present d pre := by
    intro pre k post he hk
    by_cases h : n ≤ 0 + present d pre
    · exact h
    · exact absurd ⟨pre, k, post, he, hk, by omega⟩ hv
  obtain ⟨c', m', h1, h2⟩ := fold_ok d n keys 0 [] hv'
  rw [h1]
  simp only [Nat.zero_add, List.nil_append] at h2
  split at h2
  · rename_i h3; simp [h3, h2]
  · rename_i h3
    obtain ⟨rfl, rfl⟩ := h2
    simp [h3, dedup]

theorem missingSome_err (d : Json) (thr : Num) (n : Nat) (hn : thr.asU64 = some n) (keys rest : List Json)
    (hb : BadBefore d n keys) :
    missingSome d (.num thr :: .arr keys :: rest) = ⟨[], .err⟩ := by
  rw [missingSome_eq d thr n hn]
  obtain ⟨pre, k, post, he, hk, hlt⟩ := hb
  rw [fold_err d n keys 0 [] ⟨pre, k, post, he, hk, by omega⟩]
  rfl

theorem not_badBefore_of_valid (d : Json) (n : Nat) (keys : List Json) (hv : ∀ k ∈ keys, ValidKey k) :
    ¬ BadBefore d n keys := by
  rintro ⟨pre, k, post, he, hk, _⟩
  exact hv k (by simp [he]) hk

theorem present_le_length (d : Json) (keys : List Json) : present d keys ≤ keys.length := by
  simp [present, List.countP_le_length]

/-! ## from `apply` -/
open JL.Lemmas.C11 in
theorem apply_missing (xs : List Json) (d : Json) (hc : check (.obj [("missing".toList, .arr xs)]) = true) :
    apply (.obj [("missing".toList, .arr xs)]) d = runList xs d >>= missing d := by
  unfold apply; rw [if_pos hc, run_data _ _ lookupOp_missing]; rfl

open JL.Lemmas.C11 in
theorem apply_missing_literals (xs : List Json) (d : Json) (hl : ∀ x ∈ xs, Literal x) :
    apply (.obj [("missing".toList, .arr xs)]) d = missing d xs := by
  have hc : check (.obj [("missing".toList, .arr xs)]) = true := by
    unfold check
    simp only [lookupOp_missing]
    simp [Arity.isValidLen, checkList_literals xs hl]
  rw [apply_missing xs d hc, runList_literals xs d hl, ok_bind]

open JL.Lemmas.C11 in
theorem apply_missing_some (xs : List Json) (d : Json) (hc : check (.obj [("missing_some".toList, .arr xs)]) = true) :
    apply (.obj [("missing_some".toList, .arr xs)]) d = runList xs d >>= missingSome d := by
  unfold apply; rw [if_pos hc, run_data _ _ lookupOp_missing_some]; rfl

open JL.Lemmas.C11 in
theorem apply_missing_some_literals (a b : Json) (d : Json) (ha : Literal a) (hb : Literal b) :
    apply (.obj [("missing_some".toList, .arr [a, b])]) d = missingSome d [a, b] := by
  have hl : ∀ x ∈ [a, b], Literal x := by simp [ha, hb]
  have hc : check (.obj [("missing_some".toList, .arr [a, b])]) = true := by
    unfold check
    simp only [lookupOp_missing_some]
    simp [Arity.isValidLen, checkList_literals _ hl]
  rw [apply_missing_some _ d hc, runList_literals _ d hl, ok_bind]

end JL.Lemmas.C12
