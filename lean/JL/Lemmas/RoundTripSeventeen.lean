import JL.Lemmas.RoundTripLayout
/-!
# Round trips, part 5b — seventeen significant digits always suffice

`shortest` tries 1, 2, …, 17 digits and returns `(0, 0)` only if all fail. This file proves that the 17-digit
attempt cannot fail on a (non-zero) double, so the search always succeeds:

* `floorLog10_le`   — the decimal exponent estimate never overshoots (`10^e ≤ value`); the starting estimate is
  checked for each of the 2098 possible bit lengths by kernel evaluation, the fix-up loop keeps the invariant;
* `last_iter_ok`    — with `10^16 · spacing ≤ value < 2^53 · ulp` the decimal grid is finer than the rounding
  interval (`10^16 > 2^53`), so the candidate below or the candidate above the exact value is strictly inside;
* `shortest_ne_zero`— hence the loop returns at `n = 17` at the latest, with non-zero digits.
-/
namespace JL.Lemmas.RoundTrip
open JL JL.F64 JL.Lemmas.StrNum
set_option exponentiation.threshold 4096

/-- `10^e ≤ k · 2^-1074`, cross-multiplied -/
def Le10 (k : Nat) (e : Int) : Prop :=
  if e ≥ 0 then 10 ^ e.toNat * S ≤ k else S ≤ k * 10 ^ (-e).toNat

instance (k : Nat) (e : Int) : Decidable (Le10 k e) := by unfold Le10; exact inferInstance

def estOK (L : Nat) : Bool := decide (Le10 (2 ^ (L - 1)) (((L : Int) - 1075) * 30103 / 100000 - 1))

theorem est_ok_all : ∀ L, L < 2099 → estOK L = true := by decide +kernel

theorem le10_mono (k k' : Nat) (e : Int) (h : Le10 k e) (hk : k ≤ k') : Le10 k' e := by
  unfold Le10 at *
  split
  · rename_i he; rw [if_pos he] at h; omega
  · rename_i he; rw [if_neg he] at h
    exact Nat.le_trans h (Nat.mul_le_mul_right _ hk)

/-- `floorLog10 k` never overshoots: `10^(floorLog10 k) ≤ k · 2^-1074` -/
theorem floorLog10_le (k : Nat) (hk0 : k ≠ 0) (hk : k < OVF) : Le10 k (floorLog10 k) := by
  have hL : bitLen k < 2099 := by
    have := (bitLen_le_iff k 2098).mpr hk; omega
  have h0 := est_ok_all (bitLen k) hL
  unfold estOK at h0
  have h0' := le10_mono _ k _ (of_decide_eq_true h0) (bitLen_bounds k hk0).1
  unfold floorLog10
  extract_lets L est e le10
  rw [Id.run_bind, Std.Legacy.Range.forIn_eq_forIn_range']
  refine forIn_list_inv _ _ (fun e => Le10 k e) e h0' ?_
  intro a _ b hb
  extract_lets e'
  split
  · rename_i hc
    simp only [Id.run_pure, ForInStep.value]
    have : le10 (e' + 1) = decide (Le10 k (e' + 1)) := by
      simp only [le10, Le10]
      split <;> simp [*]
    rw [this] at hc
    exact of_decide_eq_true hc
  · simpa [Id.run_pure, ForInStep.value] using hb
theorem inside_of_strict (incl : Bool) (lo v hi : Nat) (h1 : lo < v) (h2 : v < hi) :
    (if incl = true then decide (lo ≤ v) && decide (v ≤ hi) else decide (lo < v) && decide (v < hi)) = true := by
  cases incl <;> simp <;> omega

/-- with 17 significant digits one of the two candidates around the exact value is strictly inside the interval -/
theorem last_iter_ok (k lo2 hi2 : Nat) (incl : Bool) (hiv : interval k = (lo2, hi2, incl)) (hk0 : k ≠ 0)
    (hg : 2 ^ (bitLen k - 53) ∣ k) (A B : Nat) (hA : 0 < A) (hB : 0 < B) (hAB : 10 ^ 16 * A ≤ k * B) :
    ((lo2 * B < 2 * (k * B / A) * A ∧ 2 * (k * B / A) * A < hi2 * B) ∧ k * B / A > 0) ∨
    (lo2 * B < 2 * (k * B / A + 1) * A ∧ 2 * (k * B / A + 1) * A < hi2 * B) := by
  rw [interval_eq] at hiv
  simp only [Prod.mk.injEq] at hiv
  obtain ⟨hlo, hhi, -⟩ := hiv
  obtain ⟨hb1, hb2⟩ := bitLen_bounds k hk0
  generalize hU : 2 ^ (bitLen k - 53) = U at *
  have hUpos : 0 < U := by rw [← hU]; exact Nat.two_pow_pos _
  have hUk : U ≤ k := Nat.le_of_dvd (by omega) hg
  have hkU : k < 2 ^ 53 * U := by
    rw [← hU, ← Nat.pow_add]
    exact Nat.lt_of_lt_of_le hb2 (Nat.pow_le_pow_right (by decide) (by omega))
  -- the two candidates
  have hcf : 10 ^ 16 ≤ k * B / A := (Nat.le_div_iff_mul_le hA).mpr hAB
  have hX1 : k * B / A * A ≤ k * B := Nat.div_mul_le_self _ _
  have hX2 : k * B < k * B / A * A + A := by
    have := Nat.div_add_mod (k * B) A
    have := Nat.mod_lt (k * B) hA
    rw [Nat.mul_comm A] at *
    omega
  have e1 : 2 * (k * B / A) * A = 2 * (k * B / A * A) := Nat.mul_assoc _ _ _
  have e2 : 2 * (k * B / A + 1) * A = 2 * (k * B / A * A) + 2 * A := by
    rw [Nat.mul_assoc, Nat.add_mul, Nat.one_mul, Nat.mul_add]
  rw [e1, e2]
  generalize k * B / A * A = X at *
  have e3 : hi2 * B = 2 * (k * B) + U * B := by rw [← hhi, Nat.add_mul, Nat.mul_assoc]
  rw [e3]
  by_cases hpow : 53 < bitLen k ∧ k = 2 ^ (bitLen k - 1)
  · -- power of two: the upper candidate
    right
    rw [if_pos hpow] at hlo
    have hUH : U = 2 * (U / 2) := by
      have : bitLen k - 53 = (bitLen k - 54) + 1 := by omega
      rw [← hU, this, Nat.pow_succ]; omega
    generalize U / 2 = H at *
    have hH : 0 < H := by omega
    have e4 : lo2 * B = 2 * (k * B) - H * B := by rw [← hlo, Nat.sub_mul, Nat.mul_assoc]
    have hk53 : k = 2 ^ 53 * H := by
      have h1 : 2 ^ (bitLen k - 1) = 2 ^ 52 * 2 ^ (bitLen k - 53) := by
        rw [← Nat.pow_add]; congr 1; omega
      rw [hpow.2, h1, hU, hUH]; omega
    have hkB : k * B = 2 ^ 53 * (H * B) := by rw [hk53, Nat.mul_assoc]
    have hHB : 0 < H * B := Nat.mul_pos hH hB
    have hUB : U * B = 2 * (H * B) := by rw [hUH, Nat.mul_assoc]
    rw [e4, hUB]
    generalize H * B = W at *
    generalize k * B = Y at *
    omega
  · rw [if_neg hpow] at hlo
    have e4 : lo2 * B = 2 * (k * B) - U * B := by rw [← hlo, Nat.sub_mul, Nat.mul_assoc]
    have hkB : k * B < 2 ^ 53 * (U * B) := by
      rw [← Nat.mul_assoc]; exact Nat.mul_lt_mul_of_pos_right hkU hB
    have hUB : 0 < U * B := Nat.mul_pos hUpos hB
    rw [e4]
    generalize U * B = Z at *
    generalize k * B = Y at *
    by_cases hd : 2 * (Y - X) < Z
    · left; omega
    · right; omega


theorem forIn_found {α σ : Type} (l : List α) (f : α → Option σ × Unit → Id (ForInStep (Option σ × Unit)))
    (Q : σ → Prop)
    (hshape : ∀ a b, (∃ r, (f a b).run = .done (some r, ()) ∧ Q r) ∨ (f a b).run = .yield (none, ()))
    (hgood : ∃ a ∈ l, ∀ b, (f a b).run ≠ .yield (none, ())) :
    ∃ r, (forIn l (none, ()) f).run.1 = some r ∧ Q r := by
  induction l with
  | nil => obtain ⟨a, ha, -⟩ := hgood; cases ha
  | cons a as ih =>
    rw [List.forIn_cons]
    simp only [Id.run_bind]
    rcases hshape a (none, ()) with ⟨r, hr, hq⟩ | hy
    · rw [hr]; exact ⟨r, rfl, hq⟩
    · rw [hy]
      simp only []
      apply ih
      obtain ⟨a', ha', hg⟩ := hgood
      rcases List.mem_cons.mp ha' with rfl | h
      · exact absurd hy (hg _)
      · exact ⟨a', h, hg⟩

theorem forIn_result_found {α σ : Type} (l : List α)
    (f : α → Option σ × Unit → Id (ForInStep (Option σ × Unit))) (Q : σ → Prop) (d : σ)
    (hshape : ∀ a b, (∃ r, (f a b).run = .done (some r, ()) ∧ Q r) ∨ (f a b).run = .yield (none, ()))
    (hgood : ∃ a ∈ l, ∀ b, (f a b).run ≠ .yield (none, ())) :
    Q (match (forIn l (none, ()) f).run.1 with | some r => r | none => d) := by
  obtain ⟨r, hr, hq⟩ := forIn_found l f Q hshape hgood
  rw [hr]; exact hq

theorem scale_of_le10 (k : Nat) (e : Int) (h : Le10 k e) (A B : Nat)
    (hAB : (if e - ((17 : Nat) : Int) + 1 ≥ 0 then (10 ^ (e - ((17 : Nat) : Int) + 1).toNat * S, 1)
            else (S, 10 ^ (-(e - ((17 : Nat) : Int) + 1)).toNat)) = (A, B)) :
    0 < A ∧ 0 < B ∧ 10 ^ 16 * A ≤ k * B := by
  unfold Le10 at h
  have hS := S_pos
  generalize S = s at *
  by_cases hp : e - ((17 : Nat) : Int) + 1 ≥ 0
  · rw [if_pos hp] at hAB
    simp only [Prod.mk.injEq] at hAB
    obtain ⟨rfl, rfl⟩ := hAB
    have he : e ≥ 0 := by omega
    rw [if_pos he] at h
    have hx : e.toNat = 16 + (e - ((17 : Nat) : Int) + 1).toNat := by omega
    rw [hx, Nat.pow_add] at h
    refine ⟨Nat.mul_pos (Nat.pow_pos (by decide)) hS, by decide, ?_⟩
    rw [Nat.mul_one, ← Nat.mul_assoc]; exact h
  · rw [if_neg hp] at hAB
    simp only [Prod.mk.injEq] at hAB
    obtain ⟨rfl, rfl⟩ := hAB
    refine ⟨hS, Nat.pow_pos (by decide), ?_⟩
    by_cases he : e ≥ 0
    · rw [if_pos he] at h
      have hx : 16 = (-(e - ((17 : Nat) : Int) + 1)).toNat + e.toNat := by omega
      have : 10 ^ 16 * s = 10 ^ (-(e - ((17 : Nat) : Int) + 1)).toNat * (10 ^ e.toNat * s) := by
        rw [← Nat.mul_assoc, ← Nat.pow_add, ← hx]
      rw [this, Nat.mul_comm k]
      exact Nat.mul_le_mul_left _ h
    · rw [if_neg he] at h
      have hx : (-(e - ((17 : Nat) : Int) + 1)).toNat = (-e).toNat + 16 := by omega
      rw [hx, Nat.pow_add, ← Nat.mul_assoc, Nat.mul_comm (10 ^ 16)]
      exact Nat.mul_le_mul_right _ h

/-- **17 significant digits always suffice**: the digit search of `shortest` succeeds on every non-zero double -/
theorem shortest_ne_zero (k : Nat) (hk0 : k ≠ 0) (hk : OnGrid k) : (shortest k).1 ≠ 0 := by
  have hg := (grid_iff k).mp hk.2
  have hfl := floorLog10_le k hk0 hk.1
  unfold shortest
  generalize hiv : interval k = iv
  obtain ⟨lo2, hi2, incl⟩ := iv
  rw [Id.run_bind, Std.Legacy.Range.forIn_eq_forIn_range']
  refine forIn_result_found _ _ (fun r : Nat × Int => r.1 ≠ 0) _ ?_ ?_
  · intro a b
    extract_lets p'
    split
    rename_i A B hAB
    extract_lets cf inside t dist c1 c2 ok1 ok2 cc
    split
    · rename_i hok
      left
      refine ⟨_, rfl, ?_⟩
      have hc1 : c1 > 0 := by
        simp only [ok1, Bool.and_eq_true, decide_eq_true_eq] at hok; exact hok.1.2
      show cc ≠ 0
      simp only [cc]
      have hc2 : c2 = c1 + 1 := rfl
      repeat' split
      all_goals omega
    · split
      · rename_i hok
        left
        refine ⟨_, rfl, ?_⟩
        simp only [ok1, Bool.and_eq_true, decide_eq_true_eq] at hok
        show c1 ≠ 0
        omega
      · split
        · left
          refine ⟨_, rfl, ?_⟩
          exact Nat.succ_ne_zero _
        · right; rfl
  · refine ⟨17, by decide, fun b => ?_⟩
    extract_lets p'
    split
    rename_i A B hAB
    obtain ⟨hA, hB, hABk⟩ := scale_of_le10 k _ hfl A B hAB
    have key := last_iter_ok k lo2 hi2 incl hiv hk0 hg A B hA hB hABk
    extract_lets cf inside t dist c1 c2 ok1 ok2 cc
    have hor : ok1 = true ∨ ok2 = true := by
      rcases key with ⟨⟨h1, h2⟩, h3⟩ | ⟨h1, h2⟩
      · left
        simp only [ok1, inside, c1, cf, Bool.and_eq_true, decide_eq_true_eq]
        exact ⟨inside_of_strict incl _ _ _ h1 h2, h3⟩
      · right
        simp only [ok2, inside, c2, cf]
        exact inside_of_strict incl _ _ _ h1 h2
    split
    · intro h; cases h
    · split
      · intro h; cases h
      · split
        · intro h; cases h
        · rename_i h1 h2 h3
          rcases hor with h | h
          · exact absurd h h2
          · exact absurd h h3


theorem shortestOK_of_onGrid (k : Nat) (hk : OnGrid k) : ShortestOK k := by
  by_cases hk0 : k = 0
  · exact Or.inl hk0
  · exact Or.inr (shortest_ne_zero k hk0 hk)

end JL.Lemmas.RoundTrip
