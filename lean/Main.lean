import JL.Wire
import JL.Spec.All
open JL JL.Wire

def fbits (s : String) : F64 := F64.ofBits (parseHex s)
def outF (x : F64) : String := toHex16 (F64.toBits x)

def listArg (v : Json) : Option (List Json) := match v with | .arr xs => some xs | _ => none

def step (line : String) : String :=
  match line.trimAscii.toString.splitOn " " with
  | [] => "bad-op"
  | cmd :: toks =>
    -- float primitives (hex bit patterns)
    if cmd == "f.add" then (match toks with | [a, b] => outF (F64.add (fbits a) (fbits b)) | _ => "bad-op")
    else if cmd == "f.sub" then (match toks with | [a, b] => outF (F64.sub (fbits a) (fbits b)) | _ => "bad-op")
    else if cmd == "f.mul" then (match toks with | [a, b] => outF (F64.mul (fbits a) (fbits b)) | _ => "bad-op")
    else if cmd == "f.div" then (match toks with | [a, b] => outF (F64.div (fbits a) (fbits b)) | _ => "bad-op")
    else if cmd == "f.rem" then (match toks with | [a, b] => outF (F64.rem (fbits a) (fbits b)) | _ => "bad-op")
    else if cmd == "f.lt" then (match toks with | [a, b] => encB (F64.lt (fbits a) (fbits b)) | _ => "bad-op")
    else if cmd == "f.le" then (match toks with | [a, b] => encB (F64.le (fbits a) (fbits b)) | _ => "bad-op")
    else if cmd == "f.eq" then (match toks with | [a, b] => encB (F64.eq (fbits a) (fbits b)) | _ => "bad-op")
    else if cmd == "f.u64" then (match toks with | [n] => outF (F64.ofNat n.toNat!) | _ => "bad-op")
    else if cmd == "f.i64" then (match toks with | [n] => outF (F64.ofInt n.toInt!) | _ => "bad-op")
    else if cmd == "f.cast" then (match toks with | [a] => toString (F64.toI64Sat (fbits a)) | _ => "bad-op")
    else if cmd == "f.fract0" then (match toks with | [a] => encB (F64.fractIsZero (fbits a)) | _ => "bad-op")
    else if cmd == "f.fmt" then (match toks with | [a] => String.ofList (F64.format (fbits a)) | _ => "bad-op")
    else if cmd == "f.dec" then (match toks with
      | [neg, d, e] => outF (F64.ofDecimal (neg == "1") d.toNat! e.toInt!) | _ => "bad-op")
    else if cmd == "f.parse" then (match parseMany 1 toks with
      | some [.str s] => encF (JsOp.rustParseF64 s) | _ => "bad-op")
    else
    let arity1 := ["to_string", "to_number", "parse_float", "str_to_number", "to_negative", "abstract_max",
      "abstract_min", "parse_float_add", "parse_float_mul", "ser", "to_number_value", "strict_eq_same",
      "spec.to_number", "spec.parse_float", "spec.string_to_number"]
    let n := if arity1.contains cmd then 1 else 2
    match parseMany n toks with
    | none => "bad-op"
    | some args =>
      match cmd, args with
      | "apply", [r, d] => encM (apply r d)
      | "to_string", [v] => encStr (JsOp.toString v)
      | "to_number", [v] => encF (JsOp.toNumber v)
      | "parse_float", [v] => encF (JsOp.parseFloat v)
      | "str_to_number", [.str s] => encF (JsOp.strToNumber s)
      | "to_negative", [v] => encF (JsOp.toNegative v)
      | "abstract_max", [.arr xs] => encF (JsOp.abstractMax xs)
      | "abstract_min", [.arr xs] => encF (JsOp.abstractMin xs)
      | "parse_float_add", [.arr xs] => encF (JsOp.parseFloatAdd xs)
      | "parse_float_mul", [.arr xs] => encF (JsOp.parseFloatMul xs)
      | "abstract_minus", [a, b] => encF (JsOp.abstractMinus a b)
      | "abstract_div", [a, b] => encF (JsOp.abstractDiv a b)
      | "abstract_mod", [a, b] => encF (JsOp.abstractMod a b)
      | "abstract_plus", [a, b] => encode (JsOp.abstractPlus a b)
      | "abstract_eq", [a, b] => encB (JsOp.abstractEq a b)
      | "abstract_ne", [a, b] => encB (JsOp.abstractNe a b)
      | "strict_eq", [a, b] => encB (JsOp.strictEq a b)
      | "strict_ne", [a, b] => encB (JsOp.strictNe a b)
      | "strict_eq_same", [_] => encB true      -- one instance compared with itself: the pointer-identity shortcut (JS: `a === a`)
      | "abstract_lt", [a, b] => encB (JsOp.abstractLt a b)
      | "abstract_gt", [a, b] => encB (JsOp.abstractGt a b)
      | "abstract_lte", [a, b] => encB (JsOp.abstractLte a b)
      | "abstract_gte", [a, b] => encB (JsOp.abstractGte a b)
      | "ser", [v] => String.ofList (Json.ser v)
      | "to_number_value", [.num (.flt x)] => (match toNumberValue x with | some v => "ok " ++ encode v | none => "err")
      | _, _ => Spec.step cmd args

partial def loop (h : IO.FS.Stream) (out : IO.FS.Stream) : IO Unit := do
  let line ← h.getLine
  if line.isEmpty then return ()
  out.putStrLn (step line)
  loop h out

def main : IO Unit := do loop (← IO.getStdin) (← IO.getStdout)
