//! Correspondence harness: runs the REAL crate (path dependency on /repo) in-process on the cases
//! read from stdin, one per line, in the wire format of /verif/lean/JL/Wire.lean.
//!
//! For every input line it prints `@@B`, runs the case under `catch_unwind` (anything the crate
//! prints with `println!` — the `log` operator — lands between the markers), then prints
//! `@@E <result>`.
use serde_json::{Map, Number, Value};
use std::io::{self, BufRead, Write};
use std::panic;
use std::str::FromStr;
use std::sync::Arc;

use jsonlogic_rs::js_op;

fn decode_str(body: &str) -> Option<String> {
    if body.is_empty() {
        return Some(String::new());
    }
    body.split(',')
        .map(|t| t.parse::<u32>().ok().and_then(std::char::from_u32))
        .collect()
}

fn parse_value<'a>(toks: &[&'a str], pos: &mut usize) -> Option<Value> {
    let tok = *toks.get(*pos)?;
    *pos += 1;
    match tok {
        "n" => Some(Value::Null),
        "t" => Some(Value::Bool(true)),
        "f" => Some(Value::Bool(false)),
        "[" => {
            let mut v = Vec::new();
            loop {
                if *toks.get(*pos)? == "]" {
                    *pos += 1;
                    return Some(Value::Array(v));
                }
                v.push(parse_value(toks, pos)?);
            }
        }
        "{" => {
            let mut m = Map::new();
            loop {
                let k = *toks.get(*pos)?;
                *pos += 1;
                if k == "}" {
                    return Some(Value::Object(m));
                }
                let key = decode_str(k.strip_prefix('s')?)?;
                let val = parse_value(toks, pos)?;
                m.insert(key, val);
            }
        }
        _ => {
            let (head, body) = tok.split_at(1);
            match head {
                "u" => Some(Value::Number(Number::from(body.parse::<u64>().ok()?))),
                "i" => {
                    let mag = body.parse::<u64>().ok()? as i128;
                    Some(Value::Number(Number::from((-mag) as i64)))
                }
                "d" => {
                    let bits = u64::from_str_radix(body, 16).ok()?;
                    Number::from_f64(f64::from_bits(bits)).map(Value::Number)
                }
                "s" => decode_str(body).map(Value::String),
                _ => None,
            }
        }
    }
}

fn enc_str(s: &str, out: &mut String) {
    out.push('s');
    let mut first = true;
    for c in s.chars() {
        if !first {
            out.push(',');
        }
        first = false;
        out.push_str(&(c as u32).to_string());
    }
}

fn encode(v: &Value, out: &mut String) {
    match v {
        Value::Null => out.push('n'),
        Value::Bool(true) => out.push('t'),
        Value::Bool(false) => out.push('f'),
        Value::Number(n) => {
            if let Some(u) = n.as_u64() {
                out.push('u');
                out.push_str(&u.to_string());
            } else if let Some(i) = n.as_i64() {
                out.push('i');
                out.push_str(&(-(i as i128)).to_string());
            } else {
                out.push('d');
                out.push_str(&format!("{:016x}", n.as_f64().unwrap().to_bits()));
            }
        }
        Value::String(s) => enc_str(s, out),
        Value::Array(xs) => {
            out.push('[');
            for x in xs {
                out.push(' ');
                encode(x, out);
            }
            out.push_str(" ]");
        }
        Value::Object(m) => {
            out.push('{');
            for (k, x) in m {
                out.push(' ');
                enc_str(k, out);
                out.push(' ');
                encode(x, out);
            }
            out.push_str(" }");
        }
    }
}

fn enc(v: &Value) -> String {
    let mut s = String::new();
    encode(v, &mut s);
    s
}

fn canon_bits(x: f64) -> u64 {
    if x.is_nan() {
        0x7ff8000000000000
    } else {
        x.to_bits()
    }
}

fn enc_f(x: Option<f64>) -> String {
    match x {
        None => "none".into(),
        Some(f) => format!("d{:016x}", canon_bits(f)),
    }
}

fn enc_b(b: bool) -> String {
    if b { "t".into() } else { "f".into() }
}

fn fb(s: &str) -> Option<f64> {
    u64::from_str_radix(s, 16).ok().map(f64::from_bits)
}

fn outf(x: f64) -> String {
    format!("{:016x}", canon_bits(x))
}

fn float_cmd(cmd: &str, t: &[&str]) -> Option<String> {
    Some(match (cmd, t.len()) {
        ("f.add", 2) => outf(fb(t[0])? + fb(t[1])?),
        ("f.sub", 2) => outf(fb(t[0])? - fb(t[1])?),
        ("f.mul", 2) => outf(fb(t[0])? * fb(t[1])?),
        ("f.div", 2) => outf(fb(t[0])? / fb(t[1])?),
        ("f.rem", 2) => outf(fb(t[0])? % fb(t[1])?),
        ("f.lt", 2) => enc_b(fb(t[0])? < fb(t[1])?),
        ("f.le", 2) => enc_b(fb(t[0])? <= fb(t[1])?),
        ("f.eq", 2) => enc_b(fb(t[0])? == fb(t[1])?),
        ("f.u64", 1) => outf(t[0].parse::<u64>().ok()? as f64),
        ("f.i64", 1) => outf(t[0].parse::<i64>().ok()? as f64),
        ("f.cast", 1) => (fb(t[0])? as i64).to_string(),
        ("f.fract0", 1) => enc_b(fb(t[0])?.fract() == 0.0),
        ("f.fmt", 1) => Number::from_f64(fb(t[0])?)?.to_string(),
        ("f.dec", 3) => {
            let s = format!("{}{}e{}", if t[0] == "1" { "-" } else { "" }, t[1], t[2]);
            outf(s.parse::<f64>().ok()?)
        }
        _ => return None,
    })
}

fn hex_to_string(h: &str) -> Option<String> {
    if h.len() % 2 != 0 {
        return None;
    }
    let bytes: Option<Vec<u8>> = (0..h.len() / 2)
        .map(|i| u8::from_str_radix(&h[2 * i..2 * i + 2], 16).ok())
        .collect();
    String::from_utf8(bytes?).ok()
}

fn run_case(line: &str) -> String {
    let toks: Vec<&str> = line.trim_end_matches(|c| c == '\n' || c == '\r').split(' ').collect();
    if toks.is_empty() {
        return "bad-op".into();
    }
    let cmd = toks[0];
    if cmd.starts_with("f.") && cmd != "f.parse" {
        return float_cmd(cmd, &toks[1..]).unwrap_or_else(|| "bad-op".into());
    }
    if cmd == "parsehex" {
        // real serde_json parse of a JSON text given as hex of its UTF-8 bytes
        return match toks.get(1).and_then(|h| hex_to_string(h)) {
            None => "bad-op".into(),
            Some(text) => match serde_json::from_str::<Value>(&text) {
                Ok(v) => format!("ok {}", enc(&v)),
                Err(_) => "err".into(),
            },
        };
    }
    let mut pos = 1;
    let mut args: Vec<Value> = Vec::new();
    while pos < toks.len() {
        match parse_value(&toks, &mut pos) {
            Some(v) => args.push(v),
            None => return "bad-op".into(),
        }
    }
    let list = |v: &Value| -> Option<Vec<Value>> { v.as_array().cloned() };
    match (cmd, args.len()) {
        ("apply", 2) => match jsonlogic_rs::apply(&args[0], &args[1]) {
            Ok(v) => format!("ok {}", enc(&v)),
            Err(e) => {
                // an error value is also something callers look at: it must render (Display and Debug) without panicking
                let shown = format!("{}", e);
                let dbg = format!("{:?}", e);
                if shown.is_empty() && dbg.is_empty() { "err".into() } else { "err".into() }
            }
        },
        ("to_string", 1) => {
            let mut s = String::new();
            enc_str(&js_op::to_string(&args[0]), &mut s);
            s
        }
        ("to_number", 1) => enc_f(js_op::to_number(&args[0])),
        ("parse_float", 1) => enc_f(js_op::parse_float(&args[0])),
        ("str_to_number", 1) => match &args[0] {
            Value::String(s) => enc_f(js_op::str_to_number(s)),
            _ => "bad-op".into(),
        },
        ("f.parse", 1) => match &args[0] {
            Value::String(s) => enc_f(f64::from_str(s).ok()),
            _ => "bad-op".into(),
        },
        ("to_negative", 1) => enc_f(js_op::to_negative(&args[0]).ok()),
        ("abstract_max", 1) | ("abstract_min", 1) | ("parse_float_add", 1) | ("parse_float_mul", 1) => {
            match list(&args[0]) {
                None => "bad-op".into(),
                Some(xs) => {
                    let refs: Vec<&Value> = xs.iter().collect();
                    enc_f(match cmd {
                        "abstract_max" => js_op::abstract_max(&refs).ok(),
                        "abstract_min" => js_op::abstract_min(&refs).ok(),
                        "parse_float_add" => js_op::parse_float_add(&refs).ok(),
                        _ => js_op::parse_float_mul(&refs).ok(),
                    })
                }
            }
        }
        ("abstract_minus", 2) => enc_f(js_op::abstract_minus(&args[0], &args[1]).ok()),
        ("abstract_div", 2) => enc_f(js_op::abstract_div(&args[0], &args[1]).ok()),
        ("abstract_mod", 2) => enc_f(js_op::abstract_mod(&args[0], &args[1]).ok()),
        ("abstract_plus", 2) => enc(&js_op::abstract_plus(&args[0], &args[1])),
        ("abstract_eq", 2) => enc_b(js_op::abstract_eq(&args[0], &args[1])),
        ("abstract_ne", 2) => enc_b(js_op::abstract_ne(&args[0], &args[1])),
        ("strict_eq", 2) => enc_b(js_op::strict_eq(&args[0], &args[1])),
        ("strict_ne", 2) => enc_b(js_op::strict_ne(&args[0], &args[1])),
        // the SAME instance passed twice (the pointer-identity shortcut of strict_eq; JS: `a === a`)
        ("strict_eq_same", 1) => enc_b(js_op::strict_eq(&args[0], &args[0])),
        ("abstract_lt", 2) => enc_b(js_op::abstract_lt(&args[0], &args[1])),
        ("abstract_gt", 2) => enc_b(js_op::abstract_gt(&args[0], &args[1])),
        ("abstract_lte", 2) => enc_b(js_op::abstract_lte(&args[0], &args[1])),
        ("abstract_gte", 2) => enc_b(js_op::abstract_gte(&args[0], &args[1])),
        ("ser", 1) => args[0].to_string(),
        // serde_json text round trip: parse(to_string(v)) == v, reported as the re-parsed value
        ("roundtrip", 1) => match serde_json::from_str::<Value>(&args[0].to_string()) {
            Ok(v) => format!("ok {}", enc(&v)),
            Err(_) => "err".into(),
        },
        _ => "bad-op".into(),
    }
}

fn guarded(line: &str) -> String {
    let l = line.to_string();
    match panic::catch_unwind(move || run_case(&l)) {
        Ok(s) => s,
        Err(e) => {
            let msg = if let Some(s) = e.downcast_ref::<&str>() {
                s.to_string()
            } else if let Some(s) = e.downcast_ref::<String>() {
                s.clone()
            } else {
                "?".into()
            };
            format!("panic {}", msg.replace('\n', " ").replace('\t', " "))
        }
    }
}

fn sequential() {
    let stdin = io::stdin();
    for line in stdin.lock().lines() {
        let line = match line {
            Ok(l) => l,
            Err(_) => break,
        };
        println!("@@B");
        let res = guarded(&line);
        println!("@@E {}", res);
    }
    let _ = io::stdout().flush();
}

/// Concurrent mode: all `apply` cases are parsed once into shared `Arc<Value>`s and evaluated by
/// `n` threads, each walking the whole list `rounds` times in its own order; every result must be
/// identical to the first result obtained for that case. Output: one `@@E` line per case (the
/// common result) or `@@E diverged …`.
fn concurrent(n: usize, rounds: usize) {
    let stdin = io::stdin();
    let mut cases: Vec<Option<(Arc<Value>, Arc<Value>)>> = Vec::new();
    for line in stdin.lock().lines().flatten() {
        let toks: Vec<&str> = line.split(' ').collect();
        let mut pos = 1;
        let r = parse_value(&toks, &mut pos);
        let d = parse_value(&toks, &mut pos);
        cases.push(match (toks.get(0), r, d) {
            (Some(&"apply"), Some(r), Some(d)) => Some((Arc::new(r), Arc::new(d))),
            _ => None,
        });
    }
    let cases = Arc::new(cases);
    let mut handles = Vec::new();
    for t in 0..n {
        let cases = Arc::clone(&cases);
        handles.push(std::thread::spawn(move || {
            let len = cases.len();
            let mut results: Vec<Vec<String>> = vec![Vec::new(); len];
            let mut state: u64 = 0x9E3779B97F4A7C15u64.wrapping_mul(t as u64 + 1) | 1;
            for _ in 0..rounds {
                for _ in 0..len {
                    state ^= state << 13;
                    state ^= state >> 7;
                    state ^= state << 17;
                    let i = (state % len as u64) as usize;
                    if let Some((r, d)) = &cases[i] {
                        let before = (enc(r), enc(d));
                        let (r2, d2) = (Arc::clone(r), Arc::clone(d));
                        let res = match panic::catch_unwind(move || jsonlogic_rs::apply(&r2, &d2)) {
                            Ok(Ok(v)) => format!("ok {}", enc(&v)),
                            Ok(Err(_)) => "err".to_string(),
                            Err(_) => "panic".to_string(),
                        };
                        let res = if (enc(r), enc(d)) != before { format!("mutated-input {}", res) } else { res };
                        if !results[i].contains(&res) {
                            results[i].push(res);
                        }
                    }
                }
            }
            results
        }));
    }
    let mut merged: Vec<Vec<String>> = vec![Vec::new(); cases.len()];
    for h in handles {
        if let Ok(rs) = h.join() {
            for (i, r) in rs.into_iter().enumerate() {
                for x in r {
                    if !merged[i].contains(&x) {
                        merged[i].push(x);
                    }
                }
            }
        }
    }
    let out = io::stdout();
    let mut out = out.lock();
    for (i, m) in merged.iter().enumerate() {
        let line = match (cases[i].is_some(), m.len()) {
            (false, _) => "bad-op".to_string(),
            (true, 0) => "not-run".to_string(),
            (true, 1) => m[0].clone(),
            (true, _) => format!("diverged {}", m.join(" || ")),
        };
        let _ = writeln!(out, "@@E {}", line);
    }
}

fn main() {
    panic::set_hook(Box::new(|_| {}));
    let args: Vec<String> = std::env::args().collect();
    let stack: usize = std::env::var("HARNESS_STACK").ok().and_then(|s| s.parse().ok()).unwrap_or(8 << 20);
    let child = std::thread::Builder::new()
        .stack_size(stack)
        .spawn(move || {
            if args.len() >= 3 && args[1] == "--threads" {
                let n: usize = args[2].parse().unwrap_or(8);
                let rounds: usize = args.get(3).and_then(|s| s.parse().ok()).unwrap_or(3);
                concurrent(n, rounds);
            } else {
                sequential();
            }
        })
        .unwrap();
    let _ = child.join();
}
