#!/bin/bash
# Offline build of the framework from files on disk: Lean model + proofs + driver, Rust harness (dev, release).
set -e
cd "$(dirname "$0")"
export CARGO_NET_OFFLINE=true
mkdir -p build
python3 tools/extract_tables.py || true
(cd lean && lake build JL jldrv JL.Props.All)
# function translator (Rust bodies -> lean/JL/Generated/Fns.lean) and the tie theorems over what it produced
(cd lean && lake build JL.Rs) || true
python3 tools/rs2lean.py || true
(cd lean && lake build $(ls JL/Tie/*.lean | sed 's/\.lean$//; s/\//./g') JL.Props.Translated) || true
[ -f harness/Cargo.lock ] || cp /repo/Cargo.lock harness/Cargo.lock
(cd harness && CARGO_TARGET_DIR=/verif/build/target cargo build --offline --quiet && CARGO_TARGET_DIR=/verif/build/target cargo build --offline --quiet --release) || true
(cd /repo && cargo build --offline --quiet --features cmdline --target-dir /verif/build/cli-target) || true
(cd /repo && cargo build --offline --quiet --features python --target-dir /verif/build/py-target) || true
echo setup done
